/-
  Props/C10/Sem.lean — sarkka_bilmes_product = naive_sarkka_bilmes_product in a concrete sum-product semantics.

  Funsors denote functions `Env → R` (R any commutative semiring) of an assignment of a state to every
  ABSOLUTE time step (the relative `_PREV_` names of the code are translated to absolute times by
  `Props.C10.absTime_current / absTime_lag / blockStep_coherent / final_rename_agrees`).  The factor of time
  step t may mention the states at times t-k … t only (`Local k F`, k = max lag).  `sumAt τ` is
  `.reduce(sum_op, x_τ)`, `*` is prod_op.

    naiveFrom     the naive loop:   result = F_last; for t = last-1, …: result = Σ_{x_t} F_t · result
    chain         the block chain as the left-to-right contraction (what `mixed_eq_fold` reduces every
                  bracketing of the chain contraction to): C_0 = B_0, C_{b+1} = Σ_{window b} C_b · B_{b+1}
                  with B_b = Π_{t<p} F_{a+bp+t} the pointwise product of the block's shifted factors
    sarkkaAbs     chain + final reduction over the last window but its newest state
    sarkkaFull    + the truncated-prefix recursion

  `sarkkaFull_eq_naive`: for every duration ≥ 1 and every period p ≥ k the two agree: both are the sum over
  x_0 … x_{T-2} of Π_t F_t; scoping the sums per block is sound exactly because p ≥ max lag
  (`Props.C10.lag_le_period`).
-/
import Mathlib.Algebra.BigOperators.Ring.Finset
import Mathlib.Algebra.BigOperators.Group.Finset.Sigma
import Mathlib.Logic.Function.Basic
import Mathlib.Data.Fintype.Basic
import FunsorVerif.Props.C10.Sarkka

namespace FV.Props.C10.Sem
open Finset

variable {σ : Type} [Fintype σ] {R : Type} [CommSemiring R]

abbrev Env (σ : Type) := Int → σ

/-- sum out the state at absolute time τ -/
def sumAt (τ : Int) (g : Env σ → R) : Env σ → R := fun e => ∑ s, g (Function.update e τ s)

def sumOver (τs : List Nat) (g : Env σ → R) : Env σ → R := τs.foldr (fun (τ : Nat) acc => sumAt (τ : Int) acc) g

def IndepOf (g : Env σ → R) (τ : Int) : Prop := ∀ e s, g (Function.update e τ s) = g e

theorem sumAt_mul_left (g h : Env σ → R) (τ : Int) (hg : IndepOf g τ) :
    sumAt τ (g * h) = g * sumAt τ h := by
  funext e
  simp only [sumAt, Pi.mul_apply, hg e, Finset.mul_sum]

theorem sumAt_comm (g : Env σ → R) (τ τ' : Int) : sumAt τ (sumAt τ' g) = sumAt τ' (sumAt τ g) := by
  by_cases h : τ = τ'
  · subst h; rfl
  · funext e
    simp only [sumAt]
    rw [Finset.sum_comm]
    refine Finset.sum_congr rfl fun s _ => Finset.sum_congr rfl fun s' _ => ?_
    rw [Function.update_comm h]

theorem IndepOf.mul {g h : Env σ → R} {τ : Int} (hg : IndepOf g τ) (hh : IndepOf h τ) : IndepOf (g * h) τ := by
  intro e s; simp only [Pi.mul_apply, hg e s, hh e s]

theorem IndepOf.sumAt_self (g : Env σ → R) (τ : Int) : IndepOf (sumAt τ g) τ := by
  intro e s; simp only [sumAt, Function.update_idem]

theorem IndepOf.sumAt {g : Env σ → R} {τ τ' : Int} (hg : IndepOf g τ) : IndepOf (sumAt τ' g) τ := by
  by_cases h : τ = τ'
  · subst h; exact IndepOf.sumAt_self g τ
  · intro e s
    simp only [_root_.FV.Props.C10.Sem.sumAt]
    refine Finset.sum_congr rfl fun s' _ => ?_
    rw [Function.update_comm h, hg]

theorem IndepOf.sumOver {g : Env σ → R} {τ : Int} (hg : IndepOf g τ) (τs : List Nat) :
    IndepOf (sumOver τs g) τ := by
  induction τs with
  | nil => exact hg
  | cons a τs ih => exact IndepOf.sumAt ih

theorem sumOver_mul_left (g h : Env σ → R) (τs : List Nat) (hg : ∀ τ ∈ τs, IndepOf g (τ : Int)) :
    sumOver τs (g * h) = g * sumOver τs h := by
  induction τs with
  | nil => rfl
  | cons a τs ih =>
    simp only [sumOver, List.foldr_cons] at ih ⊢
    rw [ih (fun τ hτ => hg τ (List.mem_cons_of_mem _ hτ)), sumAt_mul_left _ _ _ (hg a List.mem_cons_self)]

theorem sumOver_append (a b : List Nat) (g : Env σ → R) : sumOver (a ++ b) g = sumOver a (sumOver b g) := by
  simp [sumOver, List.foldr_append]

theorem sumOver_perm {a b : List Nat} (hp : a.Perm b) (g : Env σ → R) : sumOver a g = sumOver b g := by
  induction hp with
  | nil => rfl
  | cons x _ ih => simp only [sumOver, List.foldr_cons] at ih ⊢; rw [ih]
  | swap x y l => simp only [sumOver, List.foldr_cons]; exact sumAt_comm _ _ _
  | trans _ _ ih1 ih2 => rw [ih1, ih2]

/-! ### the lagged chain -/

/-- `F t` mentions the states at times t-k … t only. -/
def Local (k : Nat) (F : Nat → Env σ → R) : Prop :=
  ∀ (t : Nat) (τ : Int), (τ > (t : Int) ∨ τ < (t : Int) - k) → IndepOf (F t) τ

/-- Π_{i<n} F (a+i) -/
def prodRange (F : Nat → Env σ → R) (a : Nat) : Nat → Env σ → R
  | 0 => 1
  | n + 1 => prodRange F a n * F (a + n)

theorem prodRange_add (F : Nat → Env σ → R) (a m n : Nat) :
    prodRange F a (m + n) = prodRange F a m * prodRange F (a + m) n := by
  induction n with
  | zero => simp [prodRange]
  | succ n ih => rw [← Nat.add_assoc, prodRange, ih, prodRange, mul_assoc, Nat.add_assoc]

theorem IndepOf.one (τ : Int) : IndepOf (1 : Env σ → R) τ := fun _ _ => rfl

theorem prodRange_indep (F : Nat → Env σ → R) (a n : Nat) (τ : Int)
    (h : ∀ i, i < n → IndepOf (F (a + i)) τ) : IndepOf (prodRange F a n) τ := by
  induction n with
  | zero => exact IndepOf.one τ
  | succ n ih => exact IndepOf.mul (ih fun i hi => h i (by omega)) (h n (by omega))

/-- naive_sarkka_bilmes_product in absolute time: result = F_last; for t = last-1 … last-d:
    result = Σ_{x_t} F_t · result. -/
def naiveFrom (F : Nat → Env σ → R) (last : Nat) : Nat → Env σ → R
  | 0 => F last
  | d + 1 => sumAt ((last - (d + 1) : Nat) : Int) (F (last - (d + 1)) * naiveFrom F last d)

theorem naiveFrom_eq (k : Nat) (F : Nat → Env σ → R) (hF : Local k F) (last : Nat) :
    ∀ d, d ≤ last → naiveFrom F last d
      = sumOver (List.range' (last - d) d) (prodRange F (last - d) (d + 1)) := by
  intro d
  induction d with
  | zero => intro _; simp [naiveFrom, sumOver, prodRange]
  | succ d ih =>
    intro hd
    rw [naiveFrom, ih (by omega)]
    have e1 : last - d = (last - (d + 1)) + 1 := by omega
    rw [e1]
    rw [← sumOver_mul_left]
    · have : prodRange F (last - (d + 1)) (d + 1 + 1)
          = F (last - (d + 1)) * prodRange F (last - (d + 1) + 1) (d + 1) := by
        rw [Nat.add_comm (d+1) 1, prodRange_add]
        simp [prodRange]
      rw [this]
      rfl
    · intro τ hτ
      apply hF
      left
      simp only [List.mem_range'_1] at hτ
      omega

/-- the block chain in absolute time, for the steps a, a+1, …: C_0 = B_0, C_{b+1} = Σ_{window b} C_b · B_{b+1},
    B_b = Π_{t<p} F_{a+bp+t}, window b = the states at times a+bp … a+bp+p-1 -/
def chain (F : Nat → Env σ → R) (a p : Nat) : Nat → Env σ → R
  | 0 => prodRange F a p
  | b + 1 => sumOver (List.range' (a + b * p) p) (chain F a p b * prodRange F (a + (b + 1) * p) p)

/-- sarkka_bilmes_product on the n·p steps a … a+np-1 in absolute time: the chain, then the final reduction
    over the last window but its newest state. -/
def sarkkaAbs (F : Nat → Env σ → R) (a p n : Nat) : Env σ → R :=
  sumOver (List.range' (a + (n - 1) * p) (p - 1)) (chain F a p (n - 1))

theorem chain_eq (k p : Nat) (hkp : k ≤ p) (F : Nat → Env σ → R) (hF : Local k F) (a : Nat) :
    ∀ b, chain F a p b = sumOver (List.range' a (b * p)) (prodRange F a ((b + 1) * p)) := by
  intro b
  induction b with
  | zero => simp [chain, sumOver]
  | succ b ih =>
    have step : chain F a p (b + 1)
        = sumOver (List.range' (a + b * p) p) (chain F a p b * prodRange F (a + (b + 1) * p) p) := rfl
    rw [step, ih]
    have hind : ∀ τ ∈ List.range' a (b * p), IndepOf (prodRange F (a + (b + 1) * p) p) (τ : Int) := by
      intro τ hτ
      apply prodRange_indep
      intro i _
      apply hF
      right
      simp only [List.mem_range'_1] at hτ
      have : (b + 1) * p = b * p + p := Nat.succ_mul b p
      have h2 : τ + k < a + (b + 1) * p + i := by omega
      omega
    rw [mul_comm (sumOver _ _) (prodRange F (a + (b + 1) * p) p), ← sumOver_mul_left _ _ _ hind,
      mul_comm (prodRange F (a + (b + 1) * p) p), ← sumOver_append]
    have e : (b + 1 + 1) * p = (b + 1) * p + p := Nat.succ_mul (b + 1) p
    rw [e, prodRange_add]
    apply sumOver_perm
    have : List.range' a ((b + 1) * p) = List.range' a (b * p) ++ List.range' (a + b * p) p := by
      rw [Nat.succ_mul]; exact (@List.range'_append_1 a (b * p) p).symm
    rw [this]
    exact List.perm_append_comm

/-- **sarkka = naive in absolute time** (n·p steps starting at a, every lag ≤ k ≤ p): both are
    Σ over all but the newest state of Π_t F_t; the sums may be scoped per block because a factor of a later
    block never mentions a state older than the previous block's window. -/
theorem sarkkaAbs_eq_naive (k p n : Nat) (hkp : k ≤ p) (hp : p > 0) (hn : n > 0)
    (F : Nat → Env σ → R) (hF : Local k F) (a : Nat) :
    sarkkaAbs F a p n = naiveFrom F (a + n * p - 1) (n * p - 1) := by
  have hT : n * p ≥ 1 := Nat.mul_pos hn hp
  rw [naiveFrom_eq k F hF _ _ (by omega), sarkkaAbs, chain_eq k p hkp F hF]
  have e1 : n - 1 + 1 = n := by omega
  have e2 : a + n * p - 1 - (n * p - 1) = a := by omega
  rw [e1, ← sumOver_append, e2, Nat.sub_add_cancel hT]
  apply sumOver_perm
  have hsplit : n * p - 1 = (n - 1) * p + (p - 1) := by
    have : n * p = (n - 1) * p + p := by
      conv => lhs; rw [← e1]
      exact Nat.succ_mul (n - 1) p
    omega
  rw [hsplit]
  have : List.range' a ((n - 1) * p + (p - 1))
      = List.range' a ((n - 1) * p) ++ List.range' (a + (n - 1) * p) (p - 1) :=
    (@List.range'_append_1 a ((n - 1) * p) (p - 1)).symm
  rw [this]
  exact List.perm_append_comm

/-- `for t in reversed(range(r)): result = Σ_{x_t} F_t · result` -/
def prefixLoop (F : Nat → Env σ → R) (res : Env σ → R) : Nat → Env σ → R
  | 0 => res
  | t + 1 => prefixLoop F (sumAt (t : Int) (F t * res)) t

theorem prefixLoop_naive (F : Nat → Env σ → R) (last : Nat) :
    ∀ (t d : Nat), d + t = last → prefixLoop F (naiveFrom F last d) t = naiveFrom F last last := by
  intro t
  induction t with
  | zero => intro d h; simp only [Nat.add_zero] at h; subst h; rfl
  | succ t ih =>
    intro d h
    rw [prefixLoop]
    have e : last - (d + 1) = t := by omega
    have : sumAt (t : Int) (F t * naiveFrom F last d) = naiveFrom F last (d + 1) := by
      rw [naiveFrom, e]
    rw [this]
    exact ih (d + 1) (by omega)

/-- sarkka_bilmes_product in absolute time, any duration T ≥ 1: aligned; or fewer steps than a period (purely
    sequential); or the recursive call on the last T - T%p steps followed by the sequential prefix loop. -/
def sarkkaFull (F : Nat → Env σ → R) (p T : Nat) : Env σ → R :=
  let r := T % p
  if r = 0 then sarkkaAbs F 0 p (T / p)
  else if T - r = 0 then prefixLoop F (F (r - 1)) (r - 1)
  else prefixLoop F (sarkkaAbs F r p (T / p)) r

/-- **sarkka_bilmes_product = naive_sarkka_bilmes_product in absolute time**, every duration ≥ 1, every
    period ≥ max lag, including the truncated-prefix recursion. -/
theorem sarkkaFull_eq_naive (k p T : Nat) (hkp : k ≤ p) (hp : p > 0) (hT : T ≥ 1)
    (F : Nat → Env σ → R) (hF : Local k F) :
    sarkkaFull F p T = naiveFrom F (T - 1) (T - 1) := by
  have hdm := Nat.div_add_mod T p
  have hr : T % p < p := Nat.mod_lt _ hp
  unfold sarkkaFull
  simp only []
  by_cases h0 : T % p = 0
  · rw [if_pos h0]
    have hn : T / p > 0 := Nat.div_pos (Nat.le_of_dvd (by omega) (Nat.dvd_of_mod_eq_zero h0)) hp
    rw [sarkkaAbs_eq_naive k p _ hkp hp hn F hF 0]
    have : T / p * p = T := by rw [Nat.mul_comm]; omega
    rw [this, Nat.zero_add]
  · rw [if_neg h0]
    by_cases h1 : T - T % p = 0
    · rw [if_pos h1]
      have hrT : T % p = T := by have := Nat.mod_le T p; omega
      rw [hrT]
      exact prefixLoop_naive F (T - 1) (T - 1) 0 (by omega)
    · rw [if_neg h1]
      have hn : T / p > 0 := by
        apply Nat.div_pos _ hp
        have := Nat.mod_le T p
        by_contra hlt
        have : T % p = T := Nat.mod_eq_of_lt (by omega)
        omega
      rw [sarkkaAbs_eq_naive k p _ hkp hp hn F hF (T % p)]
      have e : T % p + T / p * p - 1 = T - 1 := by rw [Nat.mul_comm]; omega
      rw [e]
      have hpos : T / p * p ≥ 1 := Nat.mul_pos hn hp
      exact prefixLoop_naive F (T - 1) (T % p) (T / p * p - 1) (by rw [Nat.mul_comm] at hpos ⊢; omega)

/-- Non-vacuity: a lag-2 chain `F t = w (x_t, x_{t-1}, x_{t-2})` is `Local 2`, so e.g. period 2 and 6 apply. -/
theorem local_lag2 (w : σ → σ → σ → R) :
    Local 2 (fun (t : Nat) (e : Env σ) => w (e t) (e ((t : Int) - 1)) (e ((t : Int) - 2))) := by
  intro t τ h e s
  have h0 : (t : Int) ≠ τ := by omega
  have h1 : (t : Int) - 1 ≠ τ := by omega
  have h2 : (t : Int) - 2 ≠ τ := by omega
  simp only [Function.update_of_ne h0, Function.update_of_ne h1, Function.update_of_ne h2]

example (w : σ → σ → σ → R) (T : Nat) (hT : T ≥ 1) :
    sarkkaFull (fun (t : Nat) (e : Env σ) => w (e t) (e ((t : Int) - 1)) (e ((t : Int) - 2))) 2 T
      = naiveFrom (fun (t : Nat) (e : Env σ) => w (e t) (e ((t : Int) - 1)) (e ((t : Int) - 2))) (T - 1) (T - 1) :=
  sarkkaFull_eq_naive 2 2 T (Nat.le_refl 2) (by omega) hT _ (local_lag2 w)

/-
  FULL STATEMENT (the property's last sentence), not proved as ONE theorem:
    for every tensor `trans` with inputs time (size T ≥ 1), current-state names x…, lagged names
    `_PREV_^l x` (l in a lag set L ≠ ∅), global names, and every num_periods ≥ 1:
      ⟦sarkka_bilmes_product(sum, prod, trans, time, globals, num_periods)⟧
        = ⟦naive_sarkka_bilmes_product(sum, prod, trans, time, globals)⟧
    as functions of the result's named inputs, in every commutative semiring.

  PROVED (bundled below):
   (1) structure — on the chain of window transition matrices, for every period ≥ 1, num_periods ≥ 1,
       duration ≥ 1: block construction through the literal Slice indices, `mixed` with
       num_segments = max 1 (T / (p·num_periods)), truncated-prefix recursion  ⇒  sarkka = naive = fold
       (`sarkka_eq_naive`, any associative product, e.g. `Matrix.mul`: `sarkka_matrix_eq_naive`);
   (2) sum scoping — in the function semantics over absolute time steps, for every period p ≥ max lag:
       contracting block windows left to right, then the final reduction, then the prefix loop  =  the naive
       loop (`sarkkaFull_eq_naive`);
   (3) arithmetic — period = lcm ⇒ every lag ≤ period (`lag_le_period`); each time step is in exactly one
       (block, offset) pair (`block_cover`, `block_cover_unique`, `sliceList_block`); relative names denote
       the right absolute steps and block b's curr names are block b+1's prev names (`absTime_current`,
       `absTime_lag`, `blockStep_coherent`, `blockStep_covers`); the final renamings agree
       (`final_rename_agrees`, `prefix_rename`); `_get_shift`/`_shift_name` on strings are that arithmetic
       (`getShiftS_prevs`, `shiftNameS_up`, `shiftNameS_down`, `shiftNameS_absent`).

  NARROWED since (Props/C10/Terms.lean, Props/C10/Carrier.lean):
   (4) a relative-name term semantics of exactly the funsors the two functions build (`denote_shift`,
       `denote_block`, `contract_den`, `termChain_den`) and `sarkka_terms_eq_naive_terms_aligned` /
       `sarkka_terms_eq_naive_terms`: the two funsors are EQUAL, every num_periods (the chain contraction `contract` is associative, so
       `mixed_eq_fold` applies to it directly — no detour through window matrices);
   (5) `Mat.mul sr` of the driver = Mathlib's `Matrix` product on the NaN-free carrier for add-mul (ℚ) and
       max-add (tropical `WithTop ℚᵒᵈ`): `mul_addMul_ofRat`, `mul_maxAdd_ofMaxPlus`.
   (6) the ragged tail 0 < T % p < T at term level: `Terms.sarkka_terms_eq_naive_terms` holds for EVERY duration ≥ 1.
  STILL MODELLING CHOICES (not theorems): several base variables with different name spaces are one joint state;
  `_drop_i` names are eliminated in `contract` rather than modelled as names; names are shift counts (the
  string level is `getShiftS_prevs` / `shiftNameS_*`).
-/
theorem sarkka_eq_naive_partial :
    -- (1) structure
    (∀ (α : Type) (f : α → α → α), Assoc f → ∀ (p np : Nat), p > 0 → np > 0 → ∀ l : List α, l ≠ [] →
        FV.C10.SB.sarkka f p np 2 l = FV.C10.SB.naiveSarkka f l) ∧
    -- (2) sum scoping
    (∀ (σ : Type) [Fintype σ] (R : Type) [CommSemiring R] (k p T : Nat), k ≤ p → p > 0 → T ≥ 1 →
        ∀ (F : Nat → Env σ → R), Local k F → sarkkaFull F p T = naiveFrom F (T - 1) (T - 1)) ∧
    -- (3) the period is admissible for (2)
    (∀ (lags : List Nat) (p : Nat), (∀ l ∈ lags, l > 0) → FV.C10.SB.period lags = some p →
        p > 0 ∧ ∀ l ∈ lags, l ≤ p) :=
  ⟨fun _ f h p np hp hnp l hne => sarkka_eq_naive f h p np hp hnp l hne,
   fun _ _ _ _ k p T hkp hp hT F hF => sarkkaFull_eq_naive k p T hkp hp hT F hF,
   fun lags p hpos hp => ⟨period_pos lags p hpos hp, lag_le_period lags p hpos hp⟩⟩

end FV.Props.C10.Sem
