/-
  Props/C10/Terms.lean — a relative-name term semantics for exactly what sarkka_bilmes_product and
  naive_sarkka_bilmes_product build, and `sarkka_terms_eq_naive_terms_aligned`.

  A relative name is a shift count s (the string "_PREV_" * s ++ base, `Props.C10.getShiftS_prevs` /
  `shiftNameS_up` / `shiftNameS_down`); the state attached to a name is the JOINT state of all base variables,
  so several variables with their own lag sets ⊆ {1..k} are the case "φ ignores some components".
  A funsor is a function `RF = (Nat → σ) → R` of the states at its names (R any commutative semiring);
  `trans` is a time-indexed family φ t with `SuppLt (k+1) (φ t)` (it mentions shifts 0..k only).

     _shift_funsor(f, n)           shiftF n f = renameF (· + n) f        (reads name s+n where f read s)
     f(**{name: _shift_name(name, -m)})   renameF (downBy m) f           (downBy = shiftIdx · (-m))
     trans(time=slice_t) at block b        φ (t + p·b)                    (`sliceList_block`)
     prod_op                               pointwise *
     .reduce(sum_op, shift(x, s))          sumR s
     Contraction over block_step's _drop_  contract p                     (bound names eliminated)

  `denote g a` reads a relative funsor at an absolute anchor a (name s = step a - s):
     denote_shift   denote (shiftF n g) a = denote g (a - n)      renaming by n shifts = reading n steps earlier
     denote_block   `_shift_funsor(trans, p-t-1)(time=slice_t)` at block b denotes F (t + p·b)
     contract_den   the chain contraction denotes the sum over the shared window
     termChain_den  the left-to-right block chain denotes `Sem.chain`
  and the result (`sarkka_terms_eq_naive_terms`: every duration ≥ 1, via `…_aligned`, `…_partial` and the
  ragged-tail lemmas `commute_step`, `prefixTermLoop_renamed`, `renameF_downBy_comp`): the two
  relative-name funsors are EQUAL (as functions of the result's names: name 0 = x_{T-1},
  name j = x_{-j}), via `Sem.sarkkaAbs_eq_naive`, for every num_periods (through `mixed_eq_fold` and
  `contract_assoc`).
-/
import FunsorVerif.Props.C10.Sem
import Mathlib.Data.Fin.Tuple.Basic
import Mathlib.Data.Fintype.Pi
import Mathlib.Data.Fintype.BigOperators

namespace FV.Props.C10.Terms
open FV.C10 FV.C10.SB FV.Props.C10 FV.Props.C10.Sem Finset

variable {σ : Type} [Fintype σ] {R : Type} [CommSemiring R]

/-- an assignment of a state to every relative name (name = shift count: "_PREV_" * s ++ base) -/
abbrev REnv (σ : Type) := Nat → σ
/-- a funsor over relative names -/
abbrev RF (σ R : Type) := REnv σ → R

def renameF (r : Nat → Nat) (g : RF σ R) : RF σ R := fun ρ => g (fun s => ρ (r s))
def shiftF (n : Nat) (g : RF σ R) : RF σ R := renameF (· + n) g
def sumR (s : Nat) (g : RF σ R) : RF σ R := fun ρ => ∑ x, g (Function.update ρ s x)
def sumRs (ss : List Nat) (g : RF σ R) : RF σ R := ss.foldr sumR g

def anchor (a : Int) (e : Env σ) : REnv σ := fun s => e (a - s)
def denote (g : RF σ R) (a : Int) : Env σ → R := fun e => g (anchor a e)

def SuppLt (m : Nat) (g : RF σ R) : Prop := ∀ ρ ρ' : REnv σ, (∀ s, s < m → ρ s = ρ' s) → g ρ = g ρ'

theorem denote_shift (g : RF σ R) (n : Nat) (a : Int) : denote (shiftF n g) a = denote g (a - n) := by
  funext e
  simp only [denote, shiftF, renameF, anchor]
  congr 1; funext s
  congr 1; push_cast; ring

theorem denote_mul (g h : RF σ R) (a : Int) : denote (g * h) a = denote g a * denote h a := rfl

theorem denote_sumR (g : RF σ R) (s : Nat) (a : Int) :
    denote (sumR s g) a = sumAt (a - s) (denote g a) := by
  funext e
  simp only [denote, sumR, sumAt]
  refine Finset.sum_congr rfl fun x _ => ?_
  congr 1; funext s'
  simp only [anchor, Function.update_apply]
  by_cases h : s' = s
  · subst h; simp
  · have : a - (s' : Int) ≠ a - s := by omega
    simp [h, this]

theorem SuppLt.mono {m m' : Nat} {g : RF σ R} (h : SuppLt m g) (hm : m ≤ m') : SuppLt m' g :=
  fun ρ ρ' hρ => h ρ ρ' fun s hs => hρ s (by omega)

theorem SuppLt.shift {m : Nat} {g : RF σ R} (h : SuppLt m g) (n : Nat) : SuppLt (m + n) (shiftF n g) :=
  fun ρ ρ' hρ => h _ _ fun s hs => hρ (s + n) (by omega)

theorem SuppLt.mul {m : Nat} {g g' : RF σ R} (h : SuppLt m g) (h' : SuppLt m g') : SuppLt m (g * g') := by
  intro ρ ρ' hρ; simp only [Pi.mul_apply, h ρ ρ' hρ, h' ρ ρ' hρ]

theorem SuppLt.one (m : Nat) : SuppLt m (1 : RF σ R) := fun _ _ _ => rfl

/-- the absolute-time factor of step t: the relative factor anchored at t -/
def F (φ : Nat → RF σ R) (t : Nat) : Env σ → R := denote (φ t) (t : Int)

theorem local_of_supp (k : Nat) (φ : Nat → RF σ R) (hφ : ∀ t, SuppLt (k + 1) (φ t)) : Local k (F φ) := by
  intro t τ hτ e x
  simp only [F, denote]
  apply hφ
  intro s hs
  simp only [anchor]
  rw [Function.update_of_ne]
  omega

/-! ### contraction over block_step -/

def setCurr (p : Nat) (d : Fin p → σ) (ρ : REnv σ) : REnv σ :=
  fun s => if h : s < p then d ⟨s, h⟩ else ρ s
def setPrev (p : Nat) (d : Fin p → σ) (ρ : REnv σ) : REnv σ :=
  fun s => if h : p ≤ s ∧ s < 2 * p then d ⟨s - p, by omega⟩ else ρ s

/-- `Contraction(sum_op, prod_op, drop, x(**curr_to_drop), y(**prev_to_drop))` for
    block_step = {shift s + p ↦ shift s | s < p}, with the bound `_drop_s` names eliminated:
    Σ over the shared window d of X[curr := d] · Y[prev := d]. -/
def contract (p : Nat) (X Y : RF σ R) : RF σ R :=
  fun ρ => ∑ d : Fin p → σ, X (setCurr p d ρ) * Y (setPrev p d ρ)

theorem setCurr_setCurr (p : Nat) (d e : Fin p → σ) (ρ : REnv σ) :
    setCurr p d (setCurr p e ρ) = setCurr p d ρ := by
  funext s; simp only [setCurr]; split <;> rfl

theorem setPrev_setPrev (p : Nat) (d e : Fin p → σ) (ρ : REnv σ) :
    setPrev p e (setPrev p d ρ) = setPrev p e ρ := by
  funext s; simp only [setPrev]; split <;> rfl

theorem setPrev_setCurr (p : Nat) (d e : Fin p → σ) (ρ : REnv σ) :
    setPrev p d (setCurr p e ρ) = setCurr p e (setPrev p d ρ) := by
  funext s
  simp only [setCurr, setPrev]
  by_cases h1 : s < p
  · have h2 : ¬ (p ≤ s ∧ s < 2 * p) := by omega
    simp [h1, h2]
  · simp [h1]

theorem contract_assoc (p : Nat) : Assoc (contract (σ := σ) (R := R) p) := by
  intro X Y Z
  funext ρ
  simp only [contract, setCurr_setCurr, setPrev_setPrev, setPrev_setCurr, Finset.sum_mul, Finset.mul_sum]
  rw [Finset.sum_comm]
  refine Finset.sum_congr rfl fun d _ => Finset.sum_congr rfl fun e _ => ?_
  rw [mul_assoc]

/-! ### sums over a window of absolute times as one sum over window assignments -/

def downList (o : Nat) : Nat → List Nat
  | 0 => []
  | p + 1 => o :: downList (o - 1) p

def ovrDown (o : Nat) : (p : Nat) → (Fin p → σ) → Env σ → Env σ
  | 0, _, e => e
  | p + 1, d, e => ovrDown (o - 1) p (Fin.tail d) (Function.update e (o : Int) (d 0))

theorem sumOver_downList (G : Env σ → R) : ∀ (p o : Nat) (e : Env σ),
    sumOver (downList o p) G e = ∑ d : Fin p → σ, G (ovrDown o p d e) := by
  intro p
  induction p with
  | zero => intro o e; simp [sumOver, downList, ovrDown]
  | succ p ih =>
    intro o e
    have h1 : sumOver (downList o (p + 1)) G e
        = ∑ x : σ, ∑ d' : Fin p → σ, G (ovrDown (o - 1) p d' (Function.update e (o : Int) x)) := by
      simp only [downList, sumOver, List.foldr_cons, sumAt]
      refine Finset.sum_congr rfl fun x _ => ?_
      exact ih (o - 1) _
    rw [h1, ← Fintype.sum_prod_type']
    refine Fintype.sum_equiv (Fin.consEquiv fun _ => σ) _ _ ?_
    intro ⟨x, d'⟩
    simp [ovrDown, Fin.consEquiv]

theorem ovrDown_off : ∀ (p o : Nat) (d : Fin p → σ) (e : Env σ) (τ : Int),
    (τ > o ∨ τ ≤ (o : Int) - p) → ovrDown o p d e τ = e τ := by
  intro p
  induction p with
  | zero => intro o d e τ _; rfl
  | succ p ih =>
    intro o d e τ h
    simp only [ovrDown]
    rw [ih (o - 1) _ _ τ (by omega), Function.update_of_ne (by omega)]

theorem ovrDown_at : ∀ (p o : Nat) (d : Fin p → σ) (e : Env σ) (s : Fin p), p ≤ o + 1 →
    ovrDown o p d e ((o : Int) - (s : Nat)) = d s := by
  intro p
  induction p with
  | zero => intro o d e s; exact s.elim0
  | succ p ih =>
    intro o d e s hpo
    simp only [ovrDown]
    refine Fin.cases ?_ (fun s' => ?_) s
    · rw [ovrDown_off p (o - 1) _ _ _ (by simp only [Fin.val_zero]; omega)]
      simp
    · have hs' := s'.isLt
      have e1 : (o : Int) - ((s'.succ : Fin (p + 1)) : Nat) = ((o - 1 : Nat) : Int) - (s' : Nat) := by
        simp only [Fin.val_succ]; omega
      rw [e1, ih (o - 1) _ _ s' (by omega)]
      rfl


/-! ### chain elements: curr names (shift < p) anchored at the newest step `o` of the latest block, prev names
    (shift ≥ p) anchored at `i` (= p-1: they denote the initial window x_{-1}, x_{-2}, …) -/

def anchor2 (p i o : Nat) (e : Env σ) : REnv σ :=
  fun s => if s < p then e ((o : Int) - s) else e ((i : Int) - s)
def denote2 (p : Nat) (g : RF σ R) (i o : Nat) : Env σ → R := fun e => g (anchor2 p i o e)

theorem denote2_self (p : Nat) (g : RF σ R) (a : Nat) : denote2 p g a a = denote g (a : Int) := by
  funext e; simp only [denote2, denote]; congr 1; funext s; simp [anchor2, anchor]

/-- **the chain contraction denotes the sum over the shared window**: block_step is coherent
    (`blockStep_coherent`): prev shift s+p of the next block and curr shift s of the chain so far are the same
    absolute step o - s. -/
theorem contract_den (p i o : Nat) (X Y : RF σ R) (hio : i ≤ o) (hpo : p ≤ o + 1) (hY : SuppLt (2 * p) Y) :
    denote2 p (contract p X Y) i (o + p)
      = sumOver (downList o p) (denote2 p X i o * denote Y ((o + p : Nat) : Int)) := by
  funext e
  rw [sumOver_downList]
  simp only [denote2, contract, Pi.mul_apply, denote]
  refine Finset.sum_congr rfl fun d _ => ?_
  congr 1
  · congr 1; funext s
    by_cases hs : s < p
    · have := ovrDown_at p o d e ⟨s, hs⟩ hpo
      simp only [setCurr, anchor2, hs, dite_true, if_true]
      exact this.symm
    · simp only [setCurr, anchor2, hs, dite_false, if_false]
      rw [ovrDown_off p o d e _ (by omega)]
  · apply hY
    intro s hs2
    by_cases hs : s < p
    · have h2 : ¬ (p ≤ s ∧ s < 2 * p) := by omega
      simp only [setPrev, h2, dite_false, anchor2, hs, if_true, anchor]
      rw [ovrDown_off p o d e _ (by omega)]
    · have h2 : p ≤ s ∧ s < 2 * p := by omega
      have hl : setPrev p d (anchor2 p i (o + p) e) s = d ⟨s - p, by omega⟩ := by
        simp only [setPrev]; rw [dif_pos h2]
      rw [hl]
      simp only [anchor]
      have e1 : ((o + p : Nat) : Int) - (s : Int) = (o : Int) - ((⟨s - p, by omega⟩ : Fin p) : Nat) := by
        simp only []; omega
      rw [e1, ovrDown_at p o d e _ hpo]

/-! ### the terms sarkka_bilmes_product builds -/

/-- `reduce(prod_op, renamed_factors)` at block time b, up to offset m:
    renamed_factors[t] = `_shift_funsor(trans, p-t-1)(time=slice_t)`, whose b-th time step is t + p·b
    (`sliceList_block`). -/
def blockUpTo (φ : Nat → RF σ R) (p b : Nat) : Nat → RF σ R
  | 0 => 1
  | m + 1 => blockUpTo φ p b m * shiftF (p - m - 1) (φ (m + p * b))

def blockTerm (φ : Nat → RF σ R) (p b : Nat) : RF σ R := blockUpTo φ p b p

/-- **denote_block**: `_shift_funsor(trans, p-t-1)(time=slice_t)` at block time b, read with the block's
    anchoring (shift s ↦ step b·p + p - 1 - s, `absTime`), is the factor of the original step t + p·b. -/
theorem denote_block (φ : Nat → RF σ R) (p b t : Nat) (ht : t < p) :
    denote (shiftF (p - t - 1) (φ (t + p * b))) ((b * p + p - 1 : Nat) : Int) = F φ (t + p * b) := by
  rw [denote_shift, F]
  congr 1
  have : b * p = p * b := Nat.mul_comm b p
  omega

theorem denote_blockUpTo (φ : Nat → RF σ R) (p b : Nat) : ∀ m, m ≤ p →
    denote (blockUpTo φ p b m) ((b * p + p - 1 : Nat) : Int) = prodRange (F φ) (b * p) m := by
  intro m
  induction m with
  | zero => intro _; rfl
  | succ m ih =>
    intro hm
    rw [blockUpTo, denote_mul, ih (by omega), denote_block φ p b m (by omega), prodRange]
    have : b * p + m = m + p * b := by rw [Nat.mul_comm]; omega
    rw [this]

theorem supp_blockUpTo (k p b : Nat) (hkp : k ≤ p) (φ : Nat → RF σ R) (hφ : ∀ t, SuppLt (k + 1) (φ t)) :
    ∀ m, m ≤ p → SuppLt (2 * p) (blockUpTo φ p b m) := by
  intro m
  induction m with
  | zero => intro _; exact SuppLt.one _
  | succ m ih =>
    intro hm
    exact SuppLt.mul (ih (by omega)) (SuppLt.mono (SuppLt.shift (hφ _) _) (by omega))

/-- the left-to-right chain contraction of the blocks (what `mixed_eq_fold` reduces
    mixed_sequential_sum_product(block_trans, block_step, num_segments) to) -/
def termChain (φ : Nat → RF σ R) (p : Nat) : Nat → RF σ R
  | 0 => blockTerm φ p 0
  | b + 1 => contract p (termChain φ p b) (blockTerm φ p (b + 1))

theorem downList_perm : ∀ (p o : Nat), p ≤ o + 1 → (downList o p).Perm (List.range' (o + 1 - p) p) := by
  intro p
  induction p with
  | zero => intro o _; simp [downList]
  | succ p ih =>
    intro o h
    simp only [downList]
    by_cases hp0 : p = 0
    · subst hp0; simp [downList]
    · have e : List.range' (o + 1 - (p + 1)) (p + 1) = List.range' (o - 1 + 1 - p) p ++ [o] := by
        rw [List.range'_concat]
        have h1 : o + 1 - (p + 1) = o - 1 + 1 - p := by omega
        have h2 : o - 1 + 1 - p + 1 * p = o := by rw [Nat.one_mul]; omega
        rw [h1, h2]
      rw [e]
      exact (List.Perm.cons o (ih (o - 1) (by omega))).trans (List.perm_append_singleton o _).symm

theorem termChain_den (k p : Nat) (hkp : k ≤ p) (hp : p > 0) (φ : Nat → RF σ R)
    (hφ : ∀ t, SuppLt (k + 1) (φ t)) :
    ∀ b, denote2 p (termChain φ p b) (p - 1) (b * p + p - 1) = chain (F φ) 0 p b := by
  intro b
  induction b with
  | zero =>
    simp only [termChain, chain, Nat.zero_mul, Nat.zero_add]
    rw [denote2_self]
    have := denote_blockUpTo φ p 0 p (Nat.le_refl p)
    simp only [Nat.zero_mul, Nat.zero_add] at this
    exact this
  | succ b ih =>
    have e1 : (b + 1) * p + p - 1 = (b * p + p - 1) + p := by rw [Nat.succ_mul]; omega
    rw [termChain, e1, contract_den p (p - 1) (b * p + p - 1) _ _ (by omega) (by omega)
      (by unfold blockTerm; exact supp_blockUpTo k p (b + 1) hkp φ hφ p (Nat.le_refl p)), ih]
    have e2 : ((b * p + p - 1 + p : Nat) : Int) = (((b + 1) * p + p - 1 : Nat) : Int) := by rw [e1]
    rw [e2, blockTerm, denote_blockUpTo φ p (b + 1) p (Nat.le_refl p)]
    have step : chain (F φ) 0 p (b + 1)
        = sumOver (List.range' (0 + b * p) p) (chain (F φ) 0 p b * prodRange (F φ) (0 + (b + 1) * p) p) := rfl
    rw [step, Nat.zero_add, Nat.zero_add]
    apply sumOver_perm
    have := downList_perm p (b * p + p - 1) (by omega)
    have e3 : b * p + p - 1 + 1 - p = b * p := by omega
    rw [e3] at this
    exact this

theorem fold1_snoc {α : Type} (f : α → α → α) (l : List α) (x y : α) (h : fold1 f l = some y) :
    fold1 f (l ++ [x]) = some (f y x) := by
  cases l with
  | nil => simp [fold1] at h
  | cons a l =>
    simp only [fold1, Option.some.injEq] at h
    simp [fold1, List.foldl_append, h]

theorem fold1_blocks_termChain (φ : Nat → RF σ R) (p : Nat) : ∀ n,
    fold1 (contract p) ((List.range (n + 1)).map (blockTerm φ p)) = some (termChain φ p n) := by
  intro n
  induction n with
  | zero => rfl
  | succ n ih =>
    rw [List.range_succ, List.map_append, List.map_cons, List.map_nil, fold1_snoc _ _ _ _ ih]
    rfl


/-! ### final reduction, final renaming -/

theorem denote2_sumR (p i o s : Nat) (g : RF σ R) (hs : s < p) (hio : i ≤ o) (hpo : p ≤ o + 1) :
    denote2 p (sumR s g) i o = sumAt ((o : Int) - s) (denote2 p g i o) := by
  funext e
  simp only [denote2, sumR, sumAt]
  refine Finset.sum_congr rfl fun x _ => ?_
  congr 1; funext s'
  simp only [anchor2, Function.update_apply]
  by_cases h : s' = s
  · subst h; simp [hs]
  · by_cases h2 : s' < p
    · have : (o : Int) - s' ≠ (o : Int) - s := by omega
      simp [h, h2, this]
    · have : (i : Int) - s' ≠ (o : Int) - s := by omega
      simp [h, h2, this]

theorem denote2_sumRs (p i o : Nat) (g : RF σ R) (hio : i ≤ o) (hpo : p ≤ o + 1) :
    ∀ ss : List Nat, (∀ s ∈ ss, s < p) →
      denote2 p (sumRs ss g) i o = sumOver (ss.map fun s => o - s) (denote2 p g i o) := by
  intro ss
  induction ss with
  | nil => intro _; rfl
  | cons s ss ih =>
    intro h
    have hs := h s (by simp)
    simp only [sumRs, List.foldr_cons, List.map_cons, sumOver] at ih ⊢
    rw [denote2_sumR p i o s _ hs hio hpo, ih (fun s' hs' => h s' (by simp [hs']))]
    have : ((o - s : Nat) : Int) = (o : Int) - s := by omega
    rw [this]

theorem IndepOf.sumOver_mem (G : Env σ → R) : ∀ (L : List Nat) (τ : Nat), τ ∈ L →
    IndepOf (sumOver L G) (τ : Int) := by
  intro L
  induction L with
  | nil => intro τ h; simp at h
  | cons t L ih =>
    intro τ h
    simp only [sumOver, List.foldr_cons]
    cases List.mem_cons.mp h with
    | inl h1 => subst h1; exact IndepOf.sumAt_self _ _
    | inr h1 => exact IndepOf.sumAt (ih τ h1)

/-- a function independent of the states at the times in L takes the same value on environments that agree
    elsewhere -/
theorem indep_agree (G : Env σ → R) : ∀ (L : List Nat), (∀ τ ∈ L, IndepOf G (τ : Int)) →
    ∀ e e' : Env σ, (∀ τ : Int, (∀ t ∈ L, τ ≠ (t : Int)) → e τ = e' τ) → G e = G e' := by
  intro L
  induction L with
  | nil =>
    intro _ e e' h
    have : e = e' := funext fun τ => h τ (by simp)
    rw [this]
  | cons t L ih =>
    intro hG e e' h
    rw [← hG t (by simp) e' (e t)]
    apply ih (fun τ hτ => hG τ (by simp [hτ]))
    intro τ hτ
    by_cases ht : τ = (t : Int)
    · subst ht; simp
    · rw [Function.update_of_ne ht]
      exact h τ (by
        intro t' ht'
        cases List.mem_cons.mp ht' with
        | inl h1 => subst h1; exact ht
        | inr h1 => exact hτ t' h1)

/-- the anchoring of a final result of duration T: name 0 is x_{T-1}, name j ≥ 1 is x_{-j} -/
def finEnv (T : Nat) (e : Env σ) : REnv σ := fun s => if s = 0 then e ((T : Int) - 1) else e (-(s : Int))

def envOf (T : Nat) (ρ : REnv σ) : Env σ := fun τ => if τ = (T : Int) - 1 then ρ 0 else ρ (-τ).toNat

theorem finEnv_envOf (T : Nat) (hT : T ≥ 1) (ρ : REnv σ) : finEnv T (envOf T ρ) = ρ := by
  funext s
  simp only [finEnv, envOf]
  by_cases h : s = 0
  · subst h; simp
  · have : ¬ (-(s : Int) = (T : Int) - 1) := by omega
    simp [h, this]

/-- the final renaming `_shift_name(name, -m)` on shift counts -/
def downBy (m : Nat) : Nat → Nat := fun s => shiftIdx s (-((m : Nat) : Int))

theorem downBy_zero (m : Nat) : downBy m 0 = 0 := by
  simp only [downBy, shiftIdx]
  by_cases h : m = 0
  · subst h; simp
  · rw [if_neg (by omega)]; simp only [Int.neg_neg, Int.toNat_natCast]; rw [if_neg (by omega)]

theorem downBy_ge (m s : Nat) (h : m ≤ s) : downBy m s = s - m := by
  simp only [downBy, shiftIdx]
  by_cases h0 : m = 0
  · subst h0; simp
  · rw [if_neg (by omega)]; simp only [Int.neg_neg, Int.toNat_natCast]; rw [if_pos h]

/-- naive_sarkka_bilmes_product, the loop: result = trans(time=T-1); for t = T-2 … 0:
    result = (shift(trans(time=t), T-1-t) · result).reduce(sum, shift(x, T-1-t)) -/
def naiveLoop (φ : Nat → RF σ R) (T : Nat) : Nat → RF σ R
  | 0 => φ (T - 1)
  | d + 1 => sumR (d + 1) (shiftF (d + 1) (φ (T - 1 - (d + 1))) * naiveLoop φ T d)

/-- … and the final renaming by -(T-1). -/
def naiveTerm (φ : Nat → RF σ R) (T : Nat) : RF σ R := renameF (downBy (T - 1)) (naiveLoop φ T (T - 1))

theorem denote_naiveLoop (φ : Nat → RF σ R) (T : Nat) : ∀ d, d ≤ T - 1 →
    denote (naiveLoop φ T d) ((T - 1 : Nat) : Int) = naiveFrom (F φ) (T - 1) d := by
  intro d
  induction d with
  | zero => intro _; rfl
  | succ d ih =>
    intro hd
    rw [naiveLoop, denote_sumR, denote_mul, denote_shift, ih (by omega), naiveFrom]
    have e1 : ((T - 1 : Nat) : Int) - ((d + 1 : Nat) : Int) = ((T - 1 - (d + 1) : Nat) : Int) := by omega
    rw [e1]
    rfl

theorem naiveTerm_den (k : Nat) (φ : Nat → RF σ R) (hφ : ∀ t, SuppLt (k + 1) (φ t)) (T : Nat) (hT : T ≥ 1)
    (e : Env σ) : naiveTerm φ T (finEnv T e) = naiveFrom (F φ) (T - 1) (T - 1) e := by
  let e' : Env σ := fun τ => if 0 ≤ τ ∧ τ < (T : Int) - 1
    then finEnv T e (downBy (T - 1) ((T : Int) - 1 - τ).toNat) else e τ
  have hanch : (fun s => finEnv T e (downBy (T - 1) s)) = anchor ((T - 1 : Nat) : Int) e' := by
    funext s
    simp only [anchor, e']
    by_cases h0 : s = 0
    · subst h0
      have : ¬ (0 ≤ ((T - 1 : Nat) : Int) - ((0 : Nat) : Int) ∧ ((T - 1 : Nat) : Int) - ((0 : Nat) : Int) < (T : Int) - 1) := by
        omega
      rw [if_neg this, downBy_zero]
      simp only [finEnv, if_true]
      congr 1; omega
    · by_cases h1 : s ≤ T - 1
      · have hr : 0 ≤ ((T - 1 : Nat) : Int) - (s : Int) ∧ ((T - 1 : Nat) : Int) - (s : Int) < (T : Int) - 1 := by
          omega
        rw [if_pos hr]
        have : ((T : Int) - 1 - (((T - 1 : Nat) : Int) - (s : Int))).toNat = s := by omega
        rw [this]
      · have hr : ¬ (0 ≤ ((T - 1 : Nat) : Int) - (s : Int) ∧ ((T - 1 : Nat) : Int) - (s : Int) < (T : Int) - 1) := by
          omega
        rw [if_neg hr, downBy_ge _ _ (by omega)]
        have : s - (T - 1) ≠ 0 := by omega
        simp only [finEnv, this, if_false]
        congr 1; omega
  have h1 : naiveTerm φ T (finEnv T e) = denote (naiveLoop φ T (T - 1)) ((T - 1 : Nat) : Int) e' := by
    simp only [naiveTerm, renameF, denote]; rw [hanch]
  rw [h1, denote_naiveLoop φ T (T - 1) (Nat.le_refl _)]
  have hF := local_of_supp k φ hφ
  rw [naiveFrom_eq k (F φ) hF (T - 1) (T - 1) (Nat.le_refl _)]
  symm
  apply indep_agree _ (List.range' (T - 1 - (T - 1)) (T - 1))
  · intro τ hτ; exact IndepOf.sumOver_mem _ _ τ hτ
  · intro τ hτ
    simp only [e']
    by_cases hr : 0 ≤ τ ∧ τ < (T : Int) - 1
    · exfalso
      exact hτ τ.toNat (by simp only [List.mem_range'_1]; omega) (by omega)
    · rw [if_neg hr]

/-- sarkka_bilmes_product for a duration n·p: blocks, `mixed` over block_step with
    num_segments = max 1 (duration / (p · num_periods)), final reduction over shifts 1 … p-1, renaming by -(p-1) -/
def sarkkaTermAligned (φ : Nat → RF σ R) (p np n : Nat) : Option (RF σ R) :=
  (mixed (contract p) (max 1 (n * p / (p * np))) 2 ((List.range n).map (blockTerm φ p))).map
    fun c => renameF (downBy (p - 1)) (sumRs (finalSumShifts p) c)

theorem sarkkaFinal_den (k p n : Nat) (hkp : k ≤ p) (hp : p > 0) (hn : n > 0) (φ : Nat → RF σ R)
    (hφ : ∀ t, SuppLt (k + 1) (φ t)) (e : Env σ) :
    renameF (downBy (p - 1)) (sumRs (finalSumShifts p) (termChain φ p (n - 1))) (finEnv (n * p) e)
      = sarkkaAbs (F φ) 0 p n e := by
  have hT : n * p ≥ 1 := Nat.mul_pos hn hp
  have hTp : n * p = (n - 1) * p + p := by
    have : n - 1 + 1 = n := by omega
    conv => lhs; rw [← this]
    exact Nat.succ_mul (n - 1) p
  generalize hTdef : n * p = T at hT hTp ⊢
  let e' : Env σ := fun τ => if (T : Int) - p ≤ τ ∧ τ < (T : Int) - 1
    then finEnv T e (downBy (p - 1) ((T : Int) - 1 - τ).toNat) else e τ
  have hanch : (fun s => finEnv T e (downBy (p - 1) s)) = anchor2 p (p - 1) (T - 1) e' := by
    funext s
    simp only [anchor2, e']
    by_cases h0 : s = 0
    · subst h0
      have : ¬ ((T : Int) - p ≤ ((T - 1 : Nat) : Int) - ((0 : Nat) : Int) ∧
          ((T - 1 : Nat) : Int) - ((0 : Nat) : Int) < (T : Int) - 1) := by omega
      rw [if_pos hp, if_neg this, downBy_zero]
      simp only [finEnv, if_true]
      congr 1; omega
    · by_cases h1 : s < p
      · have hr : (T : Int) - p ≤ ((T - 1 : Nat) : Int) - (s : Int) ∧
            ((T - 1 : Nat) : Int) - (s : Int) < (T : Int) - 1 := by omega
        rw [if_pos h1, if_pos hr]
        have : ((T : Int) - 1 - (((T - 1 : Nat) : Int) - (s : Int))).toNat = s := by omega
        rw [this]
      · have hr : ¬ ((T : Int) - p ≤ ((p - 1 : Nat) : Int) - (s : Int) ∧
            ((p - 1 : Nat) : Int) - (s : Int) < (T : Int) - 1) := by omega
        rw [if_neg h1, if_neg hr, downBy_ge _ _ (by omega)]
        have : s - (p - 1) ≠ 0 := by omega
        simp only [finEnv, this, if_false]
        congr 1; omega
  have hss : ∀ s ∈ finalSumShifts p, s < p := by
    intro s hs
    simp only [finalSumShifts, List.mem_filter, List.mem_range] at hs
    exact hs.1
  have h1 : renameF (downBy (p - 1)) (sumRs (finalSumShifts p) (termChain φ p (n - 1))) (finEnv T e)
      = denote2 p (sumRs (finalSumShifts p) (termChain φ p (n - 1))) (p - 1) (T - 1) e' := by
    simp only [renameF, denote2]; rw [hanch]
  have hT1 : T - 1 = (n - 1) * p + p - 1 := by omega
  rw [h1, denote2_sumRs p (p - 1) (T - 1) _ (by omega) (by omega) _ hss, hT1,
    termChain_den k p hkp hp φ hφ (n - 1)]
  have hperm : ((finalSumShifts p).map fun s => (n - 1) * p + p - 1 - s).Perm
      (List.range' (0 + (n - 1) * p) (p - 1)) := by
    rw [List.perm_ext_iff_of_nodup]
    · intro t
      simp only [List.mem_map, finalSumShifts, List.mem_filter, List.mem_range, decide_eq_true_eq,
        List.mem_range'_1]
      constructor
      · rintro ⟨s, ⟨h1, h2⟩, rfl⟩; omega
      · intro ht; exact ⟨(n - 1) * p + p - 1 - t, ⟨by omega, by omega⟩, by omega⟩
    · apply List.Nodup.map_on
      · intro a ha b hb hab
        simp only [finalSumShifts, List.mem_filter, List.mem_range] at ha hb
        omega
      · exact List.Nodup.filter _ List.nodup_range
    · exact List.nodup_range'
  rw [sumOver_perm hperm, sarkkaAbs]
  symm
  apply indep_agree _ (List.range' (0 + (n - 1) * p) (p - 1))
  · intro τ hτ; exact IndepOf.sumOver_mem _ _ τ hτ
  · intro τ hτ
    simp only [e']
    by_cases hr : (T : Int) - p ≤ τ ∧ τ < (T : Int) - 1
    · exfalso
      have hTT : (T : Int) = ((n - 1) * p : Nat) + p := by exact_mod_cast hTp
      exact hτ τ.toNat (by simp only [List.mem_range'_1]; omega) (by omega)
    · rw [if_neg hr]

/-- **sarkka_terms_eq_naive_terms** (duration a multiple of the period, one state variable — a joint state —
    with any lag set ⊆ {1..k}, k ≤ p): the relative-name funsor sarkka_bilmes_product builds IS the funsor
    naive_sarkka_bilmes_product builds, as functions of the result's named inputs, for every num_periods. -/
theorem sarkka_terms_eq_naive_terms_aligned (k p np n : Nat) (hkp : k ≤ p) (hp : p > 0) (_hnp : np > 0)
    (hn : n > 0) (φ : Nat → RF σ R) (hφ : ∀ t, SuppLt (k + 1) (φ t)) :
    sarkkaTermAligned φ p np n = some (naiveTerm φ (n * p)) := by
  obtain ⟨m, rfl⟩ : ∃ m, n = m + 1 := ⟨n - 1, by omega⟩
  have hne : (List.range (m + 1)).map (blockTerm φ p) ≠ [] := by simp
  unfold sarkkaTermAligned
  rw [mixed_eq_fold (contract p) (contract_assoc p) _ (by omega) 2 _ (by omega) hne,
    fold1_blocks_termChain φ p m]
  simp only [Option.map_some, Option.some.injEq]
  funext ρ
  have hT : (m + 1) * p ≥ 1 := Nat.mul_pos (by omega) hp
  rw [← finEnv_envOf ((m + 1) * p) hT ρ]
  have hA := sarkkaFinal_den k p (m + 1) hkp hp (by omega) φ hφ (envOf ((m + 1) * p) ρ)
  simp only [Nat.add_sub_cancel] at hA
  rw [hA, naiveTerm_den k φ hφ _ hT,
    sarkkaAbs_eq_naive k p (m + 1) hkp hp (by omega) (F φ) (local_of_supp k φ hφ) 0, Nat.zero_add]


/-- `reduce(prod_op, renamed_factors)` is the left fold of the list of shifted factors. -/
theorem blockUpTo_eq_foldl (φ : Nat → RF σ R) (p b : Nat) : ∀ m,
    blockUpTo φ p b m
      = ((List.range m).map fun t => shiftF (p - t - 1) (φ (t + p * b))).foldl (· * ·) 1 := by
  intro m
  induction m with
  | zero => rfl
  | succ m ih => rw [blockUpTo, ih, List.range_succ, List.map_append, List.foldl_append]; rfl

/-- Non-vacuity: a factor that reads its current state and the states 1 and 2 steps back mentions shifts
    0..2, so k = 2 and every period ≥ 2 (lag sets {2}, {1,2} → 2; {1,2,3}-free multiples, 6 …) applies. -/
theorem supp_lag2 (w : Nat → σ → σ → σ → R) (t : Nat) :
    SuppLt (2 + 1) (fun ρ : REnv σ => w t (ρ 0) (ρ 1) (ρ 2)) := by
  intro ρ ρ' h
  simp only [h 0 (by omega), h 1 (by omega), h 2 (by omega)]

example (w : Nat → σ → σ → σ → R) (np n : Nat) (hnp : np > 0) (hn : n > 0) :
    sarkkaTermAligned (fun t (ρ : REnv σ) => w t (ρ 0) (ρ 1) (ρ 2)) 2 np n
      = some (naiveTerm (fun t (ρ : REnv σ) => w t (ρ 0) (ρ 1) (ρ 2)) (n * 2)) :=
  sarkka_terms_eq_naive_terms_aligned 2 2 np n (Nat.le_refl 2) (by omega) hnp hn _ (supp_lag2 w)


/-! ### the truncated prefix (duration % period ≠ 0) -/

/-- `for t in reversed(range(remaining)): result = (shift(trans(time=t), remaining - t) · result)
      .reduce(sum_op, shift(x, remaining - t))` -/
def prefixTermLoop (φ : Nat → RF σ R) (rem : Nat) (res : RF σ R) : Nat → RF σ R
  | 0 => res
  | t + 1 => prefixTermLoop φ rem (sumR (rem - t) (shiftF (rem - t) (φ t) * res)) t

/-- sarkka_bilmes_product, any duration T ≥ 1. -/
def sarkkaTerm (φ : Nat → RF σ R) (p np T : Nat) : Option (RF σ R) :=
  let r := T % p
  if r = 0 then sarkkaTermAligned φ p np (T / p)
  else if T - r = 0 then
    -- result = trans(time=r-1); remaining = r-1
    some (renameF (downBy (r - 1)) (prefixTermLoop φ (r - 1) (φ (r - 1)) (r - 1)))
  else
    -- recursive call on trans(time=Slice(r, T)), then the loop with remaining = r
    (sarkkaTermAligned (fun t => φ (t + r)) p np (T / p)).map fun g0 =>
      renameF (downBy r) (prefixTermLoop φ r g0 r)

/-- with fewer steps than one period the prefix loop IS the naive loop, term for term -/
theorem prefixTermLoop_naive (φ : Nat → RF σ R) (T : Nat) : ∀ t d, d + t = T - 1 →
    prefixTermLoop φ (T - 1) (naiveLoop φ T d) t = naiveLoop φ T (T - 1) := by
  intro t
  induction t with
  | zero => intro d h; simp only [Nat.add_zero] at h; subst h; rfl
  | succ t ih =>
    intro d h
    rw [prefixTermLoop]
    have e1 : T - 1 - t = d + 1 := by omega
    have e2 : t = T - 1 - (d + 1) := by omega
    have : sumR (T - 1 - t) (shiftF (T - 1 - t) (φ t) * naiveLoop φ T d) = naiveLoop φ T (d + 1) := by
      rw [naiveLoop, e1, ← e2]
    rw [this]
    exact ih (d + 1) (by omega)

/-- The two easy cases of `sarkka_terms_eq_naive_terms` (kept under its first name): durations that are a
    multiple of the period and durations shorter than one period (the `truncated_duration == 0` branch: the same
    term).  The ragged tail 0 < T % p < T is `prefixTermLoop_renamed` / `renameF_downBy_comp` below; the full
    statement ∀ T ≥ 1 is `sarkka_terms_eq_naive_terms`. -/
theorem sarkka_terms_eq_naive_terms_partial (k p np T : Nat) (hkp : k ≤ p) (hp : p > 0) (hnp : np > 0)
    (hT : T ≥ 1) (φ : Nat → RF σ R) (hφ : ∀ t, SuppLt (k + 1) (φ t)) (hcase : T % p = 0 ∨ T < p) :
    sarkkaTerm φ p np T = some (naiveTerm φ T) := by
  unfold sarkkaTerm
  simp only []
  cases hcase with
  | inl h0 =>
    rw [if_pos h0]
    have hn : T / p > 0 := Nat.div_pos (Nat.le_of_dvd (by omega) (Nat.dvd_of_mod_eq_zero h0)) hp
    have hTe : T / p * p = T := by
      have := Nat.div_add_mod T p; rw [h0, Nat.mul_comm] at this; omega
    rw [sarkka_terms_eq_naive_terms_aligned k p np (T / p) hkp hp hnp hn φ hφ, hTe]
  | inr hlt =>
    have hr : T % p = T := Nat.mod_eq_of_lt hlt
    rw [if_neg (by omega), if_pos (by omega), hr]
    have := prefixTermLoop_naive φ T (T - 1) 0 (by omega)
    simp only [naiveLoop] at this
    rw [this, naiveTerm]


/-! ### the ragged tail 0 < T % p < T, at term level -/

/-- g does not read the state at name s -/
def IndepName (g : RF σ R) (s : Nat) : Prop := ∀ (ρ : REnv σ) (x : σ), g (Function.update ρ s x) = g ρ

theorem IndepName.mul {g h : RF σ R} {s : Nat} (hg : IndepName g s) (hh : IndepName h s) :
    IndepName (g * h) s := by
  intro ρ x; simp only [Pi.mul_apply, hg ρ x, hh ρ x]

theorem IndepName.sumR_self (g : RF σ R) (s : Nat) : IndepName (sumR s g) s := by
  intro ρ x; simp only [sumR, Function.update_idem]

theorem IndepName.sumR {g : RF σ R} {s s' : Nat} (hg : IndepName g s) : IndepName (sumR s' g) s := by
  by_cases h : s = s'
  · subst h; exact IndepName.sumR_self g s
  · intro ρ x
    simp only [_root_.FV.Props.C10.Terms.sumR]
    refine Finset.sum_congr rfl fun y _ => ?_
    rw [Function.update_comm h, hg]

/-- `_shift_funsor(f, n)` only reads names ≥ n -/
theorem IndepName.shiftF (g : RF σ R) (n s : Nat) (h : s < n) : IndepName (shiftF n g) s := by
  intro ρ x
  simp only [_root_.FV.Props.C10.Terms.shiftF, renameF]
  congr 1; funext s'
  rw [Function.update_of_ne (by omega)]

/-- every name 1 … d has been summed out of the naive loop after d steps -/
theorem naiveLoop_indep (φ : Nat → RF σ R) (T : Nat) : ∀ d j, 1 ≤ j → j ≤ d → IndepName (naiveLoop φ T d) j := by
  intro d
  induction d with
  | zero => intro j h1 h2; omega
  | succ d ih =>
    intro j h1 h2
    rw [naiveLoop]
    by_cases hj : j = d + 1
    · subst hj; exact IndepName.sumR_self _ _
    · exact IndepName.sumR (IndepName.mul (IndepName.shiftF _ _ _ (by omega)) (ih j h1 (by omega)))

/-- a funsor independent of the names in L takes the same value on assignments that agree elsewhere -/
theorem indepName_agree (G : RF σ R) : ∀ (L : List Nat), (∀ s ∈ L, IndepName G s) →
    ∀ ρ ρ' : REnv σ, (∀ s, s ∉ L → ρ s = ρ' s) → G ρ = G ρ' := by
  intro L
  induction L with
  | nil =>
    intro _ ρ ρ' h
    have : ρ = ρ' := funext fun s => h s (by simp)
    rw [this]
  | cons t L ih =>
    intro hG ρ ρ' h
    rw [← hG t (by simp) ρ' (ρ t)]
    apply ih (fun s hs => hG s (by simp [hs]))
    intro s hs
    by_cases ht : s = t
    · subst ht; simp
    · rw [Function.update_of_ne ht]
      exact h s (by simp [ht, hs])

/-- the recursive call sees the time-shifted family: its naive loop is an initial segment of the full one -/
theorem naiveLoop_shift (φ : Nat → RF σ R) (N r : Nat) (hN : N ≥ 1) : ∀ d, d ≤ N - 1 →
    naiveLoop (fun t => φ (t + r)) N d = naiveLoop φ (N + r) d := by
  intro d
  induction d with
  | zero =>
    intro _
    simp only [naiveLoop]
    congr 1; omega
  | succ d ih =>
    intro hd
    simp only [naiveLoop]
    rw [ih (by omega)]
    have : N - 1 - (d + 1) + r = N + r - 1 - (d + 1) := by omega
    rw [this]

/-- one step of the prefix loop on the already-renamed recursive result = the renamed naive step:
    renaming by -m commutes with `Σ_{name a+m} shift(ψ, a+m) · X` as long as X no longer reads the (summed)
    name a. -/
theorem commute_step (m a : Nat) (ha : a ≥ 1) (ψ X : RF σ R) (hX : a < m → IndepName X a) :
    renameF (downBy m) (sumR (a + m) (shiftF (a + m) ψ * X))
      = sumR a (shiftF a ψ * renameF (downBy m) X) := by
  funext ρ
  simp only [renameF, sumR, Pi.mul_apply]
  refine Finset.sum_congr rfl fun x _ => ?_
  congr 1
  · simp only [shiftF, renameF]
    congr 1; funext s
    by_cases hs : s = 0
    · subst hs; simp
    · rw [Function.update_of_ne (by omega), Function.update_of_ne (by omega), downBy_ge _ _ (by omega)]
      congr 1; omega
  · -- the two assignments differ at name a only, and only if a < m
    by_cases ham : a < m
    · have hI := hX ham
      let ρ1 : REnv σ := Function.update (fun s => ρ (downBy m s)) (a + m) x
      let ρ2 : REnv σ := fun s => Function.update ρ a x (downBy m s)
      show X ρ1 = X ρ2
      apply indepName_agree X [a] (by intro s hs; simp at hs; subst hs; exact hI)
      intro s hs
      simp only [List.mem_singleton] at hs
      simp only [ρ1, ρ2, Function.update_apply]
      by_cases h1 : s = a + m
      · subst h1; rw [downBy_ge _ _ (by omega)]; simp
      · have h2 : downBy m s ≠ a := by
          by_cases hsm : m ≤ s
          · rw [downBy_ge _ _ hsm]; omega
          · have : downBy m s = s := by
              simp only [downBy, shiftIdx]
              by_cases h0 : m = 0
              · omega
              · rw [if_neg (by omega)]; simp only [Int.neg_neg, Int.toNat_natCast]; rw [if_neg (by omega)]
            rw [this]; exact hs
        simp [h1, h2]
    · congr 1; funext s
      simp only [Function.update_apply]
      by_cases h1 : s = a + m
      · subst h1; rw [downBy_ge _ _ (by omega)]; simp
      · have h2 : downBy m s ≠ a := by
          by_cases hsm : m ≤ s
          · rw [downBy_ge _ _ hsm]; omega
          · have : downBy m s = s := by
              simp only [downBy, shiftIdx]
              by_cases h0 : m = 0
              · omega
              · rw [if_neg (by omega)]; simp only [Int.neg_neg, Int.toNat_natCast]; rw [if_neg (by omega)]
            rw [this]; omega
        simp [h1, h2]

/-- the prefix loop on the renamed recursive result is the renamed continuation of the naive loop -/
theorem prefixTermLoop_renamed (φ : Nat → RF σ R) (m r : Nat) : ∀ t j, j + t = r →
    prefixTermLoop φ r (renameF (downBy m) (naiveLoop φ (m + r + 1) (m + j))) t
      = renameF (downBy m) (naiveLoop φ (m + r + 1) (m + r)) := by
  intro t
  induction t with
  | zero => intro j h; simp only [Nat.add_zero] at h; subst h; rfl
  | succ t ih =>
    intro j h
    rw [prefixTermLoop]
    have e1 : r - t = j + 1 := by omega
    have hstep : naiveLoop φ (m + r + 1) (m + (j + 1))
        = sumR (j + 1 + m) (shiftF (j + 1 + m) (φ t) * naiveLoop φ (m + r + 1) (m + j)) := by
      have : m + (j + 1) = (m + j) + 1 := by omega
      rw [this, naiveLoop]
      have e2 : m + r + 1 - 1 - (m + j + 1) = t := by omega
      have e3 : m + j + 1 = j + 1 + m := by omega
      rw [e2, e3]
    rw [e1, ← commute_step m (j + 1) (by omega) (φ t) _
      (fun _ => naiveLoop_indep φ _ (m + j) (j + 1) (by omega) (by omega)), ← hstep]
    exact ih (j + 1) (by omega)

/-- renaming by -r after renaming by -m is renaming by -(m+r), on a funsor whose names 1 … m+r are summed out -/
theorem renameF_downBy_comp (m r : Nat) (G : RF σ R) (hG : ∀ j, 1 ≤ j → j ≤ m + r → IndepName G j) :
    renameF (downBy r) (renameF (downBy m) G) = renameF (downBy (m + r)) G := by
  funext ρ
  simp only [renameF]
  apply indepName_agree G ((List.range (m + r + 1)).filter (· ≥ 1))
  · intro s hs
    simp only [List.mem_filter, List.mem_range, decide_eq_true_eq] at hs
    exact hG s hs.2 (by omega)
  · intro s hs
    simp only [List.mem_filter, List.mem_range, decide_eq_true_eq, not_and] at hs
    by_cases h0 : s = 0
    · subst h0; simp only [downBy_zero]
    · have hge : m + r + 1 ≤ s := by
        by_contra hlt
        exact hs (by omega) (by omega)
      rw [downBy_ge m s (by omega), downBy_ge r _ (by omega), downBy_ge (m + r) s (by omega)]
      congr 1; omega

/-- **sarkka_terms_eq_naive_terms**: for EVERY duration T ≥ 1 (multiple of the period, shorter than one period,
    or with a ragged tail 0 < T % p < T handled by the recursive call + prefix loop), every lag set ⊆ {1..k} with
    k ≤ p and every num_periods ≥ 1, the relative-name funsor sarkka_bilmes_product builds is the funsor
    naive_sarkka_bilmes_product builds. -/
theorem sarkka_terms_eq_naive_terms (k p np T : Nat) (hkp : k ≤ p) (hp : p > 0) (hnp : np > 0)
    (hT : T ≥ 1) (φ : Nat → RF σ R) (hφ : ∀ t, SuppLt (k + 1) (φ t)) :
    sarkkaTerm φ p np T = some (naiveTerm φ T) := by
  by_cases hcase : T % p = 0 ∨ T < p
  · exact sarkka_terms_eq_naive_terms_partial k p np T hkp hp hnp hT φ hφ hcase
  · have hr0 : T % p ≠ 0 := fun h => hcase (Or.inl h)
    have hTp : p ≤ T := by omega
    have hrlt : T % p < p := Nat.mod_lt _ hp
    have hdm := Nat.div_add_mod T p
    have hn : T / p > 0 := Nat.div_pos hTp hp
    have hN : T / p * p ≥ 1 := Nat.mul_pos hn hp
    unfold sarkkaTerm
    simp only []
    rw [if_neg hr0, if_neg (by have := Nat.mod_le T p; omega),
      sarkka_terms_eq_naive_terms_aligned k p np (T / p) hkp hp hnp hn _ (fun t => hφ (t + T % p))]
    simp only [Option.map_some, Option.some.injEq]
    -- N = (T/p)·p steps in the recursive call, m = N - 1, r = T % p, T = m + r + 1
    generalize hNdef : T / p * p = N at hN
    generalize hrdef : T % p = r at hr0 hrlt
    have hTeq : T = (N - 1) + r + 1 := by rw [← hNdef, ← hrdef, Nat.mul_comm]; omega
    rw [naiveTerm, naiveLoop_shift φ N r hN (N - 1) (Nat.le_refl _)]
    have hNr : N + r = (N - 1) + r + 1 := by omega
    rw [hNr]
    have h0 := prefixTermLoop_renamed φ (N - 1) r r 0 (by omega)
    simp only [Nat.add_zero] at h0
    rw [h0, renameF_downBy_comp (N - 1) r _
      (fun j h1 h2 => naiveLoop_indep φ _ (N - 1 + r) j h1 h2), naiveTerm, hTeq]
    simp only [Nat.add_sub_cancel]

end FV.Props.C10.Terms
