/-
  Props/C11.lean — adjoints are semiring derivatives of the forward value.

  All theorems are over an arbitrary commutative semiring `R` (Mathlib `CommSemiring`), for
  expressions of any size, any number of variables and any variable sizes.

  Main results
    adjoint_sound_gen           induction on the expression with the incoming adjoint generalised: for every
                                node `e` and admissible message `a`, the accumulated adjoint of leaf `id` =
                                derivative of ⨁ a ⊗ e.  All node kinds: sound_acc, sound_subs (Scatter
                                transpose), sound_cat, sound_scat (forward Scatter), sound_add, sound_mul, sound_sum, sound_prod
    adjoint_sound               the corollary for a root with incoming adjoint 1 (= C11 at model level)
    agg_step / agg_ok           the tape's message aggregation is exactly the partial sum the proof needs
    catBack_occurrences, catDeriv_sum, sound_cat_occ
                                `adjoint_cat` and the derivative of a `Cat` both decompose over the *list*
                                of occurrences of the leaf among the parts (multiplicity counts)
    plate_zero_witness, plate_zero_not_good, add_broadcast_prefix_witness, subs_free_root_var_witness,
    cat_repeated_part_witness, cat_ragged_witness, scatter_source_witness
                                concrete inputs: the hypotheses `Good` places on ⊗-reductions and on ⊕
                                cannot be dropped; a dict keyed by the part would lose occurrences
    examples                    `Good` (incl. `SubsOK`, `Cat`), `PtOK`, `WFL`, the division hypothesis are
                                satisfiable
-/
import FunsorVerif.Model.C11
import Mathlib.Algebra.BigOperators.Ring.Finset
import Mathlib.Algebra.BigOperators.Group.Finset.Sigma
import Mathlib.Tactic.Ring
namespace FV.Props.C11
open FV.C11 Finset

variable {R : Type} [CommSemiring R]

/-- the operations of a commutative semiring, with any candidate `div` for the plate rule -/
def cs (dv : R → R → R) : Ops R := ⟨(· + ·), (· * ·), 0, 1, dv⟩

variable (dv : R → R → R) (sz : Nat → Nat)

/-! ### finite sums -/

theorem sumTo_eq (n : Nat) (g : Nat → R) : sumTo (cs dv) n g = ∑ k ∈ range n, g k := by
  induction n with
  | zero => simp [sumTo, cs]
  | succ n ih => rw [sumTo, ih, sum_range_succ]; rfl

theorem prodTo_eq (n : Nat) (g : Nat → R) : prodTo (cs dv) n g = ∏ k ∈ range n, g k := by
  induction n with
  | zero => simp [prodTo, cs]
  | succ n ih => rw [prodTo, ih, prod_range_succ]; rfl

theorem upd_same (env : Env) (v a b : Nat) : upd (upd env v a) v b = upd env v b := by
  funext i; simp only [upd]; split <;> rfl

theorem upd_comm (env : Env) {v w : Nat} (h : v ≠ w) (a b : Nat) :
    upd (upd env v a) w b = upd (upd env w b) v a := by
  funext i; simp only [upd]
  by_cases h1 : i = w <;> by_cases h2 : i = v <;> simp [h1, h2]
  · subst h1; subst h2; exact absurd rfl h
  · intro h3; exact absurd h3.symm h
  · intro h3; exact absurd h3 h

theorem upd_self (env : Env) (v : Nat) : upd env v (env v) = env := by
  funext i; simp only [upd]; split
  · next h => rw [h]
  · rfl

theorem upd_at (env : Env) (v k : Nat) : upd env v k v = k := by simp [upd]
theorem upd_ne (env : Env) {v i : Nat} (k : Nat) (h : i ≠ v) : upd env v k i = env i := by simp [upd, h]

/-- `g` does not depend on variable `v` -/
def Indep (g : Env → R) (v : Nat) : Prop := ∀ env k, g (upd env v k) = g env

theorem sum1_apply (v : Nat) (g : Env → R) (env : Env) :
    sum1 (cs dv) sz v g env = ∑ k ∈ range (sz v), g (upd env v k) := by
  simp only [sum1, sumTo_eq]

theorem sum1_indep_self (v : Nat) (g : Env → R) : Indep (sum1 (cs dv) sz v g) v := by
  intro env k; simp only [sum1_apply, upd_same]

theorem sum1_indep {v w : Nat} (g : Env → R) (h : Indep g w) : Indep (sum1 (cs dv) sz v g) w := by
  by_cases hvw : v = w
  · subst hvw; exact sum1_indep_self dv sz v g
  · intro env k; simp only [sum1_apply]
    apply sum_congr rfl; intro j _
    rw [upd_comm env (Ne.symm hvw), h]

theorem sum1_comm (v w : Nat) (g : Env → R) :
    sum1 (cs dv) sz v (sum1 (cs dv) sz w g) = sum1 (cs dv) sz w (sum1 (cs dv) sz v g) := by
  by_cases hvw : v = w
  · subst hvw; rfl
  · funext env; simp only [sum1_apply]
    rw [sum_comm]
    apply sum_congr rfl; intro j _; apply sum_congr rfl; intro i _
    rw [upd_comm env hvw]

theorem sum1_add (v : Nat) (g h : Env → R) :
    sum1 (cs dv) sz v (fun e => g e + h e) = fun e => sum1 (cs dv) sz v g e + sum1 (cs dv) sz v h e := by
  funext env; simp only [sum1_apply, sum_add_distrib]

theorem sum1_mul_left (v : Nat) (c g : Env → R) (hc : Indep c v) :
    sum1 (cs dv) sz v (fun e => c e * g e) = fun e => c e * sum1 (cs dv) sz v g e := by
  funext env; simp only [sum1_apply, mul_sum]
  apply sum_congr rfl; intro k _; rw [hc]

/-! ### sums over a mask of variables -/

theorem sumM_succ (n : Nat) (m : Mask) (g : Env → R) :
    sumM (cs dv) sz (n + 1) m g = sumM (cs dv) sz n m (if m n then sum1 (cs dv) sz n g else g) := rfl

theorem sumM_congr_mask {n : Nat} {m m' : Mask} (h : ∀ k, k < n → m k = m' k) (g : Env → R) :
    sumM (cs dv) sz n m g = sumM (cs dv) sz n m' g := by
  induction n generalizing g with
  | zero => rfl
  | succ n ih =>
    rw [sumM_succ, sumM_succ, h n (Nat.lt_succ_self n)]
    exact ih (fun k hk => h k (Nat.lt_succ_of_lt hk)) _

theorem sumM_false {n : Nat} {m : Mask} (h : ∀ k, k < n → m k = false) (g : Env → R) :
    sumM (cs dv) sz n m g = g := by
  induction n generalizing g with
  | zero => rfl
  | succ n ih =>
    rw [sumM_succ, h n (Nat.lt_succ_self n)]
    exact ih (fun k hk => h k (Nat.lt_succ_of_lt hk)) _

theorem sumM_add (n : Nat) (m : Mask) (g h : Env → R) :
    sumM (cs dv) sz n m (fun e => g e + h e) =
      fun e => sumM (cs dv) sz n m g e + sumM (cs dv) sz n m h e := by
  induction n generalizing g h with
  | zero => rfl
  | succ n ih =>
    simp only [sumM_succ]
    cases m n
    · simpa using ih g h
    · simp only [if_true]; rw [sum1_add]; exact ih _ _

theorem sumM_mul_left (n : Nat) (m : Mask) (c g : Env → R)
    (hc : ∀ k, k < n → m k = true → Indep c k) :
    sumM (cs dv) sz n m (fun e => c e * g e) = fun e => c e * sumM (cs dv) sz n m g e := by
  induction n generalizing g with
  | zero => rfl
  | succ n ih =>
    have hc' : ∀ k, k < n → m k = true → Indep c k := fun k hk => hc k (Nat.lt_succ_of_lt hk)
    simp only [sumM_succ]
    cases hm : m n
    · simpa using ih g hc'
    · simp only [if_true]
      rw [sum1_mul_left dv sz n c g (hc n (Nat.lt_succ_self n) hm)]
      exact ih _ hc'

theorem sum1_sumM_comm {n v : Nat} (hv : n ≤ v) (m : Mask) (g : Env → R) :
    sum1 (cs dv) sz v (sumM (cs dv) sz n m g) = sumM (cs dv) sz n m (sum1 (cs dv) sz v g) := by
  induction n generalizing g with
  | zero => rfl
  | succ n ih =>
    simp only [sumM_succ]
    rw [ih (Nat.le_of_succ_le hv)]
    cases m n
    · simp
    · simp only [if_true]; rw [sum1_comm]

theorem sumM_split {n : Nat} {m1 m2 : Mask} (hd : ∀ k, k < n → ¬ (m1 k = true ∧ m2 k = true))
    (g : Env → R) :
    sumM (cs dv) sz n (fun k => m1 k || m2 k) g = sumM (cs dv) sz n m1 (sumM (cs dv) sz n m2 g) := by
  induction n generalizing g with
  | zero => rfl
  | succ n ih =>
    have hd' : ∀ k, k < n → ¬ (m1 k = true ∧ m2 k = true) := fun k hk => hd k (Nat.lt_succ_of_lt hk)
    have hn := hd n (Nat.lt_succ_self n)
    simp only [sumM_succ]
    cases h1 : m1 n <;> cases h2 : m2 n
    · simpa using ih hd' g
    · simpa using ih hd' _
    · simp only [Bool.true_or, if_true, Bool.false_eq_true, if_false]
      rw [sum1_sumM_comm dv sz (Nat.le_refl n)]
      exact ih hd' _
    · exact absurd ⟨h1, h2⟩ hn

theorem sumM_indep_out (n : Nat) (m : Mask) (g : Env → R) {k : Nat} (h : Indep g k) :
    Indep (sumM (cs dv) sz n m g) k := by
  induction n generalizing g with
  | zero => exact h
  | succ n ih =>
    simp only [sumM_succ]
    cases m n
    · simpa using ih g h
    · simp only [if_true]; exact ih _ (sum1_indep dv sz g h)

theorem sumM_indep_in {n : Nat} {m : Mask} (g : Env → R) {k : Nat} (hk : k < n) (hm : m k = true) :
    Indep (sumM (cs dv) sz n m g) k := by
  induction n generalizing g with
  | zero => omega
  | succ n ih =>
    simp only [sumM_succ]
    by_cases hkn : k = n
    · subst hkn; rw [hm]; simp only [if_true]
      exact sumM_indep_out dv sz _ m _ (sum1_indep_self dv sz k g)
    · exact ih _ (by omega)

theorem sumM_single {n v : Nat} (hv : v < n) (g : Env → R) :
    sumM (cs dv) sz n (fun k => k == v) g = sum1 (cs dv) sz v g := by
  induction n generalizing g with
  | zero => omega
  | succ n ih =>
    simp only [sumM_succ]
    by_cases hvn : v = n
    · subst hvn; simp only [beq_self_eq_true, if_true]
      exact sumM_false dv sz (fun k hk => by simp; omega) _
    · have : (n == v) = false := by simp; omega
      rw [this]; simp only [Bool.false_eq_true, if_false]
      exact ih (by omega) g

/-- adding one more variable to the mask = summing over it first -/
theorem sumM_insert {n v : Nat} {m : Mask} (hv : v < n) (hm : m v = false) (g : Env → R) :
    sumM (cs dv) sz n m (sum1 (cs dv) sz v g) = sumM (cs dv) sz n (fun k => m k || k == v) g := by
  rw [sumM_split dv sz (m1 := m) (m2 := fun k => k == v), sumM_single dv sz hv]
  intro k _ ⟨h1, h2⟩
  have : k = v := by simpa using h2
  subst this; rw [hm] at h1; exact absurd h1 (by simp)

/-- congruence that only looks at environments reachable from `env` by changing summed variables -/
theorem sumM_congr_on {n : Nat} {m : Mask} {g h : Env → R} {env : Env}
    (H : ∀ env', (∀ k, (k < n ∧ m k = true) ∨ env' k = env k) → g env' = h env') :
    sumM (cs dv) sz n m g env = sumM (cs dv) sz n m h env := by
  induction n generalizing g h with
  | zero => exact H env (fun k => Or.inr rfl)
  | succ n ih =>
    simp only [sumM_succ]
    cases hm : m n
    · simp only [Bool.false_eq_true, if_false]
      apply ih; intro env' he
      apply H; intro k
      rcases he k with ⟨h1, h2⟩ | h1
      · exact Or.inl ⟨Nat.lt_succ_of_lt h1, h2⟩
      · exact Or.inr h1
    · simp only [if_true]
      apply ih; intro env' he
      simp only [sum1_apply]
      apply sum_congr rfl; intro j _
      apply H; intro k
      by_cases hkn : k = n
      · subst hkn; exact Or.inl ⟨Nat.lt_succ_self _, hm⟩
      · rw [upd_ne _ _ hkn]
        rcases he k with ⟨h1, h2⟩ | h1
        · exact Or.inl ⟨Nat.lt_succ_of_lt h1, h2⟩
        · exact Or.inr h1

/-- a summand that vanishes unless the summed variables have the values they have in `env`
    collapses the sum to its value at `env` -/
theorem sumM_point {n : Nat} {m : Mask} {g : Env → R} {env : Env}
    (hr : ∀ k, k < n → m k = true → env k < sz k)
    (hz : ∀ env', (∃ k, k < n ∧ m k = true ∧ env' k ≠ env k) → g env' = 0) :
    sumM (cs dv) sz n m g env = g env := by
  induction n generalizing g with
  | zero => rfl
  | succ n ih =>
    have hr' : ∀ k, k < n → m k = true → env k < sz k := fun k hk => hr k (Nat.lt_succ_of_lt hk)
    simp only [sumM_succ]
    cases hm : m n
    · simp only [Bool.false_eq_true, if_false]
      apply ih hr'
      intro env' ⟨k, hk, hmk, hne⟩
      exact hz env' ⟨k, Nat.lt_succ_of_lt hk, hmk, hne⟩
    · simp only [if_true]
      rw [ih hr']
      · rw [sum1_apply, sum_eq_single (env n)]
        · rw [upd_self]
        · intro j _ hj
          apply hz; refine ⟨n, Nat.lt_succ_self _, hm, ?_⟩
          rw [upd_at]; exact hj
        · intro hnot
          exact absurd (mem_range.mpr (hr n (Nat.lt_succ_self _) hm)) hnot
      · intro env' ⟨k, hk, hmk, hne⟩
        rw [sum1_apply]
        apply sum_eq_zero; intro j _
        apply hz; refine ⟨k, Nat.lt_succ_of_lt hk, hmk, ?_⟩
        rw [upd_ne _ _ (by omega : k ≠ n)]; exact hne

theorem sumM_zero (n : Nat) (m : Mask) : sumM (cs dv) sz n m (fun _ => (0 : R)) = fun _ => 0 := by
  induction n with
  | zero => rfl
  | succ n ih =>
    simp only [sumM_succ]
    cases m n
    · simpa using ih
    · simp only [if_true]
      have : sum1 (cs dv) sz n (fun _ => (0 : R)) = fun _ => 0 := by
        funext env; simp [sum1_apply]
      rw [this]; exact ih

theorem prod_except {n j : Nat} (hj : j < n) (g : Nat → R) :
    (∏ i ∈ range n, if i = j then 1 else g i) * g j = ∏ i ∈ range n, g i := by
  have hmem : j ∈ range n := mem_range.mpr hj
  rw [← mul_prod_erase (range n) g hmem, mul_comm]
  congr 1
  rw [← prod_erase (range n) (a := j) (by simp)]
  apply prod_congr rfl
  intro i hi
  have : i ≠ j := (mem_erase.mp hi).1
  simp [this]

/-! ### the model: dependence on variables -/

variable (L : Leaves R)

/-- side conditions on the leaves: a table depends only on its own axes, all names are `< n` -/
structure WFL (n : Nat) (L : Leaves R) : Prop where
  hT : ∀ id k, nameMask L id k = false → Indep (L.T id) k
  hn : ∀ id k, nameMask L id k = true → k < n

/-- Hypotheses of `adjoint_sound`, each forced by the proof (and each violated by a concrete input on
    which the reverse sweep of the pinned code returns a wrong value — see the witness theorems and
    the dedicated streams of fv/harness/c11.py):
      * (⊕ needs no side condition since `_expand_like`; before that fix: only between operands with the
        same inputs up to the root's inputs — `add_broadcast_prefix_witness`),
      * binders bind a variable that occurs and that is not an input of the root,
      * a product-reduced argument is nowhere zero (the plate rule divides),
      * a leaf read through a substitution (`Subs`: renaming, slice, number, index tensor — the model's
        scatter is the scatter-add, so no injectivity is needed here): distinct keys that are axes of the
        leaf; no input of the root is used as an index variable or named like a substituted axis
        (funsor's renaming convention sums those inside Scatter),
      * `Cat(v, parts)` over plain leaves that all have the axis `v` (their other axes may differ: a part
        is broadcast over the inputs only other parts have, and since /repo a13826d `adjoint_cat` expands
        its message over them), with lengths adding up to at most the size of `v`,
      * a forward `Scatter` of a source along one of its variables `k` to a fresh destination variable
        `i` (neither an input of the root) through an index map with values in range. -/
def SubsOK (n : Nat) (F : Mask) (id : Nat) (σ : Subst) : Prop :=
  (∀ q, q ∈ σ → nameMask L id q.1 = true) ∧ (σ.map (·.1)).Nodup ∧
  (∀ k, σ.valvars k = true → k < n) ∧
  (∀ k, F k = true → σ.valvars k = false ∧ σ.keys k = false)

def Good (n : Nat) (F : Mask) : Expr → Prop
  | .acc id σ => σ = [] ∨ SubsOK L n F id σ
  | .add l r => Good n F l ∧ Good n F r
  | .mul l r => Good n F l ∧ Good n F r
  | .sum v e => Good n F e ∧ fvMask L e v = true ∧ F v = false
  | .prod v e => Good n F e ∧ fvMask L e v = true ∧ F v = false ∧
      ∀ env, eval (cs dv) sz L e env ≠ 0
  | .cat v parts =>
      (∀ q, q ∈ parts → nameMask L q.1 v = true) ∧
      (parts.map (·.2)).sum ≤ sz v
  | .scat i k t e =>
      Good n F e ∧ fvMask L e k = true ∧ fvMask L e i = false ∧ F i = false ∧ F k = false ∧ i ≠ k ∧
      i < n ∧ ∀ j, j < sz k → tabAt t j < sz i

theorem substEnv_nil (env : Env) : substEnv [] env = env := by
  funext k; simp [substEnv]

omit [CommSemiring R] in
theorem fvMask_acc_nil (id k : Nat) : fvMask L (.acc id []) k = nameMask L id k := by
  simp [fvMask, Subst.keys, Subst.valvars]


omit [CommSemiring R] in
theorem lookup_none_iff (σ : Subst) (k : Nat) : σ.lookup k = none ↔ σ.keys k = false := by
  simp only [Subst.keys]
  induction σ with
  | nil => simp
  | cons q rest ih =>
    simp only [List.lookup, List.any_cons]
    by_cases h : k = q.1
    · subst h; simp
    · have h1 : (k == q.1) = false := by simpa using h
      have h2 : (q.1 == k) = false := by simpa using (Ne.symm h)
      rw [h1, h2]; simpa using ih

omit [CommSemiring R] in
theorem lookup_some_mem (σ : Subst) (k : Nat) (ix : Ix) (h : σ.lookup k = some ix) : (k, ix) ∈ σ := by
  induction σ with
  | nil => simp at h
  | cons q rest ih =>
    simp only [List.lookup] at h
    by_cases hk : k = q.1
    · subst hk; simp at h; subst h; simp
    · have h1 : (k == q.1) = false := by simpa using hk
      rw [h1] at h
      exact List.mem_cons_of_mem _ (ih h)

omit [CommSemiring R] in
theorem lookup_of_mem_nodup (σ : Subst) (hnd : (σ.map (·.1)).Nodup) (q : Nat × Ix) (hq : q ∈ σ) :
    σ.lookup q.1 = some q.2 := by
  induction σ with
  | nil => simp at hq
  | cons r rest ih =>
    simp only [List.map_cons, List.nodup_cons] at hnd
    simp only [List.lookup]
    rcases List.mem_cons.mp hq with h | h
    · subst h; simp
    · have hne : q.1 ≠ r.1 := by
        intro he; apply hnd.1; rw [← he]
        exact List.mem_map_of_mem (f := fun x => x.1) h
      have h1 : (q.1 == r.1) = false := by simpa using hne
      rw [h1]; exact ih hnd.2 h

omit [CommSemiring R] in
theorem ix_val_indep (ix : Ix) (k : Nat) (h : ix.dep k = false) (env : Env) (j : Nat) :
    ix.val (upd env k j) = ix.val env := by
  cases ix with
  | var v =>
    simp only [Ix.dep, beq_eq_false_iff_ne] at h
    simp only [Ix.val]; exact upd_ne _ _ (Ne.symm h)
  | aff v s st =>
    simp only [Ix.dep, beq_eq_false_iff_ne] at h
    simp only [Ix.val]; rw [upd_ne _ _ (Ne.symm h)]
  | const c => rfl
  | tab v t =>
    simp only [Ix.dep, beq_eq_false_iff_ne] at h
    simp only [Ix.val]; rw [upd_ne _ _ (Ne.symm h)]

omit [CommSemiring R] in
theorem valvars_false_dep (σ : Subst) (k : Nat) (h : σ.valvars k = false) (q : Nat × Ix) (hq : q ∈ σ) :
    q.2.dep k = false := by
  simp only [Subst.valvars, List.any_eq_false] at h
  simpa using h q hq

omit [CommSemiring R] in
/-- a variable no index expression mentions passes through the substitution (or is shadowed by a key) -/
theorem substEnv_upd (σ : Subst) (k : Nat) (h : σ.valvars k = false) (env : Env) (j : Nat) :
    substEnv σ (upd env k j) =
      if σ.keys k = true then substEnv σ env else upd (substEnv σ env) k j := by
  funext i
  cases hl : σ.lookup i with
  | some ix =>
    have hd := valvars_false_dep σ k h (i, ix) (lookup_some_mem σ i ix hl)
    have e1 : substEnv σ (upd env k j) i = ix.val (upd env k j) := by simp only [substEnv, hl]
    have e2 : substEnv σ env i = ix.val env := by simp only [substEnv, hl]
    rw [e1, ix_val_indep ix k hd]
    split
    · exact e2.symm
    · next hk =>
      have hik : i ≠ k := by
        intro he; subst he
        have := (lookup_none_iff σ i).mpr (by simpa using hk)
        rw [this] at hl; simp at hl
      rw [upd_ne _ _ hik]; exact e2.symm
  | none =>
    have e1 : substEnv σ (upd env k j) i = upd env k j i := by simp only [substEnv, hl]
    have e2 : substEnv σ env i = env i := by simp only [substEnv, hl]
    rw [e1]
    split
    · next hk =>
      have hik : i ≠ k := by
        intro he; subst he
        rw [(lookup_none_iff σ i).mp hl] at hk; simp at hk
      rw [upd_ne _ _ hik]; exact e2.symm
    · by_cases hik : i = k
      · subst hik; rw [upd_at, upd_at]
      · rw [upd_ne _ _ hik, upd_ne _ _ hik]; exact e2.symm

omit [CommSemiring R] in
theorem hits_upd_notin (names : List Nat) (q p : Env) (k j : Nat) (hk : names.contains k = false) :
    hits names (upd q k j) p = hits names q p := by
  have hik : ∀ i ∈ names, i ≠ k := by
    intro i hi h; subst h
    have : names.contains i = true := by simp [hi]
    rw [this] at hk; exact absurd hk (by simp)
  simp only [hits]
  rw [Bool.eq_iff_iff]; simp only [List.all_eq_true]
  constructor
  · intro h i hi; have := h i hi; rwa [upd_ne _ _ (hik i hi)] at this
  · intro h i hi; rw [upd_ne _ _ (hik i hi)]; exact h i hi

omit [CommSemiring R] in
theorem fvMask_acc_false (id : Nat) (σ : Subst) (k : Nat) (hk : fvMask L (.acc id σ) k = false) :
    σ.valvars k = false ∧ (σ.keys k = false → nameMask L id k = false) := by
  simp only [fvMask, Bool.or_eq_false_iff, Bool.and_eq_false_iff] at hk
  refine ⟨hk.2, fun h => ?_⟩
  rcases hk.1 with h' | h'
  · exact h'
  · rw [h] at h'; simp at h'

theorem fv_lt {n : Nat} {F : Mask} (hW : WFL n L) :
    ∀ e, Good dv sz L n F e → ∀ k, fvMask L e k = true → k < n := by
  intro e
  induction e with
  | acc id σ =>
    intro hg k hk
    simp only [fvMask, Bool.or_eq_true, Bool.and_eq_true] at hk
    rcases hk with h | h
    · exact hW.hn id k h.1
    · rcases hg with rfl | hs
      · simp [Subst.valvars] at h
      · exact hs.2.2.1 k h
  | add l r ihl ihr =>
    intro hg k hk; simp only [fvMask, Bool.or_eq_true] at hk
    rcases hk with h | h
    · exact ihl hg.1 k h
    · exact ihr hg.2 k h
  | mul l r ihl ihr =>
    intro hg k hk; simp only [fvMask, Bool.or_eq_true] at hk
    rcases hk with h | h
    · exact ihl hg.1 k h
    · exact ihr hg.2 k h
  | sum v e ih =>
    intro hg k hk; simp only [fvMask, Bool.and_eq_true] at hk
    exact ih hg.1 k hk.1
  | prod v e ih =>
    intro hg k hk; simp only [fvMask, Bool.and_eq_true] at hk
    exact ih hg.1 k hk.1
  | cat v parts =>
    intro _ k hk
    simp only [fvMask, List.any_eq_true] at hk
    obtain ⟨q, _, hq⟩ := hk
    exact hW.hn q.1 k hq
  | scat i k t e ih =>
    intro hg j hj
    simp only [fvMask, Bool.or_eq_true, Bool.and_eq_true, beq_iff_eq] at hj
    rcases hj with h | h
    · exact ih hg.1 j h.1
    · rw [h]; exact hg.2.2.2.2.2.2.1

theorem catEval_indep {n : Nat} (hW : WFL n L) (v k : Nat) (hkv : k ≠ v) :
    ∀ (parts : List (Nat × Nat)) (off : Nat), (∀ q, q ∈ parts → nameMask L q.1 k = false) →
      ∀ env j, catEval (cs dv) L v parts off (upd env k j) = catEval (cs dv) L v parts off env := by
  intro parts
  induction parts with
  | nil => intro off _ env j; rfl
  | cons q rest ih =>
    intro off hq env j
    obtain ⟨id', len⟩ := q
    simp only [catEval]
    rw [upd_ne env j (Ne.symm hkv), upd_comm env hkv,
      hW.hT id' k (hq (id', len) (List.mem_cons_self ..)),
      ih (off + len) (fun q hq' => hq q (List.mem_cons_of_mem _ hq')) env j]

theorem catDeriv_indep (id : Nat) (p : Env) (v k : Nat) (hkv : k ≠ v) :
    ∀ (parts : List (Nat × Nat)) (off : Nat), (∀ q, q ∈ parts → nameMask L q.1 k = false) →
      ∀ env j, catDeriv (cs dv) L id p v parts off (upd env k j) =
        catDeriv (cs dv) L id p v parts off env := by
  intro parts
  induction parts with
  | nil => intro off _ env j; rfl
  | cons q rest ih =>
    intro off hq env j
    obtain ⟨id', len⟩ := q
    simp only [catDeriv]
    rw [upd_ne env j (Ne.symm hkv), upd_comm env hkv,
      ih (off + len) (fun q hq' => hq q (List.mem_cons_of_mem _ hq')) env j]
    by_cases hid : id' = id
    · subst hid
      have hk : (L.names id').contains k = false := by
        simpa [nameMask] using hq (id', len) (List.mem_cons_self ..)
      rw [hits_upd_notin (L.names id') _ p k j hk]
    · simp [hid]

omit [CommSemiring R] in
/-- for a well-formed `Cat`, a variable outside its inputs is not the concatenated one -/
theorem cat_ne_v (v : Nat) (parts : List (Nat × Nat)) (h1 : ∀ q, q ∈ parts → nameMask L q.1 v = true)
    (k : Nat) (hk : fvMask L (.cat v parts) k = false) :
    (∀ q, q ∈ parts → nameMask L q.1 k = false) ∧ (parts ≠ [] → k ≠ v) := by
  simp only [fvMask, List.any_eq_false] at hk
  refine ⟨fun q hq => by simpa using hk q hq, ?_⟩
  intro hne hkv
  subst hkv
  cases parts with
  | nil => exact hne rfl
  | cons q rest =>
    have := hk q (List.mem_cons_self ..)
    rw [h1 q (List.mem_cons_self ..)] at this
    simp at this

theorem eval_indep {n : Nat} {F : Mask} (hW : WFL n L) :
    ∀ e, Good dv sz L n F e → ∀ k, fvMask L e k = false → Indep (eval (cs dv) sz L e) k := by
  intro e
  induction e with
  | acc id σ =>
    intro _ k hk env j
    obtain ⟨hvv, hnm⟩ := fvMask_acc_false L id σ k hk
    simp only [eval]
    rw [substEnv_upd σ k hvv]
    split
    · rfl
    · next hkk => exact hW.hT id k (hnm (by simpa using hkk)) _ j
  | add l r ihl ihr =>
    intro hg k hk env j; simp only [fvMask, Bool.or_eq_false_iff] at hk
    simp only [eval]; rw [ihl hg.1 k hk.1 env j, ihr hg.2 k hk.2 env j]
  | mul l r ihl ihr =>
    intro hg k hk env j; simp only [fvMask, Bool.or_eq_false_iff] at hk
    simp only [eval]; rw [ihl hg.1 k hk.1 env j, ihr hg.2 k hk.2 env j]
  | sum v e ih =>
    intro hg k hk env j
    simp only [eval, sumTo_eq]
    apply sum_congr rfl; intro i _
    by_cases hkv : k = v
    · subst hkv; rw [upd_same]
    · have : fvMask L e k = false := by
        simp only [fvMask, Bool.and_eq_false_iff] at hk
        rcases hk with h | h
        · exact h
        · simp at h; exact absurd h hkv
      rw [upd_comm env hkv, ih hg.1 k this]
  | prod v e ih =>
    intro hg k hk env j
    simp only [eval, prodTo_eq]
    apply prod_congr rfl; intro i _
    by_cases hkv : k = v
    · subst hkv; rw [upd_same]
    · have : fvMask L e k = false := by
        simp only [fvMask, Bool.and_eq_false_iff] at hk
        rcases hk with h | h
        · exact h
        · simp at h; exact absurd h hkv
      rw [upd_comm env hkv, ih hg.1 k this]
  | cat v parts =>
    intro hg k hk env j
    obtain ⟨hall, hne⟩ := cat_ne_v L v parts hg.1 k hk
    simp only [eval]
    cases parts with
    | nil => rfl
    | cons q rest => exact catEval_indep dv L hW v k (hne (by simp)) _ 0 hall env j
  | scat i k' t e ih =>
    intro hg k hk env j
    simp only [fvMask, Bool.or_eq_false_iff, beq_eq_false_iff_ne] at hk
    simp only [eval, sumTo_eq]
    apply sum_congr rfl; intro x _
    rw [upd_ne env j (Ne.symm hk.2)]
    by_cases hkk : k = k'
    · subst hkk; rw [upd_same]
    · have : fvMask L e k = false := by
        rcases Bool.and_eq_false_iff.mp hk.1 with h | h
        · exact h
        · simp at h; exact absurd h hkk
      rw [upd_comm env hkk, ih hg.1 k this]

theorem deriv_indep {n : Nat} {F : Mask} (hW : WFL n L) (id : Nat) (p : Env) :
    ∀ e, Good dv sz L n F e → ∀ k, fvMask L e k = false →
      Indep (deriv (cs dv) sz L id p e) k := by
  intro e
  induction e with
  | acc id' σ =>
    intro _ k hk env j
    obtain ⟨hvv, hnm⟩ := fvMask_acc_false L id' σ k hk
    simp only [deriv]
    rw [substEnv_upd σ k hvv]
    split
    · rfl
    · next hkk =>
      have : nameMask L id' k = false := hnm (by simpa using hkk)
      by_cases hid : id' = id
      · subst hid
        rw [hits_upd_notin (L.names id') _ p k j (by simpa [nameMask] using this)]
      · simp [hid]
  | add l r ihl ihr =>
    intro hg k hk env j; simp only [fvMask, Bool.or_eq_false_iff] at hk
    simp only [deriv]; rw [ihl hg.1 k hk.1 env j, ihr hg.2 k hk.2 env j]
  | mul l r ihl ihr =>
    intro hg k hk env j; simp only [fvMask, Bool.or_eq_false_iff] at hk
    simp only [deriv]
    rw [ihl hg.1 k hk.1 env j, ihr hg.2 k hk.2 env j,
      eval_indep dv sz L hW l hg.1 k hk.1 env j, eval_indep dv sz L hW r hg.2 k hk.2 env j]
  | sum v e ih =>
    intro hg k hk env j
    simp only [deriv, sumTo_eq]
    apply sum_congr rfl; intro i _
    by_cases hkv : k = v
    · subst hkv; rw [upd_same]
    · have : fvMask L e k = false := by
        simp only [fvMask, Bool.and_eq_false_iff] at hk
        rcases hk with h | h
        · exact h
        · simp at h; exact absurd h hkv
      rw [upd_comm env hkv, ih hg.1 k this]
  | prod v e ih =>
    intro hg k hk env j
    simp only [deriv, sumTo_eq, prodTo_eq]
    apply sum_congr rfl; intro i _
    by_cases hkv : k = v
    · subst hkv; simp only [upd_same]
    · have hfe : fvMask L e k = false := by
        simp only [fvMask, Bool.and_eq_false_iff] at hk
        rcases hk with h | h
        · exact h
        · simp at h; exact absurd h hkv
      rw [upd_comm env hkv, ih hg.1 k hfe]
      congr 1
      apply prod_congr rfl; intro i' _
      rw [upd_comm env hkv, eval_indep dv sz L hW e hg.1 k hfe]
  | cat v parts =>
    intro hg k hk env j
    obtain ⟨hall, hne⟩ := cat_ne_v L v parts hg.1 k hk
    simp only [deriv]
    cases parts with
    | nil => rfl
    | cons q rest => exact catDeriv_indep dv L id p v k (hne (by simp)) _ 0 hall env j
  | scat i k' t e ih =>
    intro hg k hk env j
    simp only [fvMask, Bool.or_eq_false_iff, beq_eq_false_iff_ne] at hk
    simp only [deriv, sumTo_eq]
    apply sum_congr rfl; intro x _
    rw [upd_ne env j (Ne.symm hk.2)]
    by_cases hkk : k = k'
    · subst hkk; rw [upd_same]
    · have : fvMask L e k = false := by
        rcases Bool.and_eq_false_iff.mp hk.1 with h | h
        · exact h
        · simp at h; exact absurd h hkk
      rw [upd_comm env hkk, ih hg.1 k this]

/-! ### the tape's aggregation step -/

omit [CommSemiring R] in
theorem hits_iff (names : List Nat) (q p : Env) :
    hits names q p = true ↔ ∀ k, k ∈ names → q k = p k := by
  simp [hits, List.all_eq_true]

/-- Summing the aggregated message against a weight that only depends on the recipient's variables is
    the same as summing the un-aggregated message over the larger variable set. -/
theorem agg_step {n : Nat} (F Vc : Mask) (b : NT R) (w : Env → R)
    (hw : ∀ k, Vc k = false → Indep w k) :
    sumM (cs dv) sz n (fun k => Vc k || F k)
        (fun env => (agg (cs dv) sz n F Vc b).f env * w env) =
      sumM (cs dv) sz n (fun k => (Vc k || F k) || (b.mask k && !Vc k && !F k))
        (fun env => b.f env * w env) := by
  rw [sumM_split dv sz (m1 := fun k => Vc k || F k) (m2 := fun k => b.mask k && !Vc k && !F k)]
  · congr 1
    have h := sumM_mul_left dv sz n (fun k => b.mask k && !Vc k && !F k) w b.f (by
      intro k _ hk
      apply hw
      simp only [Bool.and_eq_true, Bool.not_eq_true'] at hk
      exact hk.1.2)
    funext env
    have h' := congrFun h env
    simp only [agg]
    rw [mul_comm, ← h']
    congr 1; funext e; rw [mul_comm]
  · intro k _ ⟨h1, h2⟩
    simp only [Bool.and_eq_true, Bool.not_eq_true', Bool.or_eq_true] at h1 h2
    rcases h1 with h | h
    · rw [h2.1.2] at h; exact absurd h (by simp)
    · rw [h2.2] at h; exact absurd h (by simp)

theorem agg_ok {n : Nat} (F Vc : Mask) (b : NT R) (hb1 : ∀ k, b.mask k = true → k < n)
    (hb2 : ∀ k, b.mask k = false → Indep b.f k) :
    (∀ k, (agg (cs dv) sz n F Vc b).mask k = true → Vc k = true ∨ F k = true) ∧
    (∀ k, (agg (cs dv) sz n F Vc b).mask k = false → Indep (agg (cs dv) sz n F Vc b).f k) := by
  constructor
  · intro k hk
    simp only [agg, Bool.and_eq_true, Bool.or_eq_true] at hk
    exact hk.2
  · intro k hk
    simp only [agg] at hk ⊢
    cases hbk : b.mask k
    · exact sumM_indep_out dv sz n _ _ (hb2 k hbk)
    · apply sumM_indep_in dv sz _ (hb1 k hbk)
      rw [hbk] at hk
      simp only [Bool.true_and, Bool.or_eq_false_iff] at hk
      simp [hbk, hk.1, hk.2]

/-! ### soundness of the reverse sweep -/

theorem marginal_addNT (n : Nat) (F : Mask) (id : Nat) (x y : NT R) (p : Env) :
    marginal (cs dv) sz L n F id (addNT (cs dv) x y) p =
      marginal (cs dv) sz L n F id x p + marginal (cs dv) sz L n F id y p := by
  simp only [marginal, addNT]
  exact congrFun (sumM_add dv sz n _ x.f y.f) p

/-- The induction hypothesis: for every admissible incoming adjoint `a` of node `e`, the adjoint the
    sweep accumulates for leaf `id`, marginalised onto the leaf's axes and read at entry `p`, is the
    derivative of `⨁_{inputs of e and of the root} a ⊗ e` with respect to that entry. -/
def Sound (n : Nat) (F : Mask) (id : Nat) (p : Env) (e : Expr) : Prop :=
  ∀ a : NT R,
    (∀ k, a.mask k = true → fvMask L e k = true ∨ F k = true) →
    (∀ k, a.mask k = false → Indep a.f k) →
    marginal (cs dv) sz L n F id (backward (cs dv) sz L n F e a id) p =
      sumM (cs dv) sz n (fun k => fvMask L e k || F k)
        (fun env => a.f env * deriv (cs dv) sz L id p e env) p

theorem bm_mul (vc vo f ak : Bool) (h : ak = true → (vc || vo) = true ∨ f = true) :
    ((vc || f) || ((ak || vo) && !vc && !f)) = ((vc || vo) || f) := by
  cases vc <;> cases vo <;> cases f <;> cases ak <;> simp_all

theorem bm_add (vc vo f ak : Bool) (h : ak = true → (vc || vo) = true ∨ f = true)
    (hs : (vc || f) = (vo || f)) :
    ((vc || f) || (ak && !vc && !f)) = ((vc || vo) || f) := by
  cases vc <;> cases vo <;> cases f <;> cases ak <;> simp_all

theorem bm_red (ve f ak kv x : Bool) (h : ak = true → (ve && !kv) = true ∨ f = true)
    (hv : kv = true → ve = true) (hx : x = true → ve = true) :
    ((ve || f) || ((ak || x) && !ve && !f)) = (((ve && !kv) || f) || kv) := by
  cases ve <;> cases f <;> cases ak <;> cases kv <;> cases x <;> simp_all

theorem bm_prod (ve f ak kv : Bool) (h : ak = true → (ve && !kv) = true ∨ f = true)
    (hv : kv = true → ve = true) :
    ((ve || f) || (((ak || (ve && !kv)) || ve) && !ve && !f)) = (((ve && !kv) || f) || kv) := by
  cases ve <;> cases f <;> cases ak <;> cases kv <;> simp_all

theorem sound_acc {n : Nat} {F : Mask} (id : Nat) (p : Env) (id' : Nat)
    (hp' : id' = id → ∀ k, nameMask L id k = true → p k < sz k) :
    Sound dv sz L n F id p (.acc id' []) := by
  intro a _ _
  simp only [backward, List.isEmpty_nil, if_true, single]
  by_cases hid : id = id'
  · subst hid
    have hp := hp' rfl
    simp only [if_true, marginal]
    rw [sumM_congr_mask dv sz (m := fun k => fvMask L (.acc id []) k || F k)
      (m' := fun k => (F k && !nameMask L id k) || nameMask L id k)
      (fun k _ => by rw [fvMask_acc_nil]; cases F k <;> cases nameMask L id k <;> rfl)]
    rw [sumM_split dv sz (m1 := fun k => F k && !nameMask L id k) (m2 := nameMask L id)
      (fun k _ h => by
        have h1 := h.1; have h2 := h.2
        rw [h2] at h1; simp at h1)]
    apply sumM_congr_on
    intro env' he
    have hag : ∀ k, nameMask L id k = true → env' k = p k := by
      intro k hk
      rcases he k with ⟨_, h⟩ | h
      · rw [hk] at h; simp at h
      · exact h
    rw [sumM_point dv sz]
    · have : hits (L.names id) (substEnv [] env') p = true := by
        rw [hits_iff, substEnv_nil]; intro k hk
        exact hag k (by simp [nameMask, hk])
      simp only [deriv, this, and_self, if_true]
      show a.f env' = a.f env' * 1
      rw [mul_one]
    · intro k _ hk; rw [hag k hk]; exact hp k hk
    · intro env'' ⟨k, _, hk, hne⟩
      have : hits (L.names id) (substEnv [] env'') p = false := by
        rw [Bool.eq_false_iff]; intro h
        rw [hits_iff, substEnv_nil] at h
        have hk' : k ∈ L.names id := by simpa [nameMask] using hk
        exact hne (by rw [h k hk', hag k hk])
      simp only [deriv, this]
      rw [if_neg (by simp)]
      show a.f env'' * 0 = 0
      rw [mul_zero]
  · simp only [if_neg hid, marginal, zeroNT]
    show sumM (cs dv) sz n _ (fun _ => (0 : R)) p = _
    rw [sumM_zero]
    have : (fun env => a.f env * deriv (cs dv) sz L id p (.acc id' []) env) = fun _ => 0 := by
      funext env
      simp only [deriv]
      rw [if_neg (fun h => hid h.1.symm)]
      show a.f env * 0 = 0
      rw [mul_zero]
    rw [this, sumM_zero]


theorem cs_zero : (cs dv).zero = (0 : R) := rfl
theorem cs_one : (cs dv).one = (1 : R) := rfl

omit [CommSemiring R] in
theorem hits_subst (id : Nat) (σ : Subst) (h1 : ∀ q, q ∈ σ → nameMask L id q.1 = true)
    (h2 : (σ.map (·.1)).Nodup) (env' p : Env)
    (hag : ∀ k, nameMask L id k = true → σ.keys k = false → env' k = p k) :
    hits (L.names id) (substEnv σ env') p = σ.all (fun q => q.2.val env' == p q.1) := by
  rw [Bool.eq_iff_iff, hits_iff]
  simp only [List.all_eq_true, beq_iff_eq]
  constructor
  · intro h q hq
    have hk : q.1 ∈ L.names id := by simpa [nameMask] using h1 q hq
    have := h q.1 hk
    simp only [substEnv, lookup_of_mem_nodup σ h2 q hq] at this
    exact this
  · intro h k hk
    cases hl : σ.lookup k with
    | none =>
      simp only [substEnv, hl]
      exact hag k (by simp [nameMask, hk]) ((lookup_none_iff σ k).mp hl)
    | some ix =>
      simp only [substEnv, hl]
      exact h (k, ix) (lookup_some_mem σ k ix hl)

theorem bm_subs (keep vv f am : Bool) (h1 : am = true → (keep || vv) = true ∨ f = true)
    (h2 : f = true → keep = true) :
    ((keep || vv) || f) = (((am || vv) && !keep) || keep) := by
  cases keep <;> cases vv <;> cases f <;> cases am <;> simp_all

theorem bm_subs2 (nm ks vv f : Bool) (h2 : f = true → vv = false) (h3 : f = true → ks = false) :
    (((nm && !ks) || vv) || f) = ((f && !nm) || ((vv && !(nm && !ks)) || (nm && !ks))) := by
  cases nm <;> cases ks <;> cases vv <;> cases f <;> simp_all

/-- `adjoint_subs` / `Scatter`: the transpose of reading a leaf through a substitution. -/
theorem sound_subs {n : Nat} {F : Mask} (id : Nat) (p : Env) (id' : Nat) (σ : Subst)
    (hp' : id' = id → ∀ k, nameMask L id k = true → σ.keys k = false → p k < sz k) (hne : σ ≠ [])
    (hs : SubsOK L n F id' σ) :
    Sound dv sz L n F id p (.acc id' σ) := by
  intro a _ _
  obtain ⟨s1, s2, _, s4⟩ := hs
  have hemp : σ.isEmpty = false := by
    cases σ with
    | nil => exact absurd rfl hne
    | cons _ _ => rfl
  simp only [backward, hemp, Bool.false_eq_true, if_false, single]
  by_cases hid : id = id'
  · subst hid
    have hp := hp' rfl
    have hkeysnm : ∀ k, σ.keys k = true → nameMask L id k = true := by
      intro k hk
      simp only [Subst.keys, List.any_eq_true, beq_iff_eq] at hk
      obtain ⟨q, hq, rfl⟩ := hk
      exact s1 q hq
    simp only [if_true, marginal, scatter]
    rw [sumM_congr_mask dv sz (m := fun k => fvMask L (.acc id σ) k || F k)
      (m' := fun k => (F k && !nameMask L id k) ||
        ((σ.valvars k && !(nameMask L id k && !σ.keys k)) || (nameMask L id k && !σ.keys k)))
      (fun k _ => by
        simp only [fvMask]
        exact bm_subs2 _ _ _ _ (fun h => (s4 k h).1) (fun h => (s4 k h).2))]
    rw [sumM_split dv sz (m1 := fun k => F k && !nameMask L id k)
      (m2 := fun k => (σ.valvars k && !(nameMask L id k && !σ.keys k)) || (nameMask L id k && !σ.keys k))
      (fun k _ h => by
        have h1 := h.1; have h2 := h.2
        simp only [Bool.and_eq_true, Bool.not_eq_true'] at h1
        rw [(s4 k h1.1).1, h1.2] at h2
        simp at h2)]
    apply sumM_congr_on
    intro env' he
    have hout : ∀ k, nameMask L id k = true → env' k = p k := by
      intro k hk
      rcases he k with ⟨_, h⟩ | h
      · rw [hk] at h; simp at h
      · exact h
    rw [sumM_split dv sz (m1 := fun k => σ.valvars k && !(nameMask L id k && !σ.keys k))
      (m2 := fun k => nameMask L id k && !σ.keys k)
      (fun k _ h => by
        have h1 := h.1; have h2 := h.2
        rw [h2] at h1; simp at h1)]
    apply sumM_congr_on
    intro env'' he2
    have hag : ∀ k, nameMask L id k = true → σ.keys k = false → env'' k = p k := by
      intro k hk1 hk2
      rcases he2 k with ⟨_, h⟩ | h
      · simp [hk1, hk2] at h
      · rw [h]; exact hout k hk1
    have hall : σ.all (fun q => q.2.val env'' == env' q.1) = σ.all (fun q => q.2.val env'' == p q.1) := by
      rw [Bool.eq_iff_iff]
      simp only [List.all_eq_true, beq_iff_eq]
      constructor
      · intro h q hq; rw [← hout q.1 (s1 q hq)]; exact h q hq
      · intro h q hq; rw [hout q.1 (s1 q hq)]; exact h q hq
    rw [hall, sumM_point dv sz]
    · simp only [deriv, true_and, hits_subst L id σ s1 s2 env'' p hag, cs_zero, cs_one]
      split
      · show a.f env'' = a.f env'' * 1
        rw [mul_one]
      · show (0 : R) = a.f env'' * 0
        rw [mul_zero]
    · intro k _ hk
      simp only [Bool.and_eq_true, Bool.not_eq_true'] at hk
      rw [hag k hk.1 hk.2]; exact hp k hk.1 hk.2
    · intro env3 ⟨k, _, hk, hne'⟩
      simp only [Bool.and_eq_true, Bool.not_eq_true'] at hk
      have : hits (L.names id) (substEnv σ env3) p = false := by
        rw [Bool.eq_false_iff]; intro h
        rw [hits_iff] at h
        have hk' : k ∈ L.names id := by simpa [nameMask] using hk.1
        have := h k hk'
        simp only [substEnv, (lookup_none_iff σ k).mpr hk.2] at this
        exact hne' (by rw [this, hag k hk.1 hk.2])
      simp only [deriv, this]
      rw [if_neg (by simp)]
      show a.f env3 * 0 = 0
      rw [mul_zero]
  · simp only [if_neg hid, marginal, zeroNT]
    show sumM (cs dv) sz n _ (fun _ => (0 : R)) p = _
    rw [sumM_zero]
    have : (fun env => a.f env * deriv (cs dv) sz L id p (.acc id' σ) env) = fun _ => 0 := by
      funext env
      simp only [deriv]
      rw [if_neg (fun h => hid h.1.symm)]
      show a.f env * 0 = 0
      rw [mul_zero]
    rw [this, sumM_zero]

theorem bm_add2 (vc vo f ak bk : Bool) (h1 : ak = true → (vc || vo) = true ∨ f = true)
    (h2 : bk = true → ak = true ∨ vo = true) (h3 : ak = true → bk = true)
    (h4 : vo = true → bk = true ∨ vc = true) :
    ((vc || f) || (bk && !vc && !f)) = ((vc || vo) || f) := by
  cases vc <;> cases vo <;> cases f <;> cases ak <;> cases bk <;> simp_all

omit [CommSemiring R] in
/-- `_expand_like`: the same function; its declared inputs cover the other operand's inputs -/
theorem expandNT_spec (n : Nat) (a : NT R) (op ot : Mask) :
    (expandNT n a op ot).f = a.f ∧
    (∀ k, (expandNT n a op ot).mask k = true → a.mask k = true ∨ ot k = true) ∧
    (∀ k, a.mask k = true → (expandNT n a op ot).mask k = true) ∧
    (∀ k, k < n → ot k = true → (expandNT n a op ot).mask k = true ∨ op k = true) := by
  unfold expandNT
  split
  · next h =>
    refine ⟨rfl, fun k hk => Or.inl hk, fun k hk => hk, ?_⟩
    intro k hk hot
    rw [List.all_eq_true] at h
    have := h k (List.mem_range.mpr hk)
    rw [hot] at this
    simp only [Bool.not_true, Bool.false_or, Bool.or_eq_true] at this
    exact this
  · refine ⟨rfl, ?_, ?_, ?_⟩
    · intro k hk; simpa using hk
    · intro k hk; simp [hk]
    · intro k _ hot; left; simp [hot]

theorem sound_add {n : Nat} {F : Mask} (hW : WFL n L) (hF : ∀ k, F k = true → k < n)
    (id : Nat) (p : Env) (l r : Expr) (hg : Good dv sz L n F (.add l r))
    (ihl : Sound dv sz L n F id p l) (ihr : Sound dv sz L n F id p r) :
    Sound dv sz L n F id p (.add l r) := by
  intro a ha1 ha2
  have hfv := fv_lt dv sz L hW _ hg
  obtain ⟨hgl, hgr⟩ := hg
  have han : ∀ k, a.mask k = true → k < n := by
    intro k hk
    rcases ha1 k hk with h | h
    · exact hfv k h
    · exact hF k h
  simp only [backward, addF]
  rw [marginal_addNT]
  obtain ⟨efl, el1, el2, el3⟩ := expandNT_spec n a (fvMask L l) (fvMask L r)
  obtain ⟨efr, er1, er2, er3⟩ := expandNT_spec n a (fvMask L r) (fvMask L l)
  have hbl1 : ∀ k, (expandNT n a (fvMask L l) (fvMask L r)).mask k = true → k < n := by
    intro k hk
    rcases el1 k hk with h | h
    · exact han k h
    · exact hfv k (by simp [fvMask, h])
  have hbr1 : ∀ k, (expandNT n a (fvMask L r) (fvMask L l)).mask k = true → k < n := by
    intro k hk
    rcases er1 k hk with h | h
    · exact han k h
    · exact hfv k (by simp [fvMask, h])
  have hbl2 : ∀ k, (expandNT n a (fvMask L l) (fvMask L r)).mask k = false →
      Indep (expandNT n a (fvMask L l) (fvMask L r)).f k := by
    intro k hk; rw [efl]; apply ha2
    cases h : a.mask k
    · rfl
    · rw [el2 k h] at hk; exact absurd hk (by simp)
  have hbr2 : ∀ k, (expandNT n a (fvMask L r) (fvMask L l)).mask k = false →
      Indep (expandNT n a (fvMask L r) (fvMask L l)).f k := by
    intro k hk; rw [efr]; apply ha2
    cases h : a.mask k
    · rfl
    · rw [er2 k h] at hk; exact absurd hk (by simp)
  obtain ⟨okl1, okl2⟩ := agg_ok dv sz F (fvMask L l) _ hbl1 hbl2
  obtain ⟨okr1, okr2⟩ := agg_ok dv sz F (fvMask L r) _ hbr1 hbr2
  rw [ihl _ okl1 okl2, ihr _ okr1 okr2]
  rw [agg_step dv sz F (fvMask L l) _ _ (deriv_indep dv sz L hW id p l hgl),
      agg_step dv sz F (fvMask L r) _ _ (deriv_indep dv sz L hW id p r hgr)]
  have hml : ∀ k, k < n →
      ((fvMask L l k || F k) || ((expandNT n a (fvMask L l) (fvMask L r)).mask k && !fvMask L l k && !F k)) =
        (fvMask L (.add l r) k || F k) := by
    intro k hk
    exact bm_add2 _ _ _ (a.mask k) _ (ha1 k) (el1 k) (el2 k) (el3 k hk)
  have hmr : ∀ k, k < n →
      ((fvMask L r k || F k) || ((expandNT n a (fvMask L r) (fvMask L l)).mask k && !fvMask L r k && !F k)) =
        (fvMask L (.add l r) k || F k) := by
    intro k hk
    have := bm_add2 (fvMask L r k) (fvMask L l k) (F k) (a.mask k) _
      (by intro h; have := ha1 k h; simp only [fvMask] at this; rw [Bool.or_comm]; exact this)
      (er1 k) (er2 k) (er3 k hk)
    rw [this]; simp only [fvMask]; rw [Bool.or_comm (fvMask L r k)]
  rw [sumM_congr_mask dv sz hml, sumM_congr_mask dv sz hmr, efl, efr]
  have := congrFun (sumM_add dv sz n (fun k => fvMask L (.add l r) k || F k)
    (fun env => a.f env * deriv (cs dv) sz L id p l env)
    (fun env => a.f env * deriv (cs dv) sz L id p r env)) p
  rw [← this]
  congr 1; funext env
  simp only [deriv]
  show a.f env * _ + a.f env * _ = a.f env * (_ + _)
  rw [mul_add]

theorem sound_mul {n : Nat} {F : Mask} (hW : WFL n L) (hF : ∀ k, F k = true → k < n)
    (id : Nat) (p : Env) (l r : Expr) (hg : Good dv sz L n F (.mul l r))
    (ihl : Sound dv sz L n F id p l) (ihr : Sound dv sz L n F id p r) :
    Sound dv sz L n F id p (.mul l r) := by
  intro a ha1 ha2
  have hfv := fv_lt dv sz L hW _ hg
  obtain ⟨hgl, hgr⟩ := hg
  have han : ∀ k, a.mask k = true → k < n := by
    intro k hk
    rcases ha1 k hk with h | h
    · exact hfv k h
    · exact hF k h
  simp only [backward, addF]
  rw [marginal_addNT]
  -- messages: out_adj ⊗ rhs  and  out_adj ⊗ lhs
  have hb1r : ∀ k, (mulNT (cs dv) a (valNT (cs dv) sz L r)).mask k = true → k < n := by
    intro k hk
    simp only [mulNT, valNT, Bool.or_eq_true] at hk
    rcases hk with h | h
    · exact han k h
    · apply hfv; simp only [fvMask, Bool.or_eq_true]; exact Or.inr h
  have hb1l : ∀ k, (mulNT (cs dv) a (valNT (cs dv) sz L l)).mask k = true → k < n := by
    intro k hk
    simp only [mulNT, valNT, Bool.or_eq_true] at hk
    rcases hk with h | h
    · exact han k h
    · apply hfv; simp only [fvMask, Bool.or_eq_true]; exact Or.inl h
  have hb2 : ∀ (c : Expr), Good dv sz L n F c → ∀ k,
      (mulNT (cs dv) a (valNT (cs dv) sz L c)).mask k = false →
        Indep (mulNT (cs dv) a (valNT (cs dv) sz L c)).f k := by
    intro c hc k hk env j
    simp only [mulNT, valNT, Bool.or_eq_false_iff] at hk ⊢
    rw [ha2 k hk.1 env j, eval_indep dv sz L hW c hc k hk.2 env j]
  obtain ⟨okl1, okl2⟩ := agg_ok dv sz F (fvMask L l) _ hb1r (hb2 r hgr)
  obtain ⟨okr1, okr2⟩ := agg_ok dv sz F (fvMask L r) _ hb1l (hb2 l hgl)
  rw [ihl _ okl1 okl2, ihr _ okr1 okr2]
  rw [agg_step dv sz F (fvMask L l) _ _ (deriv_indep dv sz L hW id p l hgl),
      agg_step dv sz F (fvMask L r) _ _ (deriv_indep dv sz L hW id p r hgr)]
  have hml : ∀ k, k < n →
      ((fvMask L l k || F k) || ((mulNT (cs dv) a (valNT (cs dv) sz L r)).mask k && !fvMask L l k && !F k)) =
        (fvMask L (.mul l r) k || F k) := by
    intro k _
    exact bm_mul _ _ _ _ (ha1 k)
  have hmr : ∀ k, k < n →
      ((fvMask L r k || F k) || ((mulNT (cs dv) a (valNT (cs dv) sz L l)).mask k && !fvMask L r k && !F k)) =
        (fvMask L (.mul l r) k || F k) := by
    intro k _
    have := bm_mul (fvMask L r k) (fvMask L l k) (F k) (a.mask k)
      (by intro h; have := ha1 k h; simp only [fvMask] at this; rw [Bool.or_comm]; exact this)
    simp only [mulNT, valNT]
    rw [this]; simp only [fvMask]; rw [Bool.or_comm (fvMask L r k)]
  rw [sumM_congr_mask dv sz hml, sumM_congr_mask dv sz hmr]
  have := congrFun (sumM_add dv sz n (fun k => fvMask L (.mul l r) k || F k)
    (fun env => (mulNT (cs dv) a (valNT (cs dv) sz L r)).f env * deriv (cs dv) sz L id p l env)
    (fun env => (mulNT (cs dv) a (valNT (cs dv) sz L l)).f env * deriv (cs dv) sz L id p r env)) p
  rw [← this]
  congr 1; funext env
  simp only [deriv, mulNT, valNT]
  show a.f env * eval (cs dv) sz L r env * deriv (cs dv) sz L id p l env +
      a.f env * eval (cs dv) sz L l env * deriv (cs dv) sz L id p r env =
    a.f env * (deriv (cs dv) sz L id p l env * eval (cs dv) sz L r env +
      eval (cs dv) sz L l env * deriv (cs dv) sz L id p r env)
  ring

theorem bne_eq (k v : Nat) : (k != v) = !(k == v) := rfl

theorem sound_sum {n : Nat} {F : Mask} (hW : WFL n L) (hF : ∀ k, F k = true → k < n)
    (id : Nat) (p : Env) (v : Nat) (e : Expr) (hg : Good dv sz L n F (.sum v e))
    (ih : Sound dv sz L n F id p e) :
    Sound dv sz L n F id p (.sum v e) := by
  intro a ha1 ha2
  obtain ⟨hge, hv, hFv⟩ := hg
  have hfv := fv_lt dv sz L hW _ hge
  have hvn : v < n := hfv v hv
  have han : ∀ k, a.mask k = true → k < n := by
    intro k hk
    rcases ha1 k hk with h | h
    · simp only [fvMask, Bool.and_eq_true] at h; exact hfv k h.1
    · exact hF k h
  have hav : a.mask v = false := by
    cases h : a.mask v
    · rfl
    · rcases ha1 v h with h' | h'
      · simp [fvMask] at h'
      · rw [hFv] at h'; exact absurd h' (by simp)
  simp only [backward]
  obtain ⟨ok1, ok2⟩ := agg_ok dv sz F (fvMask L e) a han ha2
  rw [ih _ ok1 ok2, agg_step dv sz F (fvMask L e) a _ (deriv_indep dv sz L hW id p e hge)]
  have hm : ∀ k, k < n →
      ((fvMask L e k || F k) || (a.mask k && !fvMask L e k && !F k)) =
        ((fvMask L (.sum v e) k || F k) || k == v) := by
    intro k _
    have := bm_red (fvMask L e k) (F k) (a.mask k) (k == v) false
      (by intro h; have := ha1 k h; simpa only [fvMask, bne_eq] using this)
      (by intro h; have : k = v := by simpa using h
          subst this; exact hv)
      (by simp)
    simp only [Bool.or_false] at this
    rw [this]; simp only [fvMask, bne_eq]
  rw [sumM_congr_mask dv sz hm]
  rw [← sumM_insert dv sz hvn (by simp [fvMask, hFv])]
  congr 1
  rw [sum1_mul_left dv sz v a.f _ (ha2 v hav)]
  rfl

theorem sound_prod {n : Nat} {F : Mask} (hW : WFL n L) (hF : ∀ k, F k = true → k < n)
    (hdv : ∀ x y : R, y ≠ 0 → dv (x * y) y = x)
    (id : Nat) (p : Env) (v : Nat) (e : Expr) (hgp : Good dv sz L n F (.prod v e))
    (ih : Sound dv sz L n F id p e) :
    Sound dv sz L n F id p (.prod v e) := by
  intro a ha1 ha2
  have hgp' := hgp
  obtain ⟨hge, hv, hFv, hnz⟩ := hgp'
  have hfv := fv_lt dv sz L hW _ hge
  have hvn : v < n := hfv v hv
  have han : ∀ k, a.mask k = true → k < n := by
    intro k hk
    rcases ha1 k hk with h | h
    · simp only [fvMask, Bool.and_eq_true] at h; exact hfv k h.1
    · exact hF k h
  have hav : a.mask v = false := by
    cases h : a.mask v
    · rfl
    · rcases ha1 v h with h' | h'
      · simp [fvMask] at h'
      · rw [hFv] at h'; exact absurd h' (by simp)
  simp only [backward]
  -- the message  safediv(out_adj ⊗ out, arg)
  generalize hb : divNT (cs dv) (mulNT (cs dv) a (valNT (cs dv) sz L (.prod v e)))
      (valNT (cs dv) sz L e) = b
  have hbm : ∀ k, b.mask k = ((a.mask k || (fvMask L e k && !(k == v))) || fvMask L e k) := by
    intro k; rw [← hb]; simp only [divNT, mulNT, valNT, fvMask, bne_eq]
  have hbf : ∀ env, b.f env = dv (a.f env * eval (cs dv) sz L (.prod v e) env)
      (eval (cs dv) sz L e env) := by
    intro env; rw [← hb]; rfl
  have hb1 : ∀ k, b.mask k = true → k < n := by
    intro k hk
    rw [hbm] at hk
    simp only [Bool.or_eq_true, Bool.and_eq_true] at hk
    rcases hk with (h | h) | h
    · exact han k h
    · exact hfv k h.1
    · exact hfv k h
  have hb2 : ∀ k, b.mask k = false → Indep b.f k := by
    intro k hk env j
    rw [hbm] at hk
    simp only [Bool.or_eq_false_iff] at hk
    rw [hbf, hbf, ha2 k hk.1.1 env j,
      eval_indep dv sz L hW _ hgp k (by simpa only [fvMask, bne_eq] using hk.1.2) env j,
      eval_indep dv sz L hW e hge k hk.2 env j]
  obtain ⟨ok1, ok2⟩ := agg_ok dv sz F (fvMask L e) b hb1 hb2
  rw [ih _ ok1 ok2, agg_step dv sz F (fvMask L e) b _ (deriv_indep dv sz L hW id p e hge)]
  have hm : ∀ k, k < n →
      ((fvMask L e k || F k) || (b.mask k && !fvMask L e k && !F k)) =
        ((fvMask L (.prod v e) k || F k) || k == v) := by
    intro k _
    rw [hbm]
    simp only [fvMask, bne_eq]
    exact bm_prod _ _ _ _
      (by intro h; have := ha1 k h; simpa only [fvMask, bne_eq] using this)
      (by intro h; have : k = v := by simpa using h
          subst this; exact hv)
  rw [sumM_congr_mask dv sz hm]
  rw [← sumM_insert dv sz hvn (by simp [fvMask, hFv])]
  congr 1
  funext env
  rw [sum1_apply]
  simp only [hbf]
  simp only [deriv, eval, sumTo_eq, prodTo_eq]
  show ∑ j ∈ range (sz v), dv (a.f (upd env v j) * ∏ i ∈ range (sz v),
        eval (cs dv) sz L e (upd (upd env v j) v i)) (eval (cs dv) sz L e (upd env v j)) *
        deriv (cs dv) sz L id p e (upd env v j) =
    a.f env * ∑ j ∈ range (sz v), deriv (cs dv) sz L id p e (upd env v j) *
        ∏ i ∈ range (sz v), (if i = j then 1 else eval (cs dv) sz L e (upd env v i))
  rw [mul_sum]
  apply sum_congr rfl
  intro j hj
  have hj' : j < sz v := mem_range.mp hj
  simp only [upd_same]
  rw [ha2 v hav env j]
  rw [← prod_except hj' (fun i => eval (cs dv) sz L e (upd env v i))]
  rw [← mul_assoc, hdv _ _ (hnz (upd env v j))]
  ring

/-! ### `adjoint_cat`: every occurrence of a leaf among the parts counts -/

/-- what one part of `Cat(v, parts)` (inputs `V`) starting at offset `off` receives: the model's `catPart` -/
abbrev partAdj (n : Nat) (F : Mask) (v : Nat) (V : Mask) (a : NT R) (id off : Nat) : NT R :=
  catPart (cs dv) sz L n F v V a id off

/-- (offset, length) of the occurrences of leaf `id` among the parts (a list: multiplicity matters) -/
def occs (id : Nat) : List (Nat × Nat) → Nat → List (Nat × Nat)
  | [], _ => []
  | (id', len) :: rest, off => (if id' = id then [(off, len)] else []) ++ occs id rest (off + len)

/-- **Occurrence lemma for `adjoint_cat`.**  The adjoint a leaf receives from a `Cat` node is the ⊕ over
    *all* positions at which it occurs among the parts — the rule returns a sequence of (part, adjoint)
    pairs, not a mapping keyed by the part.  (A version that collects the pairs in a dict keyed by the
    part keeps only the last occurrence: `cat_repeated_part_witness`.) -/
theorem catBack_occurrences (n : Nat) (F : Mask) (v : Nat) (V : Mask) (a : NT R) (id : Nat) (env : Env) :
    ∀ (parts : List (Nat × Nat)) (off : Nat),
      (catBack (cs dv) sz L n F v V a parts off id).f env =
        ((occs id parts off).map (fun o => (partAdj dv sz L n F v V a id o.1).f env)).sum := by
  intro parts
  induction parts with
  | nil => intro off; simp [catBack, occs, zeroNT, cs]
  | cons q rest ih =>
    intro off
    obtain ⟨id', len⟩ := q
    simp only [catBack, addF, addNT, occs, List.map_append, List.sum_append]
    rw [ih (off + len)]
    show (_ : R) + _ = _ + _
    congr 1
    by_cases h : id' = id
    · subst h; simp [single, partAdj]
    · have h' : ¬ id = id' := fun e => h e.symm
      simp [single, h, h', zeroNT, cs]

omit [CommSemiring R] in
theorem occs_bounds (id : Nat) : ∀ (parts : List (Nat × Nat)) (off : Nat) (o : Nat × Nat),
    o ∈ occs id parts off →
      off ≤ o.1 ∧ o.1 + o.2 ≤ off + (parts.map (·.2)).sum ∧ (id, o.2) ∈ parts := by
  intro parts
  induction parts with
  | nil => intro off o ho; simp [occs] at ho
  | cons q rest ih =>
    intro off o ho
    obtain ⟨id', len⟩ := q
    simp only [occs, List.mem_append] at ho
    simp only [List.map_cons, List.sum_cons]
    rcases ho with ho | ho
    · by_cases h : id' = id
      · subst h
        simp only [if_true, List.mem_singleton] at ho
        subst ho
        exact ⟨Nat.le_refl _, by simp, List.mem_cons_self ..⟩
      · simp [h] at ho
    · obtain ⟨h1, h2, h3⟩ := ih (off + len) o ho
      exact ⟨by omega, by omega, List.mem_cons_of_mem _ h3⟩

/-- indicator that an environment reads entry `p` of the occurrence `o = (offset, length)` -/
def occInd (id : Nat) (p : Env) (v : Nat) (o : Nat × Nat) (env : Env) : R :=
  if o.1 ≤ env v ∧ env v < o.1 + o.2 ∧ hits (L.names id) (upd env v (env v - o.1)) p = true then 1 else 0

/-- the derivative of a `Cat` node is the sum of the indicators of the occurrences of the leaf -/
theorem catDeriv_sum (id : Nat) (p : Env) (v : Nat) (env : Env) :
    ∀ (parts : List (Nat × Nat)) (off : Nat), off ≤ env v →
      catDeriv (cs dv) L id p v parts off env =
        ((occs id parts off).map (fun o => occInd L id p v o env)).sum := by
  intro parts
  induction parts with
  | nil => intro off _; simp [catDeriv, occs, cs]
  | cons q rest ih =>
    intro off hoff
    obtain ⟨id', len⟩ := q
    simp only [catDeriv, occs, List.map_append, List.sum_append]
    by_cases hlt : env v < off + len
    · rw [if_pos hlt]
      have htail : ((occs id rest (off + len)).map (fun o => occInd L id p v o env)).sum = (0 : R) := by
        apply List.sum_eq_zero
        intro x hx
        obtain ⟨o, ho, rfl⟩ := List.mem_map.mp hx
        have := (occs_bounds id rest (off + len) o ho).1
        simp only [occInd]
        rw [if_neg (by omega)]
      rw [htail, add_zero]
      by_cases hid : id' = id
      · subst hid
        simp only [if_true, List.map_cons, List.map_nil, List.sum_cons, List.sum_nil, add_zero, occInd,
          true_and, cs_one, cs_zero]
        by_cases hh : hits (L.names id') (upd env v (env v - off)) p = true
        · rw [if_pos hh, if_pos ⟨hoff, hlt, hh⟩]
        · rw [if_neg hh, if_neg (fun h => hh h.2.2)]
      · simp [hid, cs]
    · rw [if_neg hlt, ih (off + len) (by omega)]
      by_cases hid : id' = id
      · subst hid
        simp only [if_true, List.map_cons, List.map_nil, List.sum_cons, List.sum_nil, add_zero, occInd]
        rw [if_neg (fun h => hlt h.2.1), zero_add]
      · simp [hid]

theorem sumM_listsum (n : Nat) (m : Mask) (fs : List (Env → R)) :
    sumM (cs dv) sz n m (fun env => (fs.map (fun f => f env)).sum) =
      fun env => (fs.map (fun f => sumM (cs dv) sz n m f env)).sum := by
  induction fs with
  | nil => simpa using sumM_zero dv sz n m
  | cons f rest ih =>
    simp only [List.map_cons, List.sum_cons]
    rw [sumM_add, ih]

/-- one occurrence: the slice of the incoming adjoint, expanded over the inputs of the Cat the part
    lacks, aggregated and marginalised, is the derivative against the indicator of that occurrence -/
theorem sound_cat_occ {n : Nat} {F : Mask} (id : Nat) (hn : ∀ k, nameMask L id k = true → k < n)
    (p : Env) (v : Nat) (o : Nat × Nat) (a : NT R) (V : Mask)
    (hv : nameMask L id v = true)
    (hV : ∀ k, nameMask L id k = true → V k = true)
    (ha1 : ∀ k, a.mask k = true → V k = true ∨ F k = true)
    (ha2 : ∀ k, a.mask k = false → Indep a.f k)
    (ho : o.1 + o.2 ≤ sz v) (hpv : p v < o.2)
    (hpk : ∀ k, nameMask L id k = true → k ≠ v → p k < sz k) :
    sumM (cs dv) sz n (fun k => F k && !nameMask L id k) (partAdj dv sz L n F v V a id o.1).f p =
      sumM (cs dv) sz n (fun k => V k || F k)
        (fun env => a.f env * occInd L id p v o env) p := by
  have hvn : v < n := hn v hv
  -- the message before aggregation: slice (or the adjoint itself), expanded
  have hmk : ∀ k, (if a.mask v then (⟨a.mask, fun env => a.f (upd env v (o.1 + env v))⟩ : NT R) else a).mask k
      = a.mask k := by
    intro k; by_cases hav : a.mask v = true <;> simp [hav]
  obtain ⟨ef, e1, _, e3⟩ := expandNT_spec n
    (if a.mask v then (⟨a.mask, fun env => a.f (upd env v (o.1 + env v))⟩ : NT R) else a)
    (nameMask L id) (fun k => V k && k != v)
  -- the aggregation towards the part sums exactly over the inputs of the Cat the part lacks
  have hpf : (partAdj dv sz L n F v V a id o.1).f =
      sumM (cs dv) sz n (fun k => V k && !nameMask L id k && !F k)
        (if a.mask v then (⟨a.mask, fun env => a.f (upd env v (o.1 + env v))⟩ : NT R) else a).f := by
    simp only [partAdj, catPart, agg]
    rw [ef]
    refine sumM_congr_mask dv sz (fun k hk => ?_) _
    rw [Bool.eq_iff_iff]
    simp only [Bool.and_eq_true, Bool.not_eq_true']
    constructor
    · intro ⟨⟨h1, h2⟩, h3⟩
      refine ⟨⟨?_, h2⟩, h3⟩
      rcases e1 k h1 with h | h
      · rw [hmk] at h
        rcases ha1 k h with h' | h'
        · exact h'
        · rw [h3] at h'; exact absurd h' (by simp)
      · simp only [Bool.and_eq_true] at h; exact h.1
    · intro ⟨⟨h1, h2⟩, h3⟩
      refine ⟨⟨?_, h2⟩, h3⟩
      have hkv : k ≠ v := by
        intro h; subst h; rw [hv] at h2; exact absurd h2 (by simp)
      rcases e3 k hk (by simp [h1, hkv]) with h | h
      · exact h
      · rw [h2] at h; exact absurd h (by simp)
  rw [hpf]
  rw [sumM_congr_mask dv sz (m := fun k => V k || F k)
    (m' := fun k => (F k && !nameMask L id k) ||
      ((V k && !nameMask L id k && !F k) || nameMask L id k))
    (fun k _ => by
      have := hV k
      cases hf : F k <;> cases hnm : nameMask L id k <;> cases hvk : V k <;> simp_all)]
  rw [sumM_split dv sz (m1 := fun k => F k && !nameMask L id k)
    (m2 := fun k => (V k && !nameMask L id k && !F k) || nameMask L id k)
    (fun k _ h => by
      have h1 := h.1; have h2 := h.2
      simp only [Bool.and_eq_true, Bool.not_eq_true', Bool.or_eq_true] at h1 h2
      rcases h2 with h2 | h2
      · rw [h1.1] at h2; exact absurd h2.2 (by simp)
      · rw [h1.2] at h2; exact absurd h2 (by simp))]
  apply sumM_congr_on
  intro env1 he1
  rw [sumM_split dv sz (m1 := fun k => V k && !nameMask L id k && !F k) (m2 := nameMask L id)
    (fun k _ h => by
      have h1 := h.1; have h2 := h.2
      simp only [Bool.and_eq_true, Bool.not_eq_true'] at h1
      rw [h1.1.2] at h2; exact absurd h2 (by simp))]
  apply sumM_congr_on
  intro env' he
  have hag : ∀ k, nameMask L id k = true → env' k = p k := by
    intro k hk
    have h1 : env1 k = p k := by
      rcases he1 k with ⟨_, h⟩ | h
      · rw [hk] at h; simp at h
      · exact h
    rcases he k with ⟨_, h⟩ | h
    · rw [hk] at h; simp at h
    · rw [h]; exact h1
  -- move to the environment at which the indicator sits
  have hmove := sumM_indep_in dv sz (m := nameMask L id)
    (fun env => a.f env * occInd L id p v o env) hvn hv env' (o.1 + p v)
  rw [← hmove, sumM_point dv sz]
  · -- value at the point
    have hpt : occInd L id p v o (upd env' v (o.1 + p v)) = (1 : R) := by
      simp only [occInd, upd_at]
      rw [if_pos]
      refine ⟨by omega, by omega, ?_⟩
      rw [hits_iff]
      intro k hk
      have hk' : nameMask L id k = true := by simp [nameMask, hk]
      by_cases hkv : k = v
      · subst hkv; rw [upd_same, upd_at]; omega
      · rw [upd_same, upd_ne _ _ hkv]; exact hag k hk'
    rw [hpt, mul_one]
    by_cases hav : a.mask v = true
    · simp only [hav, if_true]
      rw [hag v hv]
    · simp only [hav, Bool.false_eq_true, if_false]
      have := ha2 v (by simpa using hav) env' (o.1 + p v)
      exact this.symm
  · intro k _ hk
    by_cases hkv : k = v
    · subst hkv; rw [upd_at]; omega
    · rw [upd_ne _ _ hkv, hag k hk]; exact hpk k hk hkv
  · intro env'' ⟨k, _, hk, hne⟩
    have : occInd L id p v o env'' = (0 : R) := by
      simp only [occInd]
      rw [if_neg]
      intro ⟨h1, h2, h3⟩
      rw [hits_iff] at h3
      have hk' : k ∈ L.names id := by simpa [nameMask] using hk
      have h3k := h3 k hk'
      by_cases hkv : k = v
      · subst hkv
        rw [upd_at] at h3k hne
        omega
      · rw [upd_ne _ _ hkv] at h3k hne
        exact hne (by rw [h3k, hag k hk])
    rw [this, mul_zero]

/-- "`p` is an index of leaf `id` wherever the leaf occurs": read directly (or through a substitution,
    on the unsubstituted axes) the index is below the variable's size; as a part of a `Cat`, the index
    along the concatenated axis is below the part's length. -/
def PtOK (id : Nat) (p : Env) : Expr → Prop
  | .acc id' σ => id' = id → ∀ k, nameMask L id k = true → σ.keys k = false → p k < sz k
  | .add a b => PtOK id p a ∧ PtOK id p b
  | .mul a b => PtOK id p a ∧ PtOK id p b
  | .sum _ e => PtOK id p e
  | .prod _ e => PtOK id p e
  | .cat v parts => ∀ q, q ∈ parts → q.1 = id →
      p v < q.2 ∧ ∀ k, nameMask L id k = true → k ≠ v → p k < sz k
  | .scat _ _ _ e => PtOK id p e

/-- `adjoint_cat`: every part receives its slice; a leaf occurring several times among the parts
    accumulates all of them. -/
theorem sound_cat {n : Nat} {F : Mask} (hW : WFL n L) (id : Nat) (p : Env) (v : Nat)
    (parts : List (Nat × Nat)) (hg : Good dv sz L n F (.cat v parts))
    (hpt : PtOK sz L id p (.cat v parts)) :
    Sound dv sz L n F id p (.cat v parts) := by
  intro a ha1 ha2
  obtain ⟨c1, c3⟩ := hg
  simp only [backward, marginal]
  -- left: sum over the occurrences
  have hL : (catBack (cs dv) sz L n F v (fvMask L (.cat v parts)) a parts 0 id).f =
      fun env => ((occs id parts 0).map
        (fun o => (partAdj dv sz L n F v (fvMask L (.cat v parts)) a id o.1).f env)).sum := by
    funext env; exact catBack_occurrences dv sz L n F v _ a id env parts 0
  rw [hL]
  have hL2 := sumM_listsum dv sz n (fun k => F k && !nameMask L id k)
    ((occs id parts 0).map (fun o => (partAdj dv sz L n F v (fvMask L (.cat v parts)) a id o.1).f))
  simp only [List.map_map, Function.comp_def] at hL2
  rw [hL2]
  -- right: the derivative is the sum of the occurrence indicators
  have hR : (fun env => a.f env * deriv (cs dv) sz L id p (.cat v parts) env) =
      fun env => ((occs id parts 0).map (fun o => a.f env * occInd L id p v o env)).sum := by
    funext env
    simp only [deriv]
    rw [catDeriv_sum dv L id p v env parts 0 (Nat.zero_le _), List.sum_map_mul_left]
  rw [hR]
  have hR2 := sumM_listsum dv sz n (fun k => fvMask L (.cat v parts) k || F k)
    ((occs id parts 0).map (fun o => fun env => a.f env * occInd L id p v o env))
  simp only [List.map_map, Function.comp_def] at hR2
  rw [hR2]
  -- occurrence by occurrence
  beta_reduce
  congr 1
  apply List.map_congr_left
  intro o ho
  obtain ⟨_, hb2, hb3⟩ := occs_bounds id parts 0 o ho
  have hV : ∀ k, nameMask L id k = true → fvMask L (.cat v parts) k = true := by
    intro k hk
    simp only [fvMask, List.any_eq_true]
    exact ⟨(id, o.2), hb3, hk⟩
  have hpo := hpt (id, o.2) hb3 rfl
  exact sound_cat_occ dv sz L id (hW.hn id) p v o a _ (c1 (id, o.2) hb3) hV ha1
    ha2 (by simp only [Nat.zero_add] at hb2; omega) hpo.1 hpo.2

omit [CommSemiring R] in
/-- the message of a forward Scatter is admissible for its source -/
theorem scatMsg_ok {n : Nat} (i k : Nat) (t : List Nat) (hik : i ≠ k) (hk : k < n) (a : NT R)
    (han : ∀ j, a.mask j = true → j < n) (ha2 : ∀ j, a.mask j = false → Indep a.f j) :
    (∀ j, (scatMsg i k t a).mask j = true → j < n) ∧
    (∀ j, (scatMsg i k t a).mask j = false → Indep (scatMsg i k t a).f j) := by
  constructor
  · intro j hj
    simp only [scatMsg, Bool.or_eq_true, Bool.and_eq_true, beq_iff_eq] at hj
    rcases hj with h | h
    · exact han j h.1
    · rw [h.2]; exact hk
  · intro j hj env x
    simp only [scatMsg, Bool.or_eq_false_iff, Bool.and_eq_false_iff] at hj ⊢
    by_cases hji : j = i
    · subst hji
      rw [upd_same, upd_ne env x (Ne.symm hik)]
    · by_cases hjk : j = k
      · subst hjk
        have hAj : a.mask j = false := by
          rcases hj.1 with h | h
          · exact h
          · simp at h; exact absurd h hji
        have hAi : a.mask i = false := by
          rcases hj.2 with h | h
          · exact h
          · simp at h
        rw [ha2 i hAi _ _, ha2 j hAj env x, ha2 i hAi env _]
      · have hAj : a.mask j = false := by
          rcases hj.1 with h | h
          · exact h
          · simp at h; exact absurd h hji
        rw [upd_ne env x (Ne.symm hjk), upd_comm env hji, ha2 j hAj]

/-- forward `Scatter`: dest[i] = ⨁_{k : idx(k) = i} src(k); the source receives `out_adj` read at the
    scattered positions (`adjoint_scatter` on HEAD) -/
theorem sound_scat {n : Nat} {F : Mask} (hW : WFL n L) (hF : ∀ k, F k = true → k < n)
    (id : Nat) (p : Env) (i k : Nat) (t : List Nat) (e : Expr)
    (hg : Good dv sz L n F (.scat i k t e)) (ih : Sound dv sz L n F id p e) :
    Sound dv sz L n F id p (.scat i k t e) := by
  intro a ha1 ha2
  have hfvs := fv_lt dv sz L hW _ hg
  obtain ⟨hge, hvk, hvi, hFi, hFk, hik, hin, htab⟩ := hg
  have hfv := fv_lt dv sz L hW _ hge
  have hkn : k < n := hfv k hvk
  have han : ∀ j, a.mask j = true → j < n := by
    intro j hj
    rcases ha1 j hj with h | h
    · exact hfvs j h
    · exact hF j h
  have hAk : a.mask k = false := by
    cases h : a.mask k
    · rfl
    · rcases ha1 k h with h' | h'
      · simp only [fvMask, Bool.or_eq_true, Bool.and_eq_true, beq_iff_eq] at h'
        rcases h' with h'' | h''
        · simp at h''
        · exact absurd h''.symm hik
      · rw [hFk] at h'; exact absurd h' (by simp)
  simp only [backward]
  obtain ⟨m1, m2⟩ := scatMsg_ok i k t hik hkn a han ha2
  obtain ⟨ok1, ok2⟩ := agg_ok dv sz F (fvMask L e) _ m1 m2
  rw [ih _ ok1 ok2, agg_step dv sz F (fvMask L e) _ _ (deriv_indep dv sz L hW id p e hge)]
  -- both sides: sum over M0 = (inputs of e without k) ∪ F of a sum over k resp. over i
  have hmL : ∀ j, j < n →
      ((fvMask L e j || F j) || ((scatMsg i k t a).mask j && !fvMask L e j && !F j)) =
        (((fvMask L e j && j != k) || F j) || j == k) := by
    intro j _
    have h1 := ha1 j
    simp only [fvMask, scatMsg] at h1 ⊢
    by_cases hjk : j = k
    · subst hjk; simp [hvk]
    · by_cases hji : j = i
      · subst hji
        have : (j == k) = false := by simp [hjk]
        simp [hvi, hFi, this]
      · have e1 : (j == k) = false := by simp [hjk]
        have e2 : (j == i) = false := by simp [hji]
        have e3 : (j != k) = true := by simp [hjk]
        have e4 : (j != i) = true := by simp [hji]
        simp only [e1, e2, e3, e4] at h1 ⊢
        cases hA : a.mask j <;> cases hv : fvMask L e j <;> cases hf : F j <;>
          cases hAi : a.mask i <;> simp_all
  have hmR : ∀ j, j < n →
      (fvMask L (.scat i k t e) j || F j) = (((fvMask L e j && j != k) || F j) || j == i) := by
    intro j _
    simp only [fvMask]
    cases fvMask L e j <;> cases (j != k) <;> cases F j <;> cases (j == i) <;> rfl
  rw [sumM_congr_mask dv sz hmL, sumM_congr_mask dv sz hmR]
  rw [← sumM_insert dv sz hkn (by simp [hFk]), ← sumM_insert dv sz hin (by simp [hvi, hFi])]
  congr 1
  funext env
  simp only [sum1_apply, deriv, sumTo_eq, scatMsg, cs_zero]
  -- left: Σ_k' a(i := idx k') · de(k');   right: Σ_i' a(i := i') · Σ_k' [idx k' = i'] de(k')
  have hL : ∀ k', a.f (upd (upd env k k') i (tabAt t k')) = a.f (upd env i (tabAt t k')) := by
    intro k'
    rw [upd_comm env (Ne.symm hik), ha2 k hAk]
  have hR : ∀ i' k', deriv (cs dv) sz L id p e (upd (upd env i i') k k') =
      deriv (cs dv) sz L id p e (upd env k k') := by
    intro i' k'
    rw [upd_comm env hik, deriv_indep dv sz L hW id p e hge i hvi]
  simp only [hR, upd_at, hL]
  simp only [mul_sum]
  rw [sum_comm]
  apply sum_congr rfl
  intro k' hk'
  have hk'' : k' < sz k := mem_range.mp hk'
  rw [sum_eq_single (tabAt t k')]
  · rw [if_pos rfl]
  · intro i' _ hne
    rw [if_neg (fun h => hne h.symm), mul_zero]
  · intro hnot
    exact absurd (mem_range.mpr (htab k' hk'')) hnot

/-- **Soundness of the reverse sweep (generalised incoming adjoint)**, for every node kind of the
    model: leaves read directly, through a substitution, or as parts of a `Cat`; ⊕; ⊗; sum- and
    product-reductions. -/
theorem adjoint_sound_gen {n : Nat} {F : Mask} (hW : WFL n L) (hF : ∀ k, F k = true → k < n)
    (hdv : ∀ x y : R, y ≠ 0 → dv (x * y) y = x)
    (id : Nat) (p : Env) :
    ∀ e, Good dv sz L n F e → PtOK sz L id p e → Sound dv sz L n F id p e := by
  intro e
  induction e with
  | acc id' σ =>
    intro hg hpt
    by_cases hne : σ = []
    · subst hne
      exact sound_acc dv sz L id p id' (fun h k hk => hpt h k hk (by simp [Subst.keys]))
    · rcases hg with h | h
      · exact absurd h hne
      · exact sound_subs dv sz L id p id' σ hpt hne h
  | add l r ihl ihr =>
    intro hg hpt; exact sound_add dv sz L hW hF id p l r hg (ihl hg.1 hpt.1) (ihr hg.2 hpt.2)
  | mul l r ihl ihr =>
    intro hg hpt; exact sound_mul dv sz L hW hF id p l r hg (ihl hg.1 hpt.1) (ihr hg.2 hpt.2)
  | sum v e ih =>
    intro hg hpt; exact sound_sum dv sz L hW hF id p v e hg (ih hg.1 hpt)
  | prod v e ih =>
    intro hg hpt; exact sound_prod dv sz L hW hF hdv id p v e hg (ih hg.1 hpt)
  | cat v parts =>
    intro hg hpt; exact sound_cat dv sz L hW id p v parts hg hpt
  | scat i k t e ih =>
    intro hg hpt; exact sound_scat dv sz L hW hF id p i k t e hg (ih hg.1 hpt)

/-- **C11, model level.**
    For a root `e` satisfying `Good` (with `F` = the inputs of the root) and an index `p` of leaf `id`
    (`PtOK`), the adjoint that the reverse sweep returns for the leaf, summed over the root inputs the
    leaf lacks and read at entry `p`, equals the semiring derivative of `⨁_{inputs of e} e` with respect
    to that entry. -/
theorem adjoint_sound {n : Nat} (hW : WFL n L)
    (hdv : ∀ x y : R, y ≠ 0 → dv (x * y) y = x)
    (e : Expr) (hg : Good dv sz L n (fvMask L e) e)
    (id : Nat) (p : Env) (hp : PtOK sz L id p e) :
    marginal (cs dv) sz L n (fvMask L e) id (adjoint (cs dv) sz L n e id) p =
      sumM (cs dv) sz n (fvMask L e) (deriv (cs dv) sz L id p e) p := by
  have hF := fv_lt dv sz L hW e hg
  have h := adjoint_sound_gen dv sz L hW hF hdv id p e hg hp (oneNT (cs dv))
    (by intro k hk; simp [oneNT] at hk) (by intro k _ env j; rfl)
  simp only [adjoint]
  rw [h, sumM_congr_mask dv sz (m' := fvMask L e) (fun k _ => Bool.or_self _)]
  congr 1; funext env
  show 1 * deriv (cs dv) sz L id p e env = _
  rw [one_mul]

/-- A product of leaf occurrences: the derivative is the leave-one-out product (Leibniz), so for a
    sum-product expression `deriv` is the table "sum of the product of all other factors". -/
theorem deriv_mul_leave_one_out (id : Nat) (p : Env) (a b : Expr) (env : Env) :
    deriv (cs dv) sz L id p (.mul a b) env =
      deriv (cs dv) sz L id p a env * eval (cs dv) sz L b env +
        eval (cs dv) sz L a env * deriv (cs dv) sz L id p b env := rfl

/-! ### the hypotheses are satisfiable, and each is needed -/

/-- concrete data over ℕ: leaf 0 = d[i,j] = [[1,0,3],[4,5,6]] over variables 0 (size 2), 1 (size 3);
    leaf 1 = y[j] = [5,7,0] over variable 1 -/
def wL : Leaves ℕ where
  names := fun id => if id = 0 then [0, 1] else if id = 1 then [1] else []
  T := fun id env =>
    if id = 0 then
      (if env 0 = 0 then (if env 1 = 0 then 1 else if env 1 = 1 then 0 else 3)
       else (if env 1 = 0 then 4 else if env 1 = 1 then 5 else 6))
    else if id = 1 then (if env 1 = 0 then 5 else if env 1 = 1 then 7 else 0)
    else 0

def wsz : Nat → Nat := fun v => if v = 0 then 2 else if v = 1 then 3 else 1

/-- numpy's `safediv` on exact quotients: `0/0 = 0` -/
def ndiv (x y : ℕ) : ℕ := if y = 0 then 0 else x / y

example : ∀ x y : ℕ, y ≠ 0 → ndiv (x * y) y = x := by
  intro x y h; simp only [ndiv, if_neg h]; exact Nat.mul_div_cancel x (Nat.pos_of_ne_zero h)

def noF : Mask := fun _ => false
def at01 : Env := fun k => if k = 1 then 1 else 0
def z0 : Env := fun _ => 0

/-- KF-adjoint-plate-zero: `d.reduce(mul, j).reduce(add, i)` — the sweep returns 0 for `∂/∂d[0,1]`,
    the derivative (product of the other entries of row 0) is 3. -/
theorem plate_zero_witness :
    marginal (cs ndiv) wsz wL 2 noF 0
        (adjoint (cs ndiv) wsz wL 2 (.sum 0 (.prod 1 (.acc 0 []))) 0) at01 = 0 ∧
      sumM (cs ndiv) wsz 2 noF (deriv (cs ndiv) wsz wL 0 at01 (.sum 0 (.prod 1 (.acc 0 [])))) at01 = 3 := by
  decide

/-- so `Good`'s "nowhere zero" clause cannot be dropped from `adjoint_sound` -/
theorem plate_zero_not_good :
    ¬ Good ndiv wsz wL 2 noF (.sum 0 (.prod 1 (.acc 0 []))) := by
  intro h
  exact h.1.2.2.2 at01 (by decide)

/-- ⊕ between operands with different inputs: `sum_{0,1} (y[1] + d[0,1])`.  With `_expand_like` the sweep
    returns 2 (= |var 0|) for `∂/∂y[1]`, which is the derivative. -/
theorem add_broadcast_fixed :
    marginal (cs ndiv) wsz wL 2 noF 1
        (adjoint (cs ndiv) wsz wL 2 (.sum 0 (.sum 1 (.add (.acc 1 []) (.acc 0 [])))) 1) at01 = 2 ∧
      sumM (cs ndiv) wsz 2 noF
        (deriv (cs ndiv) wsz wL 1 at01 (.sum 0 (.sum 1 (.add (.acc 1 []) (.acc 0 []))))) at01 = 2 := by
  decide

/-- … and the rule before that fix (KF-adjoint-add-broadcast, fixed in /repo 1a4c2b1): the operand received
    `out_adj` itself; the aggregation towards `y` then has nothing to sum over and yields 1, while the
    expanded message yields 2. -/
theorem add_broadcast_prefix_witness :
    (agg (cs ndiv) wsz 2 noF (nameMask wL 1) (oneNT (cs ndiv))).f at01 = 1 ∧
    (agg (cs ndiv) wsz 2 noF (nameMask wL 1)
      (expandNT 2 (oneNT (cs ndiv)) (nameMask wL 1) (nameMask wL 0))).f at01 = 2 := by
  decide

/-- leaves for the `Subs` witness: `x` over variable 0 = [1,2], `y` over its own axis 3 = [5,7] -/
def wL2 : Leaves ℕ where
  names := fun id => if id = 0 then [0] else if id = 1 then [3] else []
  T := fun id env => if id = 0 then env 0 + 1 else if id = 1 then (if env 3 = 0 then 5 else 7) else 0

def wsz2 : Nat → Nat := fun _ => 2

/-- `adjoint_subs` before /repo 2224a5a (KF-adjoint-subs-free-root-var): every input of the incoming
    adjoint that the leaf lacks went into Scatter's reduced set -/
def scatterOld (n : Nat) (names : Mask) (σ : Subst) (a : NT ℕ) : NT ℕ :=
  let keep : Mask := fun k => names k && !σ.keys k
  ⟨fun k => ((a.mask k || σ.valvars k) && keep k) || σ.keys k,
   fun env' => sumM (cs ndiv) wsz2 n (fun k => (a.mask k || σ.valvars k) && !keep k)
      (fun env => if σ.all (fun p => p.2.val env == env' p.1) then a.f env else 0) env'⟩

def F0 : Mask := fun k => k == 0
/-- the adjoint reaching `y(3 := k)` inside `root(0) = sum_2 y(3 := 2) ⊗ x(0)`: `x`, an input of the root -/
def aX : NT ℕ := ⟨fun k => k == 0, wL2.T 0⟩

/-- root input 0 is not an input of `y`: the fixed rule keeps it as a batch input (marginal 3 = the
    derivative of `sum_0 root`); the old rule summed it inside Scatter *and* the result is broadcast over
    it again (6).  (The pinned eager Scatter moreover overwrote instead of summing; the model's
    scatter-add does not show that part.) -/
theorem subs_free_root_var_witness :
    marginal (cs ndiv) wsz2 wL2 4 F0 1
        (adjoint (cs ndiv) wsz2 wL2 4 (.sum 2 (.mul (.acc 1 [(3, .var 2)]) (.acc 0 []))) 1) z0 = 3 ∧
      sumM (cs ndiv) wsz2 4 F0
        (deriv (cs ndiv) wsz2 wL2 1 z0 (.sum 2 (.mul (.acc 1 [(3, .var 2)]) (.acc 0 [])))) z0 = 3 ∧
      marginal (cs ndiv) wsz2 wL2 4 F0 1
        (scatterOld 4 (nameMask wL2 1) [(3, .var 2)] aX) z0 = 6 := by
  decide

/-- the hypotheses of `adjoint_sound` hold for `sum_{0,1} d[0,1] ⊗ y[1]` (non-vacuity) -/
example : Good ndiv wsz wL 2 (fvMask wL (.sum 0 (.sum 1 (.mul (.acc 0 []) (.acc 1 [])))))
    (.sum 0 (.sum 1 (.mul (.acc 0 []) (.acc 1 [])))) := by
  refine ⟨⟨⟨Or.inl rfl, Or.inl rfl⟩, by decide, by decide⟩, by decide, by decide⟩

/-- … and for a leaf read through a renaming and through a slice: `sum_2 y[1 := 2]`, `sum_2 y[1 := 1 + 2]`
    (variable 2 has size 1) — `SubsOK` is satisfiable -/
example : Good ndiv wsz wL 3 noF (.sum 2 (.acc 1 [(1, .var 2)])) := by
  refine ⟨Or.inr ⟨?_, by decide, ?_, ?_⟩, by decide, rfl⟩
  · intro q hq; simp only [List.mem_singleton] at hq; subst hq; decide
  · intro k hk; simp only [Subst.valvars, List.any_cons, List.any_nil, Ix.dep, Bool.or_false,
      beq_iff_eq] at hk; omega
  · intro k hk; simp [noF] at hk

example : Good ndiv wsz wL 3 noF (.sum 2 (.acc 1 [(1, .aff 2 1 1)])) := by
  refine ⟨Or.inr ⟨?_, by decide, ?_, ?_⟩, by decide, rfl⟩
  · intro q hq; simp only [List.mem_singleton] at hq; subst hq; decide
  · intro k hk; simp only [Subst.valvars, List.any_cons, List.any_nil, Ix.dep, Bool.or_false,
      beq_iff_eq] at hk; omega
  · intro k hk; simp [noF] at hk

example : WFL 2 wL := by
  constructor
  · intro id k hk env j
    simp only [wL, nameMask] at hk ⊢
    by_cases h0 : id = 0
    · subst h0
      have h0' : k ≠ 0 := by intro h; subst h; simp at hk
      have h1' : k ≠ 1 := by intro h; subst h; simp at hk
      simp [upd, Ne.symm h0', Ne.symm h1']
    · by_cases h1 : id = 1
      · subst h1
        have h1' : k ≠ 1 := by intro h; subst h; simp at hk
        simp [upd, Ne.symm h1']
      · simp [h0, h1]
  · intro id k hk
    simp only [wL, nameMask] at hk
    by_cases h0 : id = 0
    · subst h0; simp at hk; omega
    · by_cases h1 : id = 1
      · subst h1; simp at hk; omega
      · simp [h0, h1] at hk

/-! ### `adjoint_cat` with a repeated part: a concrete instance -/

/-- the adjoint `Cat(y, y, y)` receives inside `sum_{0,1} Cat_1(y,y,y)[1] ⊗ d[0,1]` (parts of length 1) -/
def aD : NT ℕ := ⟨fun k => k == 0 || k == 1, wL.T 0⟩

/-- the same leaf three times among the parts: all three slices count (1+4, 0+5, 3+6 → 19 = the
    derivative); the last slice alone — what a dict keyed by the part would keep — gives 9. -/
theorem cat_repeated_part_witness :
    (catBack (cs ndiv) wsz wL 2 noF 1 (nameMask wL 1) aD [(1, 1), (1, 1), (1, 1)] 0 1).f z0 = 19 ∧
    (partAdj ndiv wsz wL 2 noF 1 (nameMask wL 1) aD 1 2).f z0 = 9 ∧
    marginal (cs ndiv) wsz wL 2 noF 1
      (adjoint (cs ndiv) wsz wL 2 (.sum 0 (.sum 1 (.mul (.cat 1 [(1, 1), (1, 1), (1, 1)]) (.acc 0 [])))) 1) z0 = 19 ∧
    sumM (cs ndiv) wsz 2 noF
      (deriv (cs ndiv) wsz wL 1 z0 (.sum 0 (.sum 1 (.mul (.cat 1 [(1, 1), (1, 1), (1, 1)]) (.acc 0 []))))) z0 = 19 := by
  decide


/-- the hypotheses of `adjoint_sound` hold for `sum_{0,1} Cat_1(y,y,y)[1] ⊗ d[0,1]`, the leaf `y`
    (three parts of length 1) and its entry 0 — non-vacuity for the `Cat` case -/
example : Good ndiv wsz wL 2 (fvMask wL (.sum 0 (.sum 1 (.mul (.cat 1 [(1, 1), (1, 1), (1, 1)]) (.acc 0 [])))))
    (.sum 0 (.sum 1 (.mul (.cat 1 [(1, 1), (1, 1), (1, 1)]) (.acc 0 [])))) := by
  refine ⟨⟨⟨⟨?_, by decide⟩, Or.inl rfl⟩, by decide, by decide⟩, by decide, by decide⟩
  intro q hq
  simp only [List.mem_cons, List.not_mem_nil, or_false, or_self] at hq
  subst hq
  decide

example : PtOK wsz wL 1 z0 (.sum 0 (.sum 1 (.mul (.cat 1 [(1, 1), (1, 1), (1, 1)]) (.acc 0 [])))) := by
  refine ⟨?_, ?_⟩
  · intro q hq _
    simp only [List.mem_cons, List.not_mem_nil, or_false, or_self] at hq
    subst hq
    refine ⟨by decide, ?_⟩
    intro k hk hkv
    simp only [wL, nameMask] at hk
    simp at hk
    exact absurd hk hkv
  · intro h; exact absurd h (by decide)

/-- ragged parts: `sum_{0,1} Cat_1(y, d[0,·])`-style — here `Cat_1(y[1], y[1])` next to a part that also
    has axis 0 is not expressible with `wL` (leaf 0 has length 3 along 1), so: `Cat_1(d, y)` with `d` over
    (0,1) of length 3 and `y` over (1) of length 3, variable 1 of size 6.  `y` is broadcast over variable
    0: the expanded message gives `∂/∂y[0] = |var 0| = 2`; the rule before /repo a13826d handed `y` the
    incoming adjoint unchanged (1). -/
def wsz6 : Nat → Nat := fun v => if v = 0 then 2 else if v = 1 then 6 else 1

theorem cat_ragged_witness :
    marginal (cs ndiv) wsz6 wL 2 noF 1
        (adjoint (cs ndiv) wsz6 wL 2 (.sum 0 (.sum 1 (.cat 1 [(0, 3), (1, 3)]))) 1) z0 = 2 ∧
      sumM (cs ndiv) wsz6 2 noF
        (deriv (cs ndiv) wsz6 wL 1 z0 (.sum 0 (.sum 1 (.cat 1 [(0, 3), (1, 3)])))) z0 = 2 ∧
      (agg (cs ndiv) wsz6 2 noF (nameMask wL 1) (oneNT (cs ndiv))).f z0 = 1 := by
  decide

example : Good ndiv wsz6 wL 2 noF (.sum 0 (.sum 1 (.cat 1 [(0, 3), (1, 3)]))) := by
  refine ⟨⟨⟨?_, by decide⟩, by decide, rfl⟩, by decide, rfl⟩
  intro q hq
  simp only [List.mem_cons, List.not_mem_nil, or_false] at hq
  rcases hq with rfl | rfl <;> decide
/-- leaves for the Scatter witness: `src` over variable 1 = [3,1,2], `w` over variable 2 = [10,20,30] -/
def wL3 : Leaves ℕ where
  names := fun id => if id = 0 then [1] else if id = 1 then [2] else []
  T := fun id env =>
    if id = 0 then (if env 1 = 0 then 3 else if env 1 = 1 then 1 else 2)
    else if id = 1 then (if env 2 = 0 then 10 else if env 2 = 1 then 20 else 30)
    else 0

def wsz3 : Nat → Nat := fun _ => 3

/-- `root = sum_2 Scatter(src; 1 ↦ 2 via idx = [2,0,1])[2] ⊗ w[2]`: the adjoint of `src[0]` is
    `w[idx 0] = 30`, the derivative.  The rule before /repo 63a064e additionally reduced the message over
    the source's own variable: the scalar `w[2]+w[0]+w[1] = 60` for every entry. -/
theorem scatter_source_witness :
    marginal (cs ndiv) wsz3 wL3 3 noF 0
        (adjoint (cs ndiv) wsz3 wL3 3 (.sum 2 (.mul (.scat 2 1 [2, 0, 1] (.acc 0 [])) (.acc 1 []))) 0) z0 = 30 ∧
      sumM (cs ndiv) wsz3 3 noF
        (deriv (cs ndiv) wsz3 wL3 0 z0 (.sum 2 (.mul (.scat 2 1 [2, 0, 1] (.acc 0 [])) (.acc 1 [])))) z0 = 30 ∧
      sumM (cs ndiv) wsz3 3 (fun j => j == 1)
        (scatMsg 2 1 [2, 0, 1] (⟨fun j => j == 2, wL3.T 1⟩ : NT ℕ)).f z0 = 60 := by
  decide

/-- the hypotheses of `adjoint_sound` hold for that root (non-vacuity for the Scatter case) -/
example : Good ndiv wsz3 wL3 3 noF (.sum 2 (.mul (.scat 2 1 [2, 0, 1] (.acc 0 [])) (.acc 1 []))) := by
  refine ⟨⟨⟨Or.inl rfl, by decide, by decide, rfl, rfl, by decide, by decide, ?_⟩, Or.inl rfl⟩, by decide, rfl⟩
  intro j hj
  have : j < 3 := hj
  match j, this with
  | 0, _ => decide
  | 1, _ => decide
  | 2, _ => decide


end FV.Props.C11
