/-
  Props/C11.lean — adjoints are semiring derivatives of the forward value.

  All theorems are over an arbitrary commutative semiring `R` (Mathlib `CommSemiring`), for
  expressions of any size, any number of variables and any variable sizes.
-/
import FunsorVerif.Model.C11
import Mathlib.Algebra.BigOperators.Ring.Finset
import Mathlib.Algebra.BigOperators.Group.Finset.Sigma
import Mathlib.Tactic.Ring
namespace FV.Props.C11
open FV.C11 Finset

variable {R : Type} [CommSemiring R]

/-- the operations of a commutative semiring, with any candidate `div` for the plate rule -/
def cs (dv : R → R → R) : Ops R := ⟨(· + ·), (· * ·), 0, 1, dv⟩

variable (dv : R → R → R) (sz : Nat → Nat)

/-! ### finite sums -/

theorem sumTo_eq (n : Nat) (g : Nat → R) : sumTo (cs dv) n g = ∑ k ∈ range n, g k := by
  induction n with
  | zero => simp [sumTo, cs]
  | succ n ih => rw [sumTo, ih, sum_range_succ]; rfl

theorem prodTo_eq (n : Nat) (g : Nat → R) : prodTo (cs dv) n g = ∏ k ∈ range n, g k := by
  induction n with
  | zero => simp [prodTo, cs]
  | succ n ih => rw [prodTo, ih, prod_range_succ]; rfl

theorem upd_same (env : Env) (v a b : Nat) : upd (upd env v a) v b = upd env v b := by
  funext i; simp only [upd]; split <;> rfl

theorem upd_comm (env : Env) {v w : Nat} (h : v ≠ w) (a b : Nat) :
    upd (upd env v a) w b = upd (upd env w b) v a := by
  funext i; simp only [upd]
  by_cases h1 : i = w <;> by_cases h2 : i = v <;> simp [h1, h2]
  · subst h1; subst h2; exact absurd rfl h
  · intro h3; exact absurd h3.symm h
  · intro h3; exact absurd h3 h

theorem upd_self (env : Env) (v : Nat) : upd env v (env v) = env := by
  funext i; simp only [upd]; split
  · next h => rw [h]
  · rfl

theorem upd_at (env : Env) (v k : Nat) : upd env v k v = k := by simp [upd]
theorem upd_ne (env : Env) {v i : Nat} (k : Nat) (h : i ≠ v) : upd env v k i = env i := by simp [upd, h]

/-- `g` does not depend on variable `v` -/
def Indep (g : Env → R) (v : Nat) : Prop := ∀ env k, g (upd env v k) = g env

theorem sum1_apply (v : Nat) (g : Env → R) (env : Env) :
    sum1 (cs dv) sz v g env = ∑ k ∈ range (sz v), g (upd env v k) := by
  simp only [sum1, sumTo_eq]

theorem sum1_indep_self (v : Nat) (g : Env → R) : Indep (sum1 (cs dv) sz v g) v := by
  intro env k; simp only [sum1_apply, upd_same]

theorem sum1_indep {v w : Nat} (g : Env → R) (h : Indep g w) : Indep (sum1 (cs dv) sz v g) w := by
  by_cases hvw : v = w
  · subst hvw; exact sum1_indep_self dv sz v g
  · intro env k; simp only [sum1_apply]
    apply sum_congr rfl; intro j _
    rw [upd_comm env (Ne.symm hvw), h]

theorem sum1_comm (v w : Nat) (g : Env → R) :
    sum1 (cs dv) sz v (sum1 (cs dv) sz w g) = sum1 (cs dv) sz w (sum1 (cs dv) sz v g) := by
  by_cases hvw : v = w
  · subst hvw; rfl
  · funext env; simp only [sum1_apply]
    rw [sum_comm]
    apply sum_congr rfl; intro j _; apply sum_congr rfl; intro i _
    rw [upd_comm env hvw]

theorem sum1_add (v : Nat) (g h : Env → R) :
    sum1 (cs dv) sz v (fun e => g e + h e) = fun e => sum1 (cs dv) sz v g e + sum1 (cs dv) sz v h e := by
  funext env; simp only [sum1_apply, sum_add_distrib]

theorem sum1_mul_left (v : Nat) (c g : Env → R) (hc : Indep c v) :
    sum1 (cs dv) sz v (fun e => c e * g e) = fun e => c e * sum1 (cs dv) sz v g e := by
  funext env; simp only [sum1_apply, mul_sum]
  apply sum_congr rfl; intro k _; rw [hc]

/-! ### sums over a mask of variables -/

theorem sumM_succ (n : Nat) (m : Mask) (g : Env → R) :
    sumM (cs dv) sz (n + 1) m g = sumM (cs dv) sz n m (if m n then sum1 (cs dv) sz n g else g) := rfl

theorem sumM_congr_mask {n : Nat} {m m' : Mask} (h : ∀ k, k < n → m k = m' k) (g : Env → R) :
    sumM (cs dv) sz n m g = sumM (cs dv) sz n m' g := by
  induction n generalizing g with
  | zero => rfl
  | succ n ih =>
    rw [sumM_succ, sumM_succ, h n (Nat.lt_succ_self n)]
    exact ih (fun k hk => h k (Nat.lt_succ_of_lt hk)) _

theorem sumM_false {n : Nat} {m : Mask} (h : ∀ k, k < n → m k = false) (g : Env → R) :
    sumM (cs dv) sz n m g = g := by
  induction n generalizing g with
  | zero => rfl
  | succ n ih =>
    rw [sumM_succ, h n (Nat.lt_succ_self n)]
    exact ih (fun k hk => h k (Nat.lt_succ_of_lt hk)) _

theorem sumM_add (n : Nat) (m : Mask) (g h : Env → R) :
    sumM (cs dv) sz n m (fun e => g e + h e) =
      fun e => sumM (cs dv) sz n m g e + sumM (cs dv) sz n m h e := by
  induction n generalizing g h with
  | zero => rfl
  | succ n ih =>
    simp only [sumM_succ]
    cases m n
    · simpa using ih g h
    · simp only [if_true]; rw [sum1_add]; exact ih _ _

theorem sumM_mul_left (n : Nat) (m : Mask) (c g : Env → R)
    (hc : ∀ k, k < n → m k = true → Indep c k) :
    sumM (cs dv) sz n m (fun e => c e * g e) = fun e => c e * sumM (cs dv) sz n m g e := by
  induction n generalizing g with
  | zero => rfl
  | succ n ih =>
    have hc' : ∀ k, k < n → m k = true → Indep c k := fun k hk => hc k (Nat.lt_succ_of_lt hk)
    simp only [sumM_succ]
    cases hm : m n
    · simpa using ih g hc'
    · simp only [if_true]
      rw [sum1_mul_left dv sz n c g (hc n (Nat.lt_succ_self n) hm)]
      exact ih _ hc'

theorem sum1_sumM_comm {n v : Nat} (hv : n ≤ v) (m : Mask) (g : Env → R) :
    sum1 (cs dv) sz v (sumM (cs dv) sz n m g) = sumM (cs dv) sz n m (sum1 (cs dv) sz v g) := by
  induction n generalizing g with
  | zero => rfl
  | succ n ih =>
    simp only [sumM_succ]
    rw [ih (Nat.le_of_succ_le hv)]
    cases m n
    · simp
    · simp only [if_true]; rw [sum1_comm]

theorem sumM_split {n : Nat} {m1 m2 : Mask} (hd : ∀ k, k < n → ¬ (m1 k = true ∧ m2 k = true))
    (g : Env → R) :
    sumM (cs dv) sz n (fun k => m1 k || m2 k) g = sumM (cs dv) sz n m1 (sumM (cs dv) sz n m2 g) := by
  induction n generalizing g with
  | zero => rfl
  | succ n ih =>
    have hd' : ∀ k, k < n → ¬ (m1 k = true ∧ m2 k = true) := fun k hk => hd k (Nat.lt_succ_of_lt hk)
    have hn := hd n (Nat.lt_succ_self n)
    simp only [sumM_succ]
    cases h1 : m1 n <;> cases h2 : m2 n
    · simpa using ih hd' g
    · simpa using ih hd' _
    · simp only [Bool.true_or, if_true, Bool.false_eq_true, if_false]
      rw [sum1_sumM_comm dv sz (Nat.le_refl n)]
      exact ih hd' _
    · exact absurd ⟨h1, h2⟩ hn

theorem sumM_indep_out (n : Nat) (m : Mask) (g : Env → R) {k : Nat} (h : Indep g k) :
    Indep (sumM (cs dv) sz n m g) k := by
  induction n generalizing g with
  | zero => exact h
  | succ n ih =>
    simp only [sumM_succ]
    cases m n
    · simpa using ih g h
    · simp only [if_true]; exact ih _ (sum1_indep dv sz g h)

theorem sumM_indep_in {n : Nat} {m : Mask} (g : Env → R) {k : Nat} (hk : k < n) (hm : m k = true) :
    Indep (sumM (cs dv) sz n m g) k := by
  induction n generalizing g with
  | zero => omega
  | succ n ih =>
    simp only [sumM_succ]
    by_cases hkn : k = n
    · subst hkn; rw [hm]; simp only [if_true]
      exact sumM_indep_out dv sz _ m _ (sum1_indep_self dv sz k g)
    · exact ih _ (by omega)

theorem sumM_single {n v : Nat} (hv : v < n) (g : Env → R) :
    sumM (cs dv) sz n (fun k => k == v) g = sum1 (cs dv) sz v g := by
  induction n generalizing g with
  | zero => omega
  | succ n ih =>
    simp only [sumM_succ]
    by_cases hvn : v = n
    · subst hvn; simp only [beq_self_eq_true, if_true]
      exact sumM_false dv sz (fun k hk => by simp; omega) _
    · have : (n == v) = false := by simp; omega
      rw [this]; simp only [Bool.false_eq_true, if_false]
      exact ih (by omega) g

/-- adding one more variable to the mask = summing over it first -/
theorem sumM_insert {n v : Nat} {m : Mask} (hv : v < n) (hm : m v = false) (g : Env → R) :
    sumM (cs dv) sz n m (sum1 (cs dv) sz v g) = sumM (cs dv) sz n (fun k => m k || k == v) g := by
  rw [sumM_split dv sz (m1 := m) (m2 := fun k => k == v), sumM_single dv sz hv]
  intro k _ ⟨h1, h2⟩
  have : k = v := by simpa using h2
  subst this; rw [hm] at h1; exact absurd h1 (by simp)

/-- congruence that only looks at environments reachable from `env` by changing summed variables -/
theorem sumM_congr_on {n : Nat} {m : Mask} {g h : Env → R} {env : Env}
    (H : ∀ env', (∀ k, (k < n ∧ m k = true) ∨ env' k = env k) → g env' = h env') :
    sumM (cs dv) sz n m g env = sumM (cs dv) sz n m h env := by
  induction n generalizing g h with
  | zero => exact H env (fun k => Or.inr rfl)
  | succ n ih =>
    simp only [sumM_succ]
    cases hm : m n
    · simp only [Bool.false_eq_true, if_false]
      apply ih; intro env' he
      apply H; intro k
      rcases he k with ⟨h1, h2⟩ | h1
      · exact Or.inl ⟨Nat.lt_succ_of_lt h1, h2⟩
      · exact Or.inr h1
    · simp only [if_true]
      apply ih; intro env' he
      simp only [sum1_apply]
      apply sum_congr rfl; intro j _
      apply H; intro k
      by_cases hkn : k = n
      · subst hkn; exact Or.inl ⟨Nat.lt_succ_self _, hm⟩
      · rw [upd_ne _ _ hkn]
        rcases he k with ⟨h1, h2⟩ | h1
        · exact Or.inl ⟨Nat.lt_succ_of_lt h1, h2⟩
        · exact Or.inr h1

/-- a summand that vanishes unless the summed variables have the values they have in `env`
    collapses the sum to its value at `env` -/
theorem sumM_point {n : Nat} {m : Mask} {g : Env → R} {env : Env}
    (hr : ∀ k, k < n → m k = true → env k < sz k)
    (hz : ∀ env', (∃ k, k < n ∧ m k = true ∧ env' k ≠ env k) → g env' = 0) :
    sumM (cs dv) sz n m g env = g env := by
  induction n generalizing g with
  | zero => rfl
  | succ n ih =>
    have hr' : ∀ k, k < n → m k = true → env k < sz k := fun k hk => hr k (Nat.lt_succ_of_lt hk)
    simp only [sumM_succ]
    cases hm : m n
    · simp only [Bool.false_eq_true, if_false]
      apply ih hr'
      intro env' ⟨k, hk, hmk, hne⟩
      exact hz env' ⟨k, Nat.lt_succ_of_lt hk, hmk, hne⟩
    · simp only [if_true]
      rw [ih hr']
      · rw [sum1_apply, sum_eq_single (env n)]
        · rw [upd_self]
        · intro j _ hj
          apply hz; refine ⟨n, Nat.lt_succ_self _, hm, ?_⟩
          rw [upd_at]; exact hj
        · intro hnot
          exact absurd (mem_range.mpr (hr n (Nat.lt_succ_self _) hm)) hnot
      · intro env' ⟨k, hk, hmk, hne⟩
        rw [sum1_apply]
        apply sum_eq_zero; intro j _
        apply hz; refine ⟨k, Nat.lt_succ_of_lt hk, hmk, ?_⟩
        rw [upd_ne _ _ (by omega : k ≠ n)]; exact hne

theorem sumM_zero (n : Nat) (m : Mask) : sumM (cs dv) sz n m (fun _ => (0 : R)) = fun _ => 0 := by
  induction n with
  | zero => rfl
  | succ n ih =>
    simp only [sumM_succ]
    cases m n
    · simpa using ih
    · simp only [if_true]
      have : sum1 (cs dv) sz n (fun _ => (0 : R)) = fun _ => 0 := by
        funext env; simp [sum1_apply]
      rw [this]; exact ih

theorem prod_except {n j : Nat} (hj : j < n) (g : Nat → R) :
    (∏ i ∈ range n, if i = j then 1 else g i) * g j = ∏ i ∈ range n, g i := by
  have hmem : j ∈ range n := mem_range.mpr hj
  rw [← mul_prod_erase (range n) g hmem, mul_comm]
  congr 1
  rw [← prod_erase (range n) (a := j) (by simp)]
  apply prod_congr rfl
  intro i hi
  have : i ≠ j := (mem_erase.mp hi).1
  simp [this]

/-! ### the model: dependence on variables -/

variable (L : Leaves R)

/-- side conditions on the leaves: a table depends only on its own axes, all names are `< n` -/
structure WFL (n : Nat) (L : Leaves R) : Prop where
  hT : ∀ id k, nameMask L id k = false → Indep (L.T id) k
  hn : ∀ id k, nameMask L id k = true → k < n

/-- Hypotheses of `adjoint_sound`, each forced by the proof (and each violated by a concrete input on
    which the reverse sweep of the pinned code returns a wrong value — see the witness theorems and
    the dedicated streams of fv/harness/c11.py):
      * ⊕ only between operands with the same inputs up to the root's inputs,
      * binders bind a variable that occurs and that is not an input of the root,
      * a product-reduced argument is nowhere zero (the plate rule divides),
      * (partial) leaves are read directly: `Subs` and `Cat` nodes are covered by correspondence only. -/
def Good (n : Nat) (F : Mask) : Expr → Prop
  | .acc _ σ => σ = []
  | .add l r => Good n F l ∧ Good n F r ∧ ∀ k, (fvMask L l k || F k) = (fvMask L r k || F k)
  | .mul l r => Good n F l ∧ Good n F r
  | .sum v e => Good n F e ∧ fvMask L e v = true ∧ F v = false
  | .prod v e => Good n F e ∧ fvMask L e v = true ∧ F v = false ∧
      ∀ env, eval (cs dv) sz L e env ≠ 0
  | .cat _ _ => False

theorem substEnv_nil (env : Env) : substEnv [] env = env := by
  funext k; simp [substEnv]

omit [CommSemiring R] in
theorem fvMask_acc_nil (id k : Nat) : fvMask L (.acc id []) k = nameMask L id k := by
  simp [fvMask, Subst.keys, Subst.valvars]

theorem fv_lt {n : Nat} {F : Mask} (hW : WFL n L) :
    ∀ e, Good dv sz L n F e → ∀ k, fvMask L e k = true → k < n := by
  intro e
  induction e with
  | acc id σ =>
    intro hg k hk; simp only [Good] at hg; subst hg
    rw [fvMask_acc_nil] at hk; exact hW.hn id k hk
  | add l r ihl ihr =>
    intro hg k hk; simp only [fvMask, Bool.or_eq_true] at hk
    rcases hk with h | h
    · exact ihl hg.1 k h
    · exact ihr hg.2.1 k h
  | mul l r ihl ihr =>
    intro hg k hk; simp only [fvMask, Bool.or_eq_true] at hk
    rcases hk with h | h
    · exact ihl hg.1 k h
    · exact ihr hg.2 k h
  | sum v e ih =>
    intro hg k hk; simp only [fvMask, Bool.and_eq_true] at hk
    exact ih hg.1 k hk.1
  | prod v e ih =>
    intro hg k hk; simp only [fvMask, Bool.and_eq_true] at hk
    exact ih hg.1 k hk.1
  | cat v parts => intro hg; exact absurd hg (by simp [Good])

theorem eval_indep {n : Nat} {F : Mask} (hW : WFL n L) :
    ∀ e, Good dv sz L n F e → ∀ k, fvMask L e k = false → Indep (eval (cs dv) sz L e) k := by
  intro e
  induction e with
  | acc id σ =>
    intro hg k hk env j; simp only [Good] at hg; subst hg
    rw [fvMask_acc_nil] at hk
    simp only [eval, substEnv_nil]; exact hW.hT id k hk env j
  | add l r ihl ihr =>
    intro hg k hk env j; simp only [fvMask, Bool.or_eq_false_iff] at hk
    simp only [eval]; rw [ihl hg.1 k hk.1 env j, ihr hg.2.1 k hk.2 env j]
  | mul l r ihl ihr =>
    intro hg k hk env j; simp only [fvMask, Bool.or_eq_false_iff] at hk
    simp only [eval]; rw [ihl hg.1 k hk.1 env j, ihr hg.2 k hk.2 env j]
  | sum v e ih =>
    intro hg k hk env j
    simp only [eval, sumTo_eq]
    apply sum_congr rfl; intro i _
    by_cases hkv : k = v
    · subst hkv; rw [upd_same]
    · have : fvMask L e k = false := by
        simp only [fvMask, Bool.and_eq_false_iff] at hk
        rcases hk with h | h
        · exact h
        · simp at h; exact absurd h hkv
      rw [upd_comm env hkv, ih hg.1 k this]
  | prod v e ih =>
    intro hg k hk env j
    simp only [eval, prodTo_eq]
    apply prod_congr rfl; intro i _
    by_cases hkv : k = v
    · subst hkv; rw [upd_same]
    · have : fvMask L e k = false := by
        simp only [fvMask, Bool.and_eq_false_iff] at hk
        rcases hk with h | h
        · exact h
        · simp at h; exact absurd h hkv
      rw [upd_comm env hkv, ih hg.1 k this]
  | cat v parts => intro hg; exact absurd hg (by simp [Good])

theorem deriv_indep {n : Nat} {F : Mask} (hW : WFL n L) (id : Nat) (p : Env) :
    ∀ e, Good dv sz L n F e → ∀ k, fvMask L e k = false →
      Indep (deriv (cs dv) sz L id p e) k := by
  intro e
  induction e with
  | acc id' σ =>
    intro hg k hk env j; simp only [Good] at hg; subst hg
    rw [fvMask_acc_nil] at hk
    simp only [deriv, substEnv_nil]
    by_cases hid : id' = id
    · subst hid
      have : hits (L.names id') (upd env k j) p = hits (L.names id') env p := by
        have hik : ∀ i ∈ L.names id', i ≠ k := by
          intro i hi h; subst h
          have : nameMask L id' i = true := by simp [nameMask, hi]
          rw [this] at hk; exact absurd hk (by simp)
        simp only [hits]
        rw [Bool.eq_iff_iff]; simp only [List.all_eq_true]
        constructor
        · intro h i hi; have := h i hi; rwa [upd_ne _ _ (hik i hi)] at this
        · intro h i hi; rw [upd_ne _ _ (hik i hi)]; exact h i hi
      rw [this]
    · simp [hid]
  | add l r ihl ihr =>
    intro hg k hk env j; simp only [fvMask, Bool.or_eq_false_iff] at hk
    simp only [deriv]; rw [ihl hg.1 k hk.1 env j, ihr hg.2.1 k hk.2 env j]
  | mul l r ihl ihr =>
    intro hg k hk env j; simp only [fvMask, Bool.or_eq_false_iff] at hk
    simp only [deriv]
    rw [ihl hg.1 k hk.1 env j, ihr hg.2 k hk.2 env j,
      eval_indep dv sz L hW l hg.1 k hk.1 env j, eval_indep dv sz L hW r hg.2 k hk.2 env j]
  | sum v e ih =>
    intro hg k hk env j
    simp only [deriv, sumTo_eq]
    apply sum_congr rfl; intro i _
    by_cases hkv : k = v
    · subst hkv; rw [upd_same]
    · have : fvMask L e k = false := by
        simp only [fvMask, Bool.and_eq_false_iff] at hk
        rcases hk with h | h
        · exact h
        · simp at h; exact absurd h hkv
      rw [upd_comm env hkv, ih hg.1 k this]
  | prod v e ih =>
    intro hg k hk env j
    simp only [deriv, sumTo_eq, prodTo_eq]
    apply sum_congr rfl; intro i _
    by_cases hkv : k = v
    · subst hkv; simp only [upd_same]
    · have hfe : fvMask L e k = false := by
        simp only [fvMask, Bool.and_eq_false_iff] at hk
        rcases hk with h | h
        · exact h
        · simp at h; exact absurd h hkv
      rw [upd_comm env hkv, ih hg.1 k hfe]
      congr 1
      apply prod_congr rfl; intro i' _
      rw [upd_comm env hkv, eval_indep dv sz L hW e hg.1 k hfe]
  | cat v parts => intro hg; exact absurd hg (by simp [Good])

/-! ### the tape's aggregation step -/

omit [CommSemiring R] in
theorem hits_iff (names : List Nat) (q p : Env) :
    hits names q p = true ↔ ∀ k, k ∈ names → q k = p k := by
  simp [hits, List.all_eq_true]

/-- Summing the aggregated message against a weight that only depends on the recipient's variables is
    the same as summing the un-aggregated message over the larger variable set. -/
theorem agg_step {n : Nat} (F Vc : Mask) (b : NT R) (w : Env → R)
    (hw : ∀ k, Vc k = false → Indep w k) :
    sumM (cs dv) sz n (fun k => Vc k || F k)
        (fun env => (agg (cs dv) sz n F Vc b).f env * w env) =
      sumM (cs dv) sz n (fun k => (Vc k || F k) || (b.mask k && !Vc k && !F k))
        (fun env => b.f env * w env) := by
  rw [sumM_split dv sz (m1 := fun k => Vc k || F k) (m2 := fun k => b.mask k && !Vc k && !F k)]
  · congr 1
    have h := sumM_mul_left dv sz n (fun k => b.mask k && !Vc k && !F k) w b.f (by
      intro k _ hk
      apply hw
      simp only [Bool.and_eq_true, Bool.not_eq_true'] at hk
      exact hk.1.2)
    funext env
    have h' := congrFun h env
    simp only [agg]
    rw [mul_comm, ← h']
    congr 1; funext e; rw [mul_comm]
  · intro k _ ⟨h1, h2⟩
    simp only [Bool.and_eq_true, Bool.not_eq_true', Bool.or_eq_true] at h1 h2
    rcases h1 with h | h
    · rw [h2.1.2] at h; exact absurd h (by simp)
    · rw [h2.2] at h; exact absurd h (by simp)

theorem agg_ok {n : Nat} (F Vc : Mask) (b : NT R) (hb1 : ∀ k, b.mask k = true → k < n)
    (hb2 : ∀ k, b.mask k = false → Indep b.f k) :
    (∀ k, (agg (cs dv) sz n F Vc b).mask k = true → Vc k = true ∨ F k = true) ∧
    (∀ k, (agg (cs dv) sz n F Vc b).mask k = false → Indep (agg (cs dv) sz n F Vc b).f k) := by
  constructor
  · intro k hk
    simp only [agg, Bool.and_eq_true, Bool.or_eq_true] at hk
    exact hk.2
  · intro k hk
    simp only [agg] at hk ⊢
    cases hbk : b.mask k
    · exact sumM_indep_out dv sz n _ _ (hb2 k hbk)
    · apply sumM_indep_in dv sz _ (hb1 k hbk)
      rw [hbk] at hk
      simp only [Bool.true_and, Bool.or_eq_false_iff] at hk
      simp [hbk, hk.1, hk.2]

/-! ### soundness of the reverse sweep -/

theorem marginal_addNT (n : Nat) (F : Mask) (id : Nat) (x y : NT R) (p : Env) :
    marginal (cs dv) sz L n F id (addNT (cs dv) x y) p =
      marginal (cs dv) sz L n F id x p + marginal (cs dv) sz L n F id y p := by
  simp only [marginal, addNT]
  exact congrFun (sumM_add dv sz n _ x.f y.f) p

theorem adjoint_sound_gen {n : Nat} {F : Mask} (hW : WFL n L) (hF : ∀ k, F k = true → k < n)
    (hdv : ∀ x y : R, y ≠ 0 → dv (x * y) y = x)
    (id : Nat) (p : Env) (hp : ∀ k, nameMask L id k = true → p k < sz k) :
    ∀ e, Good dv sz L n F e → ∀ a : NT R,
      (∀ k, a.mask k = true → fvMask L e k = true ∨ F k = true) →
      (∀ k, a.mask k = false → Indep a.f k) →
      marginal (cs dv) sz L n F id (backward (cs dv) sz L n F e a id) p =
        sumM (cs dv) sz n (fun k => fvMask L e k || F k)
          (fun env => a.f env * deriv (cs dv) sz L id p e env) p := by
  intro e
  induction e with
  | acc id' σ =>
    intro hg a ha1 ha2
    simp only [Good] at hg; subst hg
    simp only [backward, List.isEmpty_nil, if_true, single]
    by_cases hid : id = id'
    · subst hid
      simp only [if_true, marginal]
      rw [sumM_congr_mask dv sz (m' := fun k => (F k && !nameMask L id k) || nameMask L id k)
        (fun k _ => by rw [fvMask_acc_nil]; cases F k <;> cases nameMask L id k <;> rfl)]
      rw [sumM_split dv sz (m1 := fun k => F k && !nameMask L id k) (m2 := nameMask L id)
        (fun k _ h => by
          have h1 := h.1; have h2 := h.2
          rw [h2] at h1; simp at h1)]
      apply sumM_congr_on
      intro env' he
      have hag : ∀ k, nameMask L id k = true → env' k = p k := by
        intro k hk
        rcases he k with ⟨_, h⟩ | h
        · rw [hk] at h; simp at h
        · exact h
      rw [sumM_point dv sz]
      · have : hits (L.names id) (substEnv [] env') p = true := by
          rw [hits_iff, substEnv_nil]; intro k hk
          exact hag k (by simp [nameMask, hk])
        simp only [deriv, this, and_self, if_true]
        show a.f env' = a.f env' * 1
        rw [mul_one]
      · intro k _ hk; rw [hag k hk]; exact hp k hk
      · intro env'' ⟨k, _, hk, hne⟩
        have : hits (L.names id) (substEnv [] env'') p = false := by
          rw [Bool.eq_false_iff]; intro h
          rw [hits_iff, substEnv_nil] at h
          have hk' : k ∈ L.names id := by simpa [nameMask] using hk
          exact hne (by rw [h k hk', hag k hk])
        simp only [deriv, this]
        show a.f env'' * (if id = id ∧ false = true then 1 else 0) = 0
        simp
    · simp only [if_neg hid, marginal, zeroNT]
      rw [sumM_zero]
      have : (fun env => a.f env * deriv (cs dv) sz L id p (.acc id' []) env) = fun _ => 0 := by
        funext env
        simp only [deriv]
        rw [if_neg (fun h => hid h.1.symm)]
        show a.f env * 0 = 0
        rw [mul_zero]
      rw [this, sumM_zero]
  | add l r ihl ihr =>
    intro hg a ha1 ha2
    obtain ⟨hgl, hgr, hsame⟩ := hg
    have han : ∀ k, a.mask k = true → k < n := by
      intro k hk
      rcases ha1 k hk with h | h
      · exact fv_lt dv sz L hW _ (show Good dv sz L n F (.add l r) from ⟨hgl, hgr, hsame⟩) k h
      · exact hF k h
    simp only [backward, addF]
    rw [marginal_addNT]
    obtain ⟨okl1, okl2⟩ := agg_ok dv sz F (fvMask L l) a han ha2
    obtain ⟨okr1, okr2⟩ := agg_ok dv sz F (fvMask L r) a han ha2
    rw [ihl hgl _ okl1 okl2, ihr hgr _ okr1 okr2]
    rw [agg_step dv sz F (fvMask L l) a _ (deriv_indep dv sz L hW id p l hgl),
        agg_step dv sz F (fvMask L r) a _ (deriv_indep dv sz L hW id p r hgr)]
    have hm : ∀ (c : Expr), (c = l ∨ c = r) → ∀ k, k < n →
        ((fvMask L c k || F k) || (a.mask k && !fvMask L c k && !F k)) =
          (fvMask L (.add l r) k || F k) := by
      intro c hc k _
      have h1 := ha1 k
      have h2 := hsame k
      simp only [fvMask] at h1 ⊢
      rcases hc with rfl | rfl <;>
        cases hl : fvMask L l k <;> cases hr : fvMask L c k <;> cases hf : F k <;>
        cases hak : a.mask k <;> simp_all
    rw [sumM_congr_mask dv sz (hm l (Or.inl rfl)), sumM_congr_mask dv sz (hm r (Or.inr rfl))]
    have := congrFun (sumM_add dv sz n (fun k => fvMask L (.add l r) k || F k)
      (fun env => a.f env * deriv (cs dv) sz L id p l env)
      (fun env => a.f env * deriv (cs dv) sz L id p r env)) p
    rw [← this]
    congr 1; funext env
    simp only [deriv]
    show a.f env * _ + a.f env * _ = a.f env * (_ + _)
    rw [mul_add]
  | mul l r ihl ihr =>
    intro hg a ha1 ha2
    obtain ⟨hgl, hgr⟩ := hg
    have hfv := fv_lt dv sz L hW _ (show Good dv sz L n F (.mul l r) from ⟨hgl, hgr⟩)
    have han : ∀ k, a.mask k = true → k < n := by
      intro k hk
      rcases ha1 k hk with h | h
      · exact hfv k h
      · exact hF k h
    simp only [backward, addF]
    rw [marginal_addNT]
    -- messages: out_adj ⊗ rhs  and  out_adj ⊗ lhs
    have hb1 : ∀ (c : Expr), (c = l ∨ c = r) → ∀ k,
        (mulNT (cs dv) a (valNT (cs dv) sz L c)).mask k = true → k < n := by
      intro c hc k hk
      simp only [mulNT, valNT, Bool.or_eq_true] at hk
      rcases hk with h | h
      · exact han k h
      · apply hfv; simp only [fvMask, Bool.or_eq_true]
        rcases hc with rfl | rfl
        · exact Or.inl h
        · exact Or.inr h
    have hb2 : ∀ (c : Expr), Good dv sz L n F c → ∀ k,
        (mulNT (cs dv) a (valNT (cs dv) sz L c)).mask k = false →
          Indep (mulNT (cs dv) a (valNT (cs dv) sz L c)).f k := by
      intro c hc k hk env j
      simp only [mulNT, valNT, Bool.or_eq_false_iff] at hk ⊢
      rw [ha2 k hk.1 env j, eval_indep dv sz L hW c hc k hk.2 env j]
    obtain ⟨okl1, okl2⟩ := agg_ok dv sz F (fvMask L l) _ (hb1 r (Or.inr rfl)) (hb2 r hgr)
    obtain ⟨okr1, okr2⟩ := agg_ok dv sz F (fvMask L r) _ (hb1 l (Or.inl rfl)) (hb2 l hgl)
    rw [ihl hgl _ okl1 okl2, ihr hgr _ okr1 okr2]
    rw [agg_step dv sz F (fvMask L l) _ _ (deriv_indep dv sz L hW id p l hgl),
        agg_step dv sz F (fvMask L r) _ _ (deriv_indep dv sz L hW id p r hgr)]
    have hml : ∀ k, k < n →
        ((fvMask L l k || F k) || ((mulNT (cs dv) a (valNT (cs dv) sz L r)).mask k && !fvMask L l k && !F k)) =
          (fvMask L (.mul l r) k || F k) := by
      intro k _
      have h1 := ha1 k
      simp only [fvMask, mulNT, valNT] at h1 ⊢
      cases hl : fvMask L l k <;> cases hr : fvMask L r k <;> cases hf : F k <;>
        cases hak : a.mask k <;> simp_all
    have hmr : ∀ k, k < n →
        ((fvMask L r k || F k) || ((mulNT (cs dv) a (valNT (cs dv) sz L l)).mask k && !fvMask L r k && !F k)) =
          (fvMask L (.mul l r) k || F k) := by
      intro k _
      have h1 := ha1 k
      simp only [fvMask, mulNT, valNT] at h1 ⊢
      cases hl : fvMask L l k <;> cases hr : fvMask L r k <;> cases hf : F k <;>
        cases hak : a.mask k <;> simp_all
    rw [sumM_congr_mask dv sz hml, sumM_congr_mask dv sz hmr]
    have := congrFun (sumM_add dv sz n (fun k => fvMask L (.mul l r) k || F k)
      (fun env => (mulNT (cs dv) a (valNT (cs dv) sz L r)).f env * deriv (cs dv) sz L id p l env)
      (fun env => (mulNT (cs dv) a (valNT (cs dv) sz L l)).f env * deriv (cs dv) sz L id p r env)) p
    rw [← this]
    congr 1; funext env
    simp only [deriv, mulNT, valNT]
    show a.f env * eval (cs dv) sz L r env * deriv (cs dv) sz L id p l env +
        a.f env * eval (cs dv) sz L l env * deriv (cs dv) sz L id p r env =
      a.f env * (deriv (cs dv) sz L id p l env * eval (cs dv) sz L r env +
        eval (cs dv) sz L l env * deriv (cs dv) sz L id p r env)
    ring
  | sum v e ih =>
    intro hg a ha1 ha2
    obtain ⟨hge, hv, hFv⟩ := hg
    have hfv := fv_lt dv sz L hW _ hge
    have hvn : v < n := hfv v hv
    have han : ∀ k, a.mask k = true → k < n := by
      intro k hk
      rcases ha1 k hk with h | h
      · simp only [fvMask, Bool.and_eq_true] at h; exact hfv k h.1
      · exact hF k h
    have hav : a.mask v = false := by
      cases h : a.mask v
      · rfl
      · rcases ha1 v h with h' | h'
        · simp [fvMask] at h'
        · rw [hFv] at h'; exact absurd h' (by simp)
    simp only [backward]
    obtain ⟨ok1, ok2⟩ := agg_ok dv sz F (fvMask L e) a han ha2
    rw [ih hge _ ok1 ok2, agg_step dv sz F (fvMask L e) a _ (deriv_indep dv sz L hW id p e hge)]
    have hm : ∀ k, k < n →
        ((fvMask L e k || F k) || (a.mask k && !fvMask L e k && !F k)) =
          ((fvMask L (.sum v e) k || F k) || k == v) := by
      intro k _
      have h1 := ha1 k
      simp only [fvMask] at h1 ⊢
      by_cases hkv : k = v
      · subst hkv; simp [hv]
      · have : (k == v) = false := by simp [hkv]
        cases he : fvMask L e k <;> cases hf : F k <;> cases hak : a.mask k <;> simp_all
    rw [sumM_congr_mask dv sz hm]
    rw [← sumM_insert dv sz hvn (by simp [fvMask, hFv])]
    congr 1
    rw [← sum1_mul_left dv sz v a.f _ (ha2 v hav)]
    rfl
  | prod v e ih =>
    intro hg a ha1 ha2
    obtain ⟨hge, hv, hFv, hnz⟩ := hg
    have hgp : Good dv sz L n F (.prod v e) := ⟨hge, hv, hFv, hnz⟩
    have hfv := fv_lt dv sz L hW _ hge
    have hvn : v < n := hfv v hv
    have han : ∀ k, a.mask k = true → k < n := by
      intro k hk
      rcases ha1 k hk with h | h
      · simp only [fvMask, Bool.and_eq_true] at h; exact hfv k h.1
      · exact hF k h
    have hav : a.mask v = false := by
      cases h : a.mask v
      · rfl
      · rcases ha1 v h with h' | h'
        · simp [fvMask] at h'
        · rw [hFv] at h'; exact absurd h' (by simp)
    simp only [backward]
    -- the message  safediv(out_adj ⊗ out, arg)
    have hb1 : ∀ k, (divNT (cs dv) (mulNT (cs dv) a (valNT (cs dv) sz L (.prod v e)))
        (valNT (cs dv) sz L e)).mask k = true → k < n := by
      intro k hk
      simp only [divNT, mulNT, valNT, fvMask, Bool.or_eq_true, Bool.and_eq_true] at hk
      rcases hk with (h | h) | h
      · exact han k h
      · exact hfv k h.1
      · exact hfv k h
    have hb2 : ∀ k, (divNT (cs dv) (mulNT (cs dv) a (valNT (cs dv) sz L (.prod v e)))
        (valNT (cs dv) sz L e)).mask k = false →
        Indep (divNT (cs dv) (mulNT (cs dv) a (valNT (cs dv) sz L (.prod v e)))
          (valNT (cs dv) sz L e)).f k := by
      intro k hk env j
      simp only [divNT, mulNT, valNT, Bool.or_eq_false_iff] at hk ⊢
      rw [ha2 k hk.1.1 env j, eval_indep dv sz L hW _ hgp k hk.1.2 env j,
        eval_indep dv sz L hW e hge k hk.2 env j]
    obtain ⟨ok1, ok2⟩ := agg_ok dv sz F (fvMask L e) _ hb1 hb2
    rw [ih hge _ ok1 ok2, agg_step dv sz F (fvMask L e) _ _ (deriv_indep dv sz L hW id p e hge)]
    have hm : ∀ k, k < n →
        ((fvMask L e k || F k) || ((divNT (cs dv) (mulNT (cs dv) a (valNT (cs dv) sz L (.prod v e)))
          (valNT (cs dv) sz L e)).mask k && !fvMask L e k && !F k)) =
          ((fvMask L (.prod v e) k || F k) || k == v) := by
      intro k _
      have h1 := ha1 k
      simp only [fvMask, divNT, mulNT, valNT] at h1 ⊢
      by_cases hkv : k = v
      · subst hkv; simp [hv]
      · have : (k == v) = false := by simp [hkv]
        cases he : fvMask L e k <;> cases hf : F k <;> cases hak : a.mask k <;> simp_all
    rw [sumM_congr_mask dv sz hm]
    rw [← sumM_insert dv sz hvn (by simp [fvMask, hFv])]
    congr 1
    funext env
    rw [sum1_apply]
    simp only [deriv, divNT, mulNT, valNT, eval, sumTo_eq, prodTo_eq]
    show ∑ j ∈ range (sz v), dv (a.f (upd env v j) * ∏ i ∈ range (sz v),
          eval (cs dv) sz L e (upd (upd env v j) v i)) (eval (cs dv) sz L e (upd env v j)) *
          deriv (cs dv) sz L id p e (upd env v j) =
      a.f env * ∑ j ∈ range (sz v), deriv (cs dv) sz L id p e (upd env v j) *
          ∏ i ∈ range (sz v), (if i = j then 1 else eval (cs dv) sz L e (upd env v i))
    rw [mul_sum]
    apply sum_congr rfl
    intro j hj
    have hj' : j < sz v := mem_range.mp hj
    simp only [upd_same]
    rw [ha2 v hav env j]
    rw [← prod_except hj' (fun i => eval (cs dv) sz L e (upd env v i))]
    rw [← mul_assoc, hdv _ _ (hnz (upd env v j))]
    ring
  | cat v parts => intro hg; exact absurd hg (by simp [Good])

end FV.Props.C11
