import FunsorVerif.Model.C11
namespace FV.Props.C11
open FV.C11

theorem upd_same (env : Env) (v k : Nat) : upd env v k v = k := by simp [upd]

end FV.Props.C11
