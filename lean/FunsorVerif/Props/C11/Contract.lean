/-
  Props/C11/Contract.lean — the one-shot rules of funsor/adjoint.py on nodes that reduce a *set* of
  variables (Model/C11Contract.lean) refine the nested one-variable sweep of Model/C11.lean, and are
  therefore sound.

    agg_id                   the tape's aggregation does nothing to a message all of whose inputs the
                             recipient or the root has
    fv_sumL                  inputs of `Reduce(⊕, e, vs)` = inputs of `e` minus `vs`
    backward_sumL            sweeping an admissible adjoint through the nested binders of a sum-reduction
                             leaves it unchanged: the binders are transparent
    contract_eq_nested       `adjoint_contract` (binary Contraction, operands in the code's order
                             `out_adj ⊗ rhs`, `lhs ⊗ out_adj`) = the nested sweep of `sum vs (mul l r)`
    reduce_eq_nested         `adjoint_contract_unary` / `adjoint_reduce` (sum branch) = the nested sweep
    good_sumL, ptok_sumL     the side conditions of the nested form, from those of the set form
    contract_adjoint_sound   the leaf adjoints `adjoint_contract` produces are the semiring derivative of
                             `⨁_vs l ⊗ r`, for any commutative semiring, any set `vs`, any admissible
                             incoming adjoint
    reduce_adjoint_sound     the same for `Reduce(⊕, e, vs)`
    nested_plate_telescopes  the nested plate sweep (one `safediv` per binder) delivers to the body what the
                             single message `safediv(a ⊗ Reduce(⊗, e, vs), e)` delivers
    plate_adjoint_sound      `adjoint_reduce`, plate branch, on a non-empty set `vs`: sound under nowhere-zero
-/
import FunsorVerif.Model.C11Contract
import FunsorVerif.Props.C11
namespace FV.Props.C11.Contract
open FV.C11 FV.C11.Contract FV.Props.C11

set_option linter.unusedSectionVars false

variable {R : Type} [CommSemiring R] (dv : R → R → R) (sz : Nat → Nat) (L : Leaves R)

theorem NT_ext (x y : NT R) (hm : ∀ k, x.mask k = y.mask k) (hf : ∀ env, x.f env = y.f env) : x = y := by
  cases x; cases y
  simp only [NT.mk.injEq]
  exact ⟨funext hm, funext hf⟩

/-- A message whose inputs all belong to the recipient or the root passes the aggregation unchanged. -/
theorem agg_id {n : Nat} (F V : Mask) (a : NT R)
    (h : ∀ k, a.mask k = true → V k = true ∨ F k = true) :
    agg (cs dv) sz n F V a = a := by
  apply NT_ext
  · intro k
    simp only [agg]
    cases hA : a.mask k
    · rfl
    · rcases h k hA with h | h <;> simp [h]
  · intro env
    simp only [agg]
    rw [sumM_false dv sz (fun k _ => ?_)]
    cases hA : a.mask k
    · rfl
    · rcases h k hA with h | h <;> simp [h]

/-- inputs of `Reduce(⊕, e, vs)` -/
theorem fv_sumL (vs : List Nat) (e : Expr) (k : Nat) :
    fvMask L (sumL vs e) k = (fvMask L e k && !vs.contains k) := by
  induction vs with
  | nil => simp [sumL]
  | cons v vs ih =>
    simp only [sumL, fvMask, ih, List.contains_cons]
    cases fvMask L e k <;> cases vs.contains k <;> cases hkv : (k == v) <;> simp [bne, hkv]

/-- The binders of a sum-reduction are transparent to an admissible adjoint. -/
theorem backward_sumL {n : Nat} (F : Mask) (vs : List Nat) (e : Expr) (a : NT R)
    (ha : ∀ k, a.mask k = true → fvMask L (sumL vs e) k = true ∨ F k = true) :
    backward (cs dv) sz L n F (sumL vs e) a = backward (cs dv) sz L n F e a := by
  induction vs with
  | nil => rfl
  | cons v vs ih =>
    have ha' : ∀ k, a.mask k = true → fvMask L (sumL vs e) k = true ∨ F k = true := by
      intro k hk
      rcases ha k hk with h | h
      · left
        simp only [sumL, fvMask, Bool.and_eq_true] at h
        exact h.1
      · exact Or.inr h
    show backward (cs dv) sz L n F (sumL vs e)
        (agg (cs dv) sz n F (fvMask L (sumL vs e)) a) = _
    rw [agg_id dv sz F _ a ha']
    exact ih ha'

/-- **`adjoint_contract` = nested sweep.**  The rule the code applies to the single tape entry of
    `Contraction(⊕, ⊗, vs, l, r)` yields, for every leaf, the same named tensor as sweeping through
    `sum v1 (… (sum vm (mul l r)))` one binder at a time. -/
theorem contract_eq_nested {n : Nat} (F : Mask) (vs : List Nat) (l r : Expr) (a : NT R)
    (ha : ∀ k, a.mask k = true → fvMask L (sumL vs (.mul l r)) k = true ∨ F k = true) :
    contractBack (cs dv) sz L n F vs l r a =
      backward (cs dv) sz L n F (sumL vs (.mul l r)) a := by
  rw [backward_sumL dv sz L F vs (.mul l r) a ha]
  have hc : mulNT (cs dv) (valNT (cs dv) sz L l) a = mulNT (cs dv) a (valNT (cs dv) sz L l) := by
    apply NT_ext
    · intro k; exact Bool.or_comm _ _
    · intro env; exact mul_comm _ _
  simp only [contractBack, backward, hc]

/-- **`adjoint_reduce` (sum branch) / `adjoint_contract_unary` = nested sweep.** -/
theorem reduce_eq_nested {n : Nat} (F : Mask) (vs : List Nat) (e : Expr) (a : NT R)
    (ha : ∀ k, a.mask k = true → fvMask L (sumL vs e) k = true ∨ F k = true) :
    reduceBack (cs dv) sz L n F vs e a = backward (cs dv) sz L n F (sumL vs e) a := by
  rw [backward_sumL dv sz L F vs e a ha]
  simp only [reduceBack]
  rw [agg_id dv sz F _ a]
  intro k hk
  rcases ha k hk with h | h
  · left
    rw [fv_sumL, Bool.and_eq_true] at h
    exact h.1
  · exact Or.inr h

/-- side conditions of the set form: the reduced variables are distinct, occur in the body, and are not
    inputs of the root -/
def SetOK (F : Mask) (vs : List Nat) (e : Expr) : Prop :=
  vs.Nodup ∧ ∀ v, v ∈ vs → fvMask L e v = true ∧ F v = false

theorem good_sumL {n : Nat} (F : Mask) (vs : List Nat) (e : Expr)
    (hg : Good dv sz L n F e) (hs : SetOK L F vs e) : Good dv sz L n F (sumL vs e) := by
  induction vs with
  | nil => exact hg
  | cons v vs ih =>
    obtain ⟨hnd, hvs⟩ := hs
    have hnd' := List.nodup_cons.mp hnd
    refine ⟨ih ⟨hnd'.2, fun w hw => hvs w (List.mem_cons_of_mem _ hw)⟩, ?_, (hvs v List.mem_cons_self).2⟩
    rw [fv_sumL, (hvs v List.mem_cons_self).1]
    simp [hnd'.1]

theorem ptok_sumL (id : Nat) (p : Env) (vs : List Nat) (e : Expr) (h : PtOK sz L id p e) :
    PtOK sz L id p (sumL vs e) := by
  induction vs with
  | nil => exact h
  | cons v vs ih => exact ih

/-- **Soundness of `adjoint_contract`.**  For `Contraction(⊕, ⊗, vs, l, r)` anywhere below a root with
    inputs `F`, any admissible incoming adjoint `a` and any entry `p` of any leaf `id`: what the rule sends
    down (through the sound sweeps of the operands) and the tape marginalises onto the leaf equals the
    incoming adjoint times the semiring derivative of `⨁_vs l ⊗ r` with respect to that entry. -/
theorem contract_adjoint_sound {n : Nat} {F : Mask} (hW : WFL n L) (hF : ∀ k, F k = true → k < n)
    (hdv : ∀ x y : R, y ≠ 0 → dv (x * y) y = x)
    (id : Nat) (p : Env) (vs : List Nat) (l r : Expr)
    (hgl : Good dv sz L n F l) (hgr : Good dv sz L n F r) (hs : SetOK L F vs (.mul l r))
    (hpl : PtOK sz L id p l) (hpr : PtOK sz L id p r)
    (a : NT R)
    (ha1 : ∀ k, a.mask k = true → fvMask L (sumL vs (.mul l r)) k = true ∨ F k = true)
    (ha2 : ∀ k, a.mask k = false → Indep a.f k) :
    marginal (cs dv) sz L n F id (contractBack (cs dv) sz L n F vs l r a id) p =
      sumM (cs dv) sz n (fun k => fvMask L (sumL vs (.mul l r)) k || F k)
        (fun env => a.f env * deriv (cs dv) sz L id p (sumL vs (.mul l r)) env) p := by
  rw [contract_eq_nested dv sz L F vs l r a ha1]
  exact adjoint_sound_gen dv sz L hW hF hdv id p (sumL vs (.mul l r))
    (good_sumL dv sz L F vs (.mul l r) ⟨hgl, hgr⟩ hs)
    (ptok_sumL sz L id p vs (.mul l r) ⟨hpl, hpr⟩) a ha1 ha2

/-- **Soundness of `adjoint_reduce` (sum branch) on a set of variables.** -/
theorem reduce_adjoint_sound {n : Nat} {F : Mask} (hW : WFL n L) (hF : ∀ k, F k = true → k < n)
    (hdv : ∀ x y : R, y ≠ 0 → dv (x * y) y = x)
    (id : Nat) (p : Env) (vs : List Nat) (e : Expr)
    (hg : Good dv sz L n F e) (hs : SetOK L F vs e) (hp : PtOK sz L id p e)
    (a : NT R)
    (ha1 : ∀ k, a.mask k = true → fvMask L (sumL vs e) k = true ∨ F k = true)
    (ha2 : ∀ k, a.mask k = false → Indep a.f k) :
    marginal (cs dv) sz L n F id (reduceBack (cs dv) sz L n F vs e a id) p =
      sumM (cs dv) sz n (fun k => fvMask L (sumL vs e) k || F k)
        (fun env => a.f env * deriv (cs dv) sz L id p (sumL vs e) env) p := by
  rw [reduce_eq_nested dv sz L F vs e a ha1]
  exact adjoint_sound_gen dv sz L hW hF hdv id p (sumL vs e)
    (good_sumL dv sz L F vs e hg hs) (ptok_sumL sz L id p vs e hp) a ha1 ha2

/-! ### the plate rule on a set of variables: one division instead of one per variable -/

section plate
open Finset

/-- congruence of the masked sum on the points it actually visits: summed variables in range, the
    others as in `env` -/
theorem sumM_congr_range {n : Nat} {m : Mask} {g h : Env → R} {env : Env}
    (H : ∀ env', (∀ k, k < n → m k = true → env' k < sz k) →
      (∀ k, (k < n ∧ m k = true) ∨ env' k = env k) → g env' = h env') :
    sumM (cs dv) sz n m g env = sumM (cs dv) sz n m h env := by
  induction n generalizing g h with
  | zero => exact H env (fun k hk => absurd hk (Nat.not_lt_zero k)) (fun k => Or.inr rfl)
  | succ n ih =>
    simp only [sumM_succ]
    cases hm : m n
    · simp only [Bool.false_eq_true, if_false]
      apply ih
      intro env' he1 he2
      apply H
      · intro k hk hmk
        have : k ≠ n := by intro h; subst h; rw [hm] at hmk; exact absurd hmk (by simp)
        exact he1 k (by omega) hmk
      · intro k
        rcases he2 k with ⟨h1, h2⟩ | h1
        · exact Or.inl ⟨Nat.lt_succ_of_lt h1, h2⟩
        · exact Or.inr h1
    · simp only [if_true]
      apply ih
      intro env' he1 he2
      simp only [sum1_apply]
      apply sum_congr rfl
      intro j hj
      apply H
      · intro k hk hmk
        by_cases hkn : k = n
        · subst hkn; rw [upd_at]; exact mem_range.mp hj
        · rw [upd_ne _ _ hkn]; exact he1 k (by omega) hmk
      · intro k
        by_cases hkn : k = n
        · subst hkn; exact Or.inl ⟨Nat.lt_succ_self _, hm⟩
        · rcases he2 k with ⟨h1, h2⟩ | h1
          · exact Or.inl ⟨Nat.lt_succ_of_lt h1, h2⟩
          · right; rw [upd_ne _ _ hkn]; exact h1

/-- inputs of `Reduce(⊗, e, vs)` -/
theorem fv_prodL (vs : List Nat) (e : Expr) (k : Nat) :
    fvMask L (prodL vs e) k = (fvMask L e k && !vs.contains k) := by
  induction vs with
  | nil => simp [prodL]
  | cons v vs ih =>
    simp only [prodL, fvMask, ih, List.contains_cons]
    cases fvMask L e k <;> cases vs.contains k <;> cases hkv : (k == v) <;> simp [bne, hkv]

theorem good_of_prodL {n : Nat} {F : Mask} (vs : List Nat) (e : Expr)
    (hg : Good dv sz L n F (prodL vs e)) : Good dv sz L n F e := by
  induction vs with
  | nil => exact hg
  | cons v vs ih => exact ih hg.1

/-- the plate message `safediv(a ⊗ X, Y)` for `inputs X ⊆ inputs Y` is admissible at `Y` -/
theorem plateMsg_adm {n : Nat} {F : Mask} (hW : WFL n L) (X Y : Expr)
    (hgX : Good dv sz L n F X) (hgY : Good dv sz L n F Y)
    (hXY : ∀ k, fvMask L X k = true → fvMask L Y k = true)
    (a : NT R)
    (ha1 : ∀ k, a.mask k = true → fvMask L X k = true ∨ F k = true)
    (ha2 : ∀ k, a.mask k = false → Indep a.f k) :
    (∀ k, (divNT (cs dv) (mulNT (cs dv) a (valNT (cs dv) sz L X)) (valNT (cs dv) sz L Y)).mask k = true →
        fvMask L Y k = true ∨ F k = true) ∧
    (∀ k, (divNT (cs dv) (mulNT (cs dv) a (valNT (cs dv) sz L X)) (valNT (cs dv) sz L Y)).mask k = false →
        Indep (divNT (cs dv) (mulNT (cs dv) a (valNT (cs dv) sz L X)) (valNT (cs dv) sz L Y)).f k) := by
  constructor
  · intro k hk
    simp only [divNT, mulNT, valNT, Bool.or_eq_true] at hk
    rcases hk with (h | h) | h
    · rcases ha1 k h with h' | h'
      · exact Or.inl (hXY k h')
      · exact Or.inr h'
    · exact Or.inl (hXY k h)
    · exact Or.inl h
  · intro k hk env j
    simp only [divNT, mulNT, valNT, Bool.or_eq_false_iff] at hk
    show dv (a.f (upd env k j) * eval (cs dv) sz L X (upd env k j)) (eval (cs dv) sz L Y (upd env k j)) =
      dv (a.f env * eval (cs dv) sz L X env) (eval (cs dv) sz L Y env)
    rw [ha2 k hk.1.1 env j, eval_indep dv sz L hW X hgX k hk.1.2 env j,
      eval_indep dv sz L hW Y hgY k hk.2 env j]

/-- a message admissible at `e`, aggregated and swept through `e` -/
theorem sound_msg {n : Nat} {F : Mask} (id : Nat) (p : Env) (e : Expr)
    (ih : Sound dv sz L n F id p e) (b : NT R)
    (hb1 : ∀ k, b.mask k = true → fvMask L e k = true ∨ F k = true)
    (hb2 : ∀ k, b.mask k = false → Indep b.f k) :
    marginal (cs dv) sz L n F id
        (backward (cs dv) sz L n F e (agg (cs dv) sz n F (fvMask L e) b) id) p =
      sumM (cs dv) sz n (fun k => fvMask L e k || F k)
        (fun env => b.f env * deriv (cs dv) sz L id p e env) p := by
  rw [agg_id dv sz F _ b hb1]
  exact ih b hb1 hb2

/-- **Telescoping of the nested plate sweep.**  Sweeping `a` through `prod v1 (… (prod vm e))` one binder
    at a time (one `safediv` per binder) delivers to `e` what the single message
    `safediv(a ⊗ Reduce(⊗, e, vs), e)` delivers. -/
theorem nested_plate_telescopes {n : Nat} {F : Mask} (hW : WFL n L)
    (hdv : ∀ x y : R, y ≠ 0 → dv (x * y) y = x)
    (id : Nat) (p : Env) (e : Expr) (ih : Sound dv sz L n F id p e) :
    ∀ vs : List Nat, vs ≠ [] → Good dv sz L n F (prodL vs e) →
    ∀ a : NT R, (∀ k, a.mask k = true → fvMask L (prodL vs e) k = true ∨ F k = true) →
      (∀ k, a.mask k = false → Indep a.f k) →
      marginal (cs dv) sz L n F id (backward (cs dv) sz L n F (prodL vs e) a id) p =
        sumM (cs dv) sz n (fun k => fvMask L e k || F k)
          (fun env => dv (a.f env * eval (cs dv) sz L (prodL vs e) env) (eval (cs dv) sz L e env) *
            deriv (cs dv) sz L id p e env) p := by
  intro vs
  induction vs with
  | nil => intro h; exact absurd rfl h
  | cons v vs ihv =>
    intro _ hg a ha1 ha2
    have hge : Good dv sz L n F e := good_of_prodL dv sz L (v :: vs) e hg
    by_cases hvs : vs = []
    · subst hvs
      obtain ⟨_, hv, hFv, hnz⟩ := hg
      have hXY : ∀ k, fvMask L (.prod v e) k = true → fvMask L e k = true := by
        intro k hk; simp only [fvMask, Bool.and_eq_true] at hk; exact hk.1
      obtain ⟨hb1, hb2⟩ := plateMsg_adm dv sz L hW (.prod v e) e ⟨hge, hv, hFv, hnz⟩ hge hXY a ha1 ha2
      exact sound_msg dv sz L id p e ih _ hb1 hb2
    · have hg' := hg
      obtain ⟨hgi, hv, hFv, hnz⟩ := hg'
      have hXY : ∀ k, fvMask L (.prod v (prodL vs e)) k = true → fvMask L (prodL vs e) k = true := by
        intro k hk; simp only [fvMask, Bool.and_eq_true] at hk; exact hk.1
      obtain ⟨hb1, hb2⟩ := plateMsg_adm dv sz L hW (.prod v (prodL vs e)) (prodL vs e) hg hgi hXY a ha1 ha2
      show marginal (cs dv) sz L n F id (backward (cs dv) sz L n F (prodL vs e)
          (agg (cs dv) sz n F (fvMask L (prodL vs e))
            (divNT (cs dv) (mulNT (cs dv) a (valNT (cs dv) sz L (.prod v (prodL vs e))))
              (valNT (cs dv) sz L (prodL vs e)))) id) p = _
      rw [agg_id dv sz F _ _ hb1, ihv hvs hgi _ hb1 hb2]
      have hve : fvMask L e v = true := by
        rw [fv_prodL, Bool.and_eq_true] at hv; exact hv.1
      have hvn : v < n := fv_lt dv sz L hW e hge v hve
      apply sumM_congr_range
      intro env' hr _
      have hj : env' v < sz v := hr v hvn (by simp [hve])
      congr 1
      show dv (dv (a.f env' * eval (cs dv) sz L (.prod v (prodL vs e)) env')
            (eval (cs dv) sz L (prodL vs e) env') * eval (cs dv) sz L (prodL vs e) env') _ = _
      congr 1
      have hout : eval (cs dv) sz L (.prod v (prodL vs e)) env' =
          (∏ i ∈ range (sz v), if i = env' v then 1 else eval (cs dv) sz L (prodL vs e) (upd env' v i)) *
            eval (cs dv) sz L (prodL vs e) env' := by
        have h := prod_except hj (fun i => eval (cs dv) sz L (prodL vs e) (upd env' v i))
        simp only [upd_self] at h
        rw [h]
        simp only [eval, prodTo_eq]
      rw [hout, ← mul_assoc, hdv _ _ (hnz env'), mul_assoc]
      exact congrArg (a.f env' * ·) hout.symm

/-- **Soundness of `adjoint_reduce`, plate branch, on a set of variables.**  One tape entry, one
    `safediv(out_adj ⊗ out, arg)`: the leaf adjoints equal the incoming adjoint times the semiring
    derivative of `⨂_vs e`, provided every partial product is nowhere zero (`Good` of the nested form). -/
theorem plate_adjoint_sound {n : Nat} {F : Mask} (hW : WFL n L) (hF : ∀ k, F k = true → k < n)
    (hdv : ∀ x y : R, y ≠ 0 → dv (x * y) y = x)
    (id : Nat) (p : Env) (vs : List Nat) (hne : vs ≠ []) (e : Expr)
    (hg : Good dv sz L n F (prodL vs e)) (hp : PtOK sz L id p e)
    (a : NT R)
    (ha1 : ∀ k, a.mask k = true → fvMask L (prodL vs e) k = true ∨ F k = true)
    (ha2 : ∀ k, a.mask k = false → Indep a.f k) :
    marginal (cs dv) sz L n F id (plateBack (cs dv) sz L n F vs e a id) p =
      sumM (cs dv) sz n (fun k => fvMask L (prodL vs e) k || F k)
        (fun env => a.f env * deriv (cs dv) sz L id p (prodL vs e) env) p := by
  have hge : Good dv sz L n F e := good_of_prodL dv sz L vs e hg
  have ihe : Sound dv sz L n F id p e := adjoint_sound_gen dv sz L hW hF hdv id p e hge hp
  have hpp : PtOK sz L id p (prodL vs e) := by
    clear hne hg ha1
    induction vs with
    | nil => exact hp
    | cons v vs ih => exact ih
  have hXY : ∀ k, fvMask L (prodL vs e) k = true → fvMask L e k = true := by
    intro k hk; rw [fv_prodL, Bool.and_eq_true] at hk; exact hk.1
  obtain ⟨hb1, hb2⟩ := plateMsg_adm dv sz L hW (prodL vs e) e hg hge hXY a ha1 ha2
  rw [← adjoint_sound_gen dv sz L hW hF hdv id p (prodL vs e) hg hpp a ha1 ha2,
    nested_plate_telescopes dv sz L hW hdv id p e ihe vs hne hg a ha1 ha2]
  exact sound_msg dv sz L id p e ihe _ hb1 hb2

end plate

/-! ### the hypotheses are satisfiable: `Contraction(+, *, {0, 1}, d[0,1], y[1])` at the root -/

example : SetOK wL noF [0, 1] (.mul (.acc 0 []) (.acc 1 [])) := by
  refine ⟨by decide, ?_⟩
  intro v hv
  simp only [List.mem_cons, List.not_mem_nil, or_false] at hv
  rcases hv with rfl | rfl <;> exact ⟨by decide, rfl⟩

example : Good ndiv wsz wL 2 noF (.acc 0 []) ∧ Good ndiv wsz wL 2 noF (.acc 1 []) :=
  ⟨Or.inl rfl, Or.inl rfl⟩

example : ∀ k, (oneNT (cs ndiv)).mask k = true →
    fvMask wL (sumL [0, 1] (.mul (.acc 0 []) (.acc 1 []))) k = true ∨ noF k = true := by
  intro k hk; simp [oneNT] at hk

/-- the one-shot rule on concrete data: `∂/∂y[1]` of `Σ_{i,j} d[i,j]·y[j]` is `d[0,1] + d[1,1] = 5` -/
example :
    marginal (cs ndiv) wsz wL 2 noF 1
      (contractBack (cs ndiv) wsz wL 2 noF [0, 1] (.acc 0 []) (.acc 1 []) (oneNT (cs ndiv)) 1) at01 = 5 := by
  decide

/-- … and `Reduce(*, y, {1})` below a root that keeps nothing: `Good` (nowhere zero) holds for a leaf
    without zero entries; `yL` = y[j] = [5,7,2] over variable 1 -/
def yL : Leaves ℕ where
  names := fun id => if id = 0 then [1] else []
  T := fun id env => if id = 0 then (if env 1 = 0 then 5 else if env 1 = 1 then 7 else 2) else 0

example : Good ndiv wsz yL 2 noF (prodL [1] (.acc 0 [])) := by
  refine ⟨Or.inl rfl, by decide, rfl, ?_⟩
  intro env
  show (if (0 : ℕ) = 0 then (if substEnv [] env 1 = 0 then 5 else if substEnv [] env 1 = 1 then 7 else 2)
    else 0) ≠ (0 : ℕ)
  rw [if_pos rfl]
  split_ifs <;> decide

example :
    marginal (cs ndiv) wsz yL 2 noF 0
      (plateBack (cs ndiv) wsz yL 2 noF [1] (.acc 0 []) (oneNT (cs ndiv)) 0) at01 = 10 := by
  decide

end FV.Props.C11.Contract
