/-
  Props/C11/Dag.lean — the DAG sweep of the adjoint tape returns, for every leaf, the semiring derivative
  of the root (the sum over all paths from the root to the occurrences of the leaf).

    dag_sweep_eq_tree     invariant of the sweep: at any moment, what will finally be pending at a leaf is
                          the ⊕, over the contributions still pending anywhere in the DAG, of the
                          tree-shaped `backward` of the *unfolding* of the node the contribution waits at.
                          A shared node pops the ⊕ of the messages of all its parents; by `tree_add`
                          (additivity of the tree sweep in its incoming adjoint — a corollary of
                          `adjoint_sound_gen`) that is the ⊕ of propagating each of them separately.
    dag_eq_tree_unfolding the DAG sweep from the newest node = the tree sweep on its unfolding
    dag_adjoint_sound     … = the semiring derivative of the unfolded root w.r.t. the leaf entry
                          (composition with `adjoint_sound`)
-/
import FunsorVerif.Model.C11.Dag
import FunsorVerif.Props.C11
import FunsorVerif.Props.C11.Tape
import Mathlib.Tactic.Abel
namespace FV.Props.C11.Dag
open FV.C11 FV.C11.Tape FV.C11.Dag FV.Props.C11 FV.Props.C11.Tape

variable {R : Type} [CommSemiring R] (dv : R → R → R) (sz : Nat → Nat) (L : Leaves R)
variable (n : Nat) (F : Mask) (id : Nat) (p : Env)

/-- marginal of an adjoint onto the axes of leaf `id`, read at entry `p` -/
def marg (g : NT R) : R := marginal (cs dv) sz L n F id g p

/-- the tree-shaped sweep from a node with unfolding `E` and incoming adjoint `a`, observed at the leaf -/
def tree (E : Expr) (a : NT R) : R := marg dv sz L n F id p (backward (cs dv) sz L n F E a id)

/-- an admissible incoming adjoint of a node with unfolding `E` -/
def Adm (E : Expr) (a : NT R) : Prop :=
  (∀ k, a.mask k = true → fvMask L E k = true ∨ F k = true) ∧ (∀ k, a.mask k = false → Indep a.f k)

def GoodPt (E : Expr) : Prop := Good dv sz L n F E ∧ PtOK sz L id p E

theorem marg_add (x y : NT R) :
    marg dv sz L n F id p (addNT (cs dv) x y) = marg dv sz L n F id p x + marg dv sz L n F id p y :=
  marginal_addNT dv sz L n F id x y p

theorem marg_zero : marg dv sz L n F id p (zeroNT (cs dv)) = 0 := by
  simp only [marg, marginal, zeroNT]
  show sumM (cs dv) sz n _ (fun _ => (0 : R)) p = 0
  rw [sumM_zero]

omit [CommSemiring R] in
theorem pendingAt_cons {M : Type} (add : M → M → M) (zero : M) (q : Nat × M) (bag : List (Nat × M))
    (k : Nat) :
    pendingAt add zero (q :: bag) k =
      if q.1 = k then add q.2 (pendingAt add zero bag k) else pendingAt add zero bag k := rfl

section sound
variable (hW : WFL n L) (hF : ∀ k, F k = true → k < n) (hdv : ∀ x y : R, y ≠ 0 → dv (x * y) y = x)
include hW hF hdv

theorem tree_eq (E : Expr) (hE : GoodPt dv sz L n F id p E) (a : NT R) (ha : Adm L F E a) :
    tree dv sz L n F id p E a =
      sumM (cs dv) sz n (fun k => fvMask L E k || F k)
        (fun env => a.f env * deriv (cs dv) sz L id p E env) p :=
  adjoint_sound_gen dv sz L hW hF hdv id p E hE.1 hE.2 a ha.1 ha.2

/-- the tree sweep is additive in the incoming adjoint -/
theorem tree_add (E : Expr) (hE : GoodPt dv sz L n F id p E) (a b : NT R)
    (ha : Adm L F E a) (hb : Adm L F E b) :
    Adm L F E (addNT (cs dv) a b) ∧
    tree dv sz L n F id p E (addNT (cs dv) a b) =
      tree dv sz L n F id p E a + tree dv sz L n F id p E b := by
  have hab : Adm L F E (addNT (cs dv) a b) := by
    constructor
    · intro k hk
      simp only [addNT, Bool.or_eq_true] at hk
      rcases hk with h | h
      · exact ha.1 k h
      · exact hb.1 k h
    · intro k hk env j
      simp only [addNT, Bool.or_eq_false_iff] at hk ⊢
      rw [ha.2 k hk.1 env j, hb.2 k hk.2 env j]
  refine ⟨hab, ?_⟩
  rw [tree_eq dv sz L n F id p hW hF hdv E hE _ hab, tree_eq dv sz L n F id p hW hF hdv E hE a ha,
    tree_eq dv sz L n F id p hW hF hdv E hE b hb]
  have := congrFun (sumM_add dv sz n (fun k => fvMask L E k || F k)
    (fun env => a.f env * deriv (cs dv) sz L id p E env)
    (fun env => b.f env * deriv (cs dv) sz L id p E env)) p
  rw [← this]
  congr 1; funext env
  show (a.f env + b.f env) * _ = _
  rw [add_mul]

theorem tree_zero (E : Expr) (hE : GoodPt dv sz L n F id p E) :
    Adm L F E (zeroNT (cs dv)) ∧ tree dv sz L n F id p E (zeroNT (cs dv)) = 0 := by
  have hz : Adm L F E (zeroNT (cs dv)) :=
    ⟨fun k hk => by simp [zeroNT] at hk, fun k _ env j => rfl⟩
  refine ⟨hz, ?_⟩
  rw [tree_eq dv sz L n F id p hW hF hdv E hE _ hz]
  have : (fun env => (zeroNT (cs dv)).f env * deriv (cs dv) sz L id p E env) = fun _ => (0 : R) := by
    funext env
    show (0 : R) * _ = 0
    rw [zero_mul]
  rw [this, sumM_zero]

/-- what a node pops is the ⊕ of what is pending under its key; the tree sweep of the ⊕ is the ⊕ of the
    tree sweeps -/
theorem pend_tree (E : Expr) (hE : GoodPt dv sz L n F id p E) (key : Nat) :
    ∀ bag : List (Nat × NT R), (∀ q, q ∈ bag → q.1 = key → Adm L F E q.2) →
      Adm L F E (pendingAt (addNT (cs dv)) (zeroNT (cs dv)) bag key) ∧
      tree dv sz L n F id p E (pendingAt (addNT (cs dv)) (zeroNT (cs dv)) bag key) =
        (bag.map (fun q => if q.1 = key then tree dv sz L n F id p E q.2 else 0)).sum := by
  intro bag
  induction bag with
  | nil => intro _; simpa [pendingAt] using tree_zero dv sz L n F id p hW hF hdv E hE
  | cons q bag ih =>
    intro h
    obtain ⟨ih1, ih2⟩ := ih (fun q' hq' => h q' (List.mem_cons_of_mem _ hq'))
    rw [pendingAt_cons, List.map_cons, List.sum_cons]
    by_cases hq : q.1 = key
    · rw [if_pos hq, if_pos hq]
      have hqa := h q (List.mem_cons_self ..) hq
      obtain ⟨t1, t2⟩ := tree_add dv sz L n F id p hW hF hdv E hE _ _ hqa ih1
      exact ⟨t1, by rw [t2, ih2]⟩
    · rw [if_neg hq, if_neg hq, zero_add]
      exact ⟨ih1, ih2⟩

end sound

/-! ### the unfolding and the keys -/

omit [CommSemiring R] in
theorem table_length : ∀ dag : List Node, (table dag).length = dag.length
  | [] => rfl
  | _ :: older => by simp [table, table_length older]

/-- contribution of something pending under key `k` to the leaf: a leaf key holds a leaf adjoint, a node
    key waits for the tree sweep of the node's unfolding -/
def contrib (dag : List Node) (k : Nat) (a : NT R) : R :=
  if k % 2 = 0 then marg dv sz L n F id p ((single (cs dv) (k / 2) a) id)
  else if k / 2 < dag.length then
    match (table dag)[dag.length - 1 - k / 2]? with
    | some E => tree dv sz L n F id p E a
    | none => 0
  else 0

theorem contrib_leaf (dag : List Node) (j : Nat) (a : NT R) :
    contrib dv sz L n F id p dag (leafKey j) a = tree dv sz L n F id p (.acc j []) a := by
  have h1 : leafKey j % 2 = 0 := by unfold leafKey; omega
  have h2 : leafKey j / 2 = j := by unfold leafKey; omega
  simp only [contrib, h1, if_true, h2, tree, backward, List.isEmpty_nil, if_true]

theorem contrib_head (nd : Node) (older : List Node) (a : NT R) :
    contrib dv sz L n F id p (nd :: older) (nodeKey older.length) a =
      tree dv sz L n F id p (nodeExpr (table older) nd) a := by
  have h1 : nodeKey older.length % 2 = 1 := by unfold nodeKey; omega
  have h2 : nodeKey older.length / 2 = older.length := by unfold nodeKey; omega
  simp only [contrib, h1, h2, List.length_cons]
  rw [if_neg (by decide), if_pos (by omega)]
  have : older.length + 1 - 1 - older.length = 0 := by omega
  rw [this]
  simp [table]

theorem contrib_tail (nd : Node) (older : List Node) (k : Nat) (a : NT R)
    (hk : k ≠ nodeKey older.length) (hlt : k % 2 = 1 → k / 2 < (nd :: older).length) :
    contrib dv sz L n F id p (nd :: older) k a = contrib dv sz L n F id p older k a := by
  simp only [contrib]
  by_cases he : k % 2 = 0
  · rw [if_pos he, if_pos he]
  · rw [if_neg he, if_neg he]
    have hodd : k % 2 = 1 := by omega
    have hl := hlt hodd
    simp only [List.length_cons] at hl ⊢
    have hne : k / 2 ≠ older.length := by
      intro h; apply hk; simp only [nodeKey]; omega
    have hl' : k / 2 < older.length := by omega
    rw [if_pos (by omega), if_pos hl']
    have : older.length + 1 - 1 - k / 2 = (older.length - 1 - k / 2) + 1 := by omega
    rw [this]
    simp [table]

/-- an argument's key holds the tree sweep of the argument's unfolding -/
theorem contrib_ref (older : List Node) (r : Ref) (hr : refOK older.length r = true) (a : NT R) :
    contrib dv sz L n F id p older (refKey older.length r) a =
      tree dv sz L n F id p (refExpr (table older) r) a := by
  cases r with
  | leaf j => exact contrib_leaf dv sz L n F id p older j a
  | node d =>
    simp only [refOK, decide_eq_true_eq] at hr
    have h1 : nodeKey (older.length - 1 - d) % 2 = 1 := by unfold nodeKey; omega
    have h2 : nodeKey (older.length - 1 - d) / 2 = older.length - 1 - d := by unfold nodeKey; omega
    simp only [contrib, refKey, h1, h2, refExpr]
    rw [if_neg (by decide), if_pos (by omega)]
    have : older.length - 1 - (older.length - 1 - d) = d := by omega
    rw [this]
    have hd : d < (table older).length := by rw [table_length]; exact hr
    rw [List.getElem?_eq_getElem hd]

/-- … and, if the key is a node key, that node is on the tape with that unfolding -/
theorem refKey_odd (older : List Node) (r : Ref) (hr : refOK older.length r = true)
    (hodd : refKey older.length r % 2 = 1) :
    refKey older.length r / 2 < older.length ∧
    (table older)[older.length - 1 - refKey older.length r / 2]? = some (refExpr (table older) r) := by
  cases r with
  | leaf j => simp only [refKey, leafKey] at hodd; omega
  | node d =>
    simp only [refOK, decide_eq_true_eq] at hr
    have h2 : nodeKey (older.length - 1 - d) / 2 = older.length - 1 - d := by unfold nodeKey; omega
    simp only [refKey, h2, refExpr]
    refine ⟨by omega, ?_⟩
    have : older.length - 1 - (older.length - 1 - d) = d := by omega
    rw [this]
    have hd : d < (table older).length := by rw [table_length]; exact hr
    rw [List.getElem?_eq_getElem hd]

/-! ### one step of the sweep: a node sends exactly the messages of the tree-shaped `backward` -/

/-- the unfoldings on the tape satisfy the hypotheses of the tree theorem; arguments are in range -/
def DagGood : List Node → Prop
  | [] => True
  | nd :: older =>
      refsOK older.length nd = true ∧ GoodPt dv sz L n F id p (nodeExpr (table older) nd) ∧ DagGood older

/-- everything pending under a node key waits at a node of the DAG and is admissible for its unfolding -/
def BagOK (dag : List Node) (bag : List (Nat × NT R)) : Prop :=
  ∀ q, q ∈ bag → q.1 % 2 = 1 →
    q.1 / 2 < dag.length ∧ ∃ E, (table dag)[dag.length - 1 - q.1 / 2]? = some E ∧
      GoodPt dv sz L n F id p E ∧ Adm L F E q.2

theorem catBack_children (v : Nat) (V : Mask) (a : NT R) : ∀ (parts : List (Nat × Nat)) (off : Nat),
    marg dv sz L n F id p (catBack (cs dv) sz L n F v V a parts off id) =
      ((catChildren (cs dv) sz L n F v V parts off).map
        (fun c => marg dv sz L n F id p ((single (cs dv) c.1 (c.2 a)) id))).sum := by
  intro parts
  induction parts with
  | nil => intro off; simpa [catBack, catChildren] using marg_zero dv sz L n F id p
  | cons q rest ih =>
    intro off
    obtain ⟨id', len⟩ := q
    simp only [catBack, catChildren, addF, List.map_cons, List.sum_cons]
    rw [marg_add, ih (off + len)]

section step
variable (hW : WFL n L) (hF : ∀ k, F k = true → k < n)
include hW hF

theorem adm_lt (E : Expr) (hg : Good dv sz L n F E) (a : NT R) (ha : Adm L F E a) :
    ∀ k, a.mask k = true → k < n := by
  intro k hk
  rcases ha.1 k hk with h | h
  · exact fv_lt dv sz L hW E hg k h
  · exact hF k h

/-- the messages of one node: their contributions add up to the tree sweep of the node's unfolding, and
    each of them is admissible where it arrives -/
theorem step (nd : Node) (older : List Node) (hr : refsOK older.length nd = true)
    (hE : GoodPt dv sz L n F id p (nodeExpr (table older) nd)) (a : NT R)
    (ha : Adm L F (nodeExpr (table older) nd) a) :
    ((send (entry (cs dv) sz L n F older nd) a).map
        (fun q => contrib dv sz L n F id p older q.1 q.2)).sum =
      tree dv sz L n F id p (nodeExpr (table older) nd) a ∧
    BagOK dv sz L n F id p older (send (entry (cs dv) sz L n F older nd) a) := by
  have han := adm_lt dv sz L n F hW hF _ hE.1 a ha
  have hfv := fv_lt dv sz L hW _ hE.1
  cases nd with
  | subs j σ =>
    constructor
    · simp only [send, entry, List.map_cons, List.map_nil, List.sum_cons, List.sum_nil, add_zero,
        contrib_leaf, nodeExpr, tree, backward, List.isEmpty_nil, if_true]
      cases σ.isEmpty <;> rfl
    · intro q hq hodd
      simp only [send, entry, List.map_cons, List.map_nil, List.mem_singleton] at hq
      subst hq
      simp only [leafKey] at hodd; omega
  | cat v parts =>
    constructor
    · simp only [send, entry, List.map_map, Function.comp_def, contrib_leaf, nodeExpr]
      simp only [tree, backward, List.isEmpty_nil, if_true]
      exact (catBack_children dv sz L n F id p v _ a parts 0).symm
    · intro q hq hodd
      simp only [send, entry, List.map_map, List.mem_map, Function.comp_def] at hq
      obtain ⟨c, _, rfl⟩ := hq
      simp only [leafKey] at hodd; omega
  | sum v c =>
    simp only [refsOK] at hr
    simp only [nodeExpr] at hE ha hfv ⊢
    have hEc : GoodPt dv sz L n F id p (refExpr (table older) c) := ⟨hE.1.1, hE.2⟩
    obtain ⟨ok1, ok2⟩ := agg_ok dv sz F (fvMask L (refExpr (table older) c)) a han ha.2
    constructor
    · simp only [send, entry, List.map_cons, List.map_nil, List.sum_cons, List.sum_nil, add_zero]
      rw [contrib_ref dv sz L n F id p older c hr]
      simp only [tree, backward]
    · intro q hq hodd
      simp only [send, entry, List.map_cons, List.map_nil, List.mem_singleton] at hq
      subst hq
      obtain ⟨h1, h2⟩ := refKey_odd older c hr hodd
      exact ⟨h1, _, h2, hEc, ok1, ok2⟩
  | scat i k t c =>
    simp only [refsOK] at hr
    simp only [nodeExpr] at hE ha hfv ⊢
    have hEc : GoodPt dv sz L n F id p (refExpr (table older) c) := ⟨hE.1.1, hE.2⟩
    have hkn : k < n := fv_lt dv sz L hW _ hEc.1 k hE.1.2.1
    obtain ⟨m1, m2⟩ := scatMsg_ok i k t hE.1.2.2.2.2.2.1 hkn a han ha.2
    obtain ⟨ok1, ok2⟩ := agg_ok dv sz F (fvMask L (refExpr (table older) c)) _ m1 m2
    constructor
    · simp only [send, entry, List.map_cons, List.map_nil, List.sum_cons, List.sum_nil, add_zero]
      rw [contrib_ref dv sz L n F id p older c hr]
      simp only [tree, backward]
    · intro q hq hodd
      simp only [send, entry, List.map_cons, List.map_nil, List.mem_singleton] at hq
      subst hq
      obtain ⟨h1, h2⟩ := refKey_odd older c hr hodd
      exact ⟨h1, _, h2, hEc, ok1, ok2⟩
  | prod v c =>
    simp only [refsOK] at hr
    simp only [nodeExpr] at hE ha hfv ⊢
    have hEc : GoodPt dv sz L n F id p (refExpr (table older) c) := ⟨hE.1.1, hE.2⟩
    have hfvc := fv_lt dv sz L hW _ hEc.1
    have hb1 : ∀ k, (divNT (cs dv) (mulNT (cs dv) a (valNT (cs dv) sz L (.prod v (refExpr (table older) c))))
        (valNT (cs dv) sz L (refExpr (table older) c))).mask k = true → k < n := by
      intro k hk
      simp only [divNT, mulNT, valNT, Bool.or_eq_true] at hk
      rcases hk with (h | h) | h
      · exact han k h
      · exact hfv k h
      · exact hfvc k h
    have hb2 : ∀ k, (divNT (cs dv) (mulNT (cs dv) a (valNT (cs dv) sz L (.prod v (refExpr (table older) c))))
        (valNT (cs dv) sz L (refExpr (table older) c))).mask k = false →
        Indep (divNT (cs dv) (mulNT (cs dv) a (valNT (cs dv) sz L (.prod v (refExpr (table older) c))))
          (valNT (cs dv) sz L (refExpr (table older) c))).f k := by
      intro k hk env j
      simp only [divNT, mulNT, valNT, Bool.or_eq_false_iff] at hk ⊢
      rw [ha.2 k hk.1.1 env j, eval_indep dv sz L hW _ hE.1 k hk.1.2 env j,
        eval_indep dv sz L hW _ hEc.1 k hk.2 env j]
    obtain ⟨ok1, ok2⟩ := agg_ok dv sz F (fvMask L (refExpr (table older) c)) _ hb1 hb2
    constructor
    · simp only [send, entry, List.map_cons, List.map_nil, List.sum_cons, List.sum_nil, add_zero]
      rw [contrib_ref dv sz L n F id p older c hr]
      simp only [tree, backward]
    · intro q hq hodd
      simp only [send, entry, List.map_cons, List.map_nil, List.mem_singleton] at hq
      subst hq
      obtain ⟨h1, h2⟩ := refKey_odd older c hr hodd
      exact ⟨h1, _, h2, hEc, ok1, ok2⟩
  | mul l r =>
    simp only [refsOK, Bool.and_eq_true] at hr
    simp only [nodeExpr] at hE ha hfv ⊢
    have hEl : GoodPt dv sz L n F id p (refExpr (table older) l) := ⟨hE.1.1, hE.2.1⟩
    have hEr : GoodPt dv sz L n F id p (refExpr (table older) r) := ⟨hE.1.2, hE.2.2⟩
    have hb1 : ∀ (c : Expr), (∀ k, fvMask L c k = true → k < n) → ∀ k,
        (mulNT (cs dv) a (valNT (cs dv) sz L c)).mask k = true → k < n := by
      intro c hc k hk
      simp only [mulNT, valNT, Bool.or_eq_true] at hk
      rcases hk with h | h
      · exact han k h
      · exact hc k h
    have hb2 : ∀ (c : Expr), Good dv sz L n F c → ∀ k,
        (mulNT (cs dv) a (valNT (cs dv) sz L c)).mask k = false →
          Indep (mulNT (cs dv) a (valNT (cs dv) sz L c)).f k := by
      intro c hc k hk env j
      simp only [mulNT, valNT, Bool.or_eq_false_iff] at hk ⊢
      rw [ha.2 k hk.1 env j, eval_indep dv sz L hW c hc k hk.2 env j]
    obtain ⟨okl1, okl2⟩ := agg_ok dv sz F (fvMask L (refExpr (table older) l)) _
      (hb1 _ (fv_lt dv sz L hW _ hEr.1)) (hb2 _ hEr.1)
    obtain ⟨okr1, okr2⟩ := agg_ok dv sz F (fvMask L (refExpr (table older) r)) _
      (hb1 _ (fv_lt dv sz L hW _ hEl.1)) (hb2 _ hEl.1)
    constructor
    · simp only [send, entry, List.map_cons, List.map_nil, List.sum_cons, List.sum_nil, add_zero]
      rw [contrib_ref dv sz L n F id p older l hr.1, contrib_ref dv sz L n F id p older r hr.2]
      simp only [tree, backward, addF]
      rw [marg_add]
    · intro q hq hodd
      simp only [send, entry, List.map_cons, List.map_nil, List.mem_cons, List.not_mem_nil, or_false] at hq
      rcases hq with rfl | rfl
      · obtain ⟨h1, h2⟩ := refKey_odd older l hr.1 hodd
        exact ⟨h1, _, h2, hEl, okl1, okl2⟩
      · obtain ⟨h1, h2⟩ := refKey_odd older r hr.2 hodd
        exact ⟨h1, _, h2, hEr, okr1, okr2⟩
  | add l r =>
    simp only [refsOK, Bool.and_eq_true] at hr
    simp only [nodeExpr] at hE ha hfv ⊢
    have hEl : GoodPt dv sz L n F id p (refExpr (table older) l) := ⟨hE.1.1, hE.2.1⟩
    have hEr : GoodPt dv sz L n F id p (refExpr (table older) r) := ⟨hE.1.2, hE.2.2⟩
    have hx : ∀ (op ot : Expr), (∀ k, fvMask L ot k = true → k < n) →
        (∀ k, (expandNT n a (fvMask L op) (fvMask L ot)).mask k = true → k < n) ∧
        (∀ k, (expandNT n a (fvMask L op) (fvMask L ot)).mask k = false →
          Indep (expandNT n a (fvMask L op) (fvMask L ot)).f k) := by
      intro op ot hot
      obtain ⟨ef, e1, e2, _⟩ := expandNT_spec n a (fvMask L op) (fvMask L ot)
      constructor
      · intro k hk
        rcases e1 k hk with h | h
        · exact han k h
        · exact hot k h
      · intro k hk; rw [ef]; apply ha.2
        cases h : a.mask k
        · rfl
        · rw [e2 k h] at hk; exact absurd hk (by simp)
    obtain ⟨xl1, xl2⟩ := hx (refExpr (table older) l) (refExpr (table older) r) (fv_lt dv sz L hW _ hEr.1)
    obtain ⟨xr1, xr2⟩ := hx (refExpr (table older) r) (refExpr (table older) l) (fv_lt dv sz L hW _ hEl.1)
    obtain ⟨okl1, okl2⟩ := agg_ok dv sz F (fvMask L (refExpr (table older) l)) _ xl1 xl2
    obtain ⟨okr1, okr2⟩ := agg_ok dv sz F (fvMask L (refExpr (table older) r)) _ xr1 xr2
    constructor
    · simp only [send, entry, List.map_cons, List.map_nil, List.sum_cons, List.sum_nil, add_zero]
      rw [contrib_ref dv sz L n F id p older l hr.1, contrib_ref dv sz L n F id p older r hr.2]
      simp only [tree, backward, addF]
      rw [marg_add]
    · intro q hq hodd
      simp only [send, entry, List.map_cons, List.map_nil, List.mem_cons, List.not_mem_nil, or_false] at hq
      rcases hq with rfl | rfl
      · obtain ⟨h1, h2⟩ := refKey_odd older l hr.1 hodd
        exact ⟨h1, _, h2, hEl, okl1, okl2⟩
      · obtain ⟨h1, h2⟩ := refKey_odd older r hr.2 hodd
        exact ⟨h1, _, h2, hEr, okr1, okr2⟩

end step

/-! ### the sweep -/

section main
variable (hW : WFL n L) (hF : ∀ k, F k = true → k < n) (hdv : ∀ x y : R, y ≠ 0 → dv (x * y) y = x)

/-- with no node left on the tape, what is pending under the leaf's key is its adjoint -/
theorem leaf_pending : ∀ bag : List (Nat × NT R),
    marg dv sz L n F id p (pendingAt (addNT (cs dv)) (zeroNT (cs dv)) bag (leafKey id)) =
      (bag.map (fun q => contrib dv sz L n F id p [] q.1 q.2)).sum := by
  intro bag
  induction bag with
  | nil => simpa [pendingAt] using marg_zero dv sz L n F id p
  | cons q bag ih =>
    rw [pendingAt_cons, List.map_cons, List.sum_cons]
    by_cases hq : q.1 = leafKey id
    · rw [if_pos hq, marg_add, ih, hq, contrib_leaf]
      simp only [tree, backward, List.isEmpty_nil, if_true, single]
    · rw [if_neg hq, ih]
      have : contrib dv sz L n F id p [] q.1 q.2 = 0 := by
        simp only [contrib, List.length_nil, Nat.not_lt_zero, if_false]
        by_cases he : q.1 % 2 = 0
        · rw [if_pos he]
          have : ¬ id = q.1 / 2 := by
            intro h; apply hq; unfold leafKey; omega
          simp only [single, if_neg this]
          exact marg_zero dv sz L n F id p
        · rw [if_neg he]
      rw [this, zero_add]

/-- splitting what is pending at the key of the newest node from the rest -/
theorem bag_split (nd : Node) (older : List Node) :
    ∀ bag : List (Nat × NT R), BagOK dv sz L n F id p (nd :: older) bag →
      (bag.map (fun q => contrib dv sz L n F id p (nd :: older) q.1 q.2)).sum =
        ((removeKey bag (nodeKey older.length)).map
          (fun q => contrib dv sz L n F id p older q.1 q.2)).sum +
        (bag.map (fun q => if q.1 = nodeKey older.length then
          tree dv sz L n F id p (nodeExpr (table older) nd) q.2 else 0)).sum ∧
      BagOK dv sz L n F id p older (removeKey bag (nodeKey older.length)) ∧
      (∀ q, q ∈ bag → q.1 = nodeKey older.length → Adm L F (nodeExpr (table older) nd) q.2) := by
  intro bag
  induction bag with
  | nil =>
    intro _
    exact ⟨by simp [removeKey], fun q hq => by simp [removeKey] at hq, fun q hq => by simp at hq⟩
  | cons q bag ih =>
    intro hb
    obtain ⟨ih1, ih2, ih3⟩ := ih (fun q' hq' => hb q' (List.mem_cons_of_mem _ hq'))
    have hq := hb q (List.mem_cons_self ..)
    rw [removeKey_cons]
    by_cases hk : q.1 = nodeKey older.length
    · have hodd : q.1 % 2 = 1 := by rw [hk]; unfold nodeKey; omega
      obtain ⟨_, E, hE1, _, hE3⟩ := hq hodd
      have hidx : (nd :: older).length - 1 - q.1 / 2 = 0 := by
        rw [hk]; simp only [List.length_cons]; unfold nodeKey; omega
      rw [hidx] at hE1
      simp only [table, List.getElem?_cons_zero, Option.some.injEq] at hE1
      subst hE1
      refine ⟨?_, ?_, ?_⟩
      · rw [if_pos hk, List.map_cons, List.sum_cons, List.map_cons, List.sum_cons, if_pos hk, ih1, hk,
          contrib_head]
        abel
      · rw [if_pos hk]; exact ih2
      · intro q' hq' hk'
        rcases List.mem_cons.mp hq' with rfl | h
        · exact hE3
        · exact ih3 q' h hk'
    · have hlt : q.1 % 2 = 1 → q.1 / 2 < (nd :: older).length := fun h => (hq h).1
      refine ⟨?_, ?_, ?_⟩
      · rw [if_neg hk, List.map_cons, List.sum_cons, List.map_cons, List.sum_cons, List.map_cons,
          List.sum_cons, if_neg hk, ih1, contrib_tail dv sz L n F id p nd older q.1 q.2 hk hlt]
        abel
      · rw [if_neg hk]
        intro q' hq' hodd
        rcases List.mem_cons.mp hq' with rfl | h
        · obtain ⟨h1, E, hE1, hE2, hE3⟩ := hq hodd
          simp only [List.length_cons] at h1 hE1
          have hne : q'.1 / 2 ≠ older.length := by
            intro h; apply hk; unfold nodeKey; omega
          have hl : q'.1 / 2 < older.length := by omega
          refine ⟨hl, E, ?_, hE2, hE3⟩
          have : older.length + 1 - 1 - q'.1 / 2 = (older.length - 1 - q'.1 / 2) + 1 := by omega
          rw [this] at hE1
          simpa [table] using hE1
        · exact ih2 q' h hodd
      · intro q' hq' hk'
        rcases List.mem_cons.mp hq' with rfl | h
        · exact absurd hk' hk
        · exact ih3 q' h hk'

include hW hF hdv

/-- **Invariant of the DAG sweep.**  Whatever is pending (anywhere) will reach the leaf as the ⊕ of the
    tree-shaped sweeps of the unfoldings of the nodes it is pending at. -/
theorem dag_sweep_eq_tree : ∀ dag : List Node, DagGood dv sz L n F id p dag →
    ∀ bag : List (Nat × NT R), BagOK dv sz L n F id p dag bag →
      marg dv sz L n F id p
          (pendingAt (addNT (cs dv)) (zeroNT (cs dv))
            (sweep (addNT (cs dv)) (zeroNT (cs dv)) (entries (cs dv) sz L n F dag) bag) (leafKey id)) =
        (bag.map (fun q => contrib dv sz L n F id p dag q.1 q.2)).sum := by
  intro dag
  induction dag with
  | nil => intro _ bag _; exact leaf_pending dv sz L n F id p bag
  | cons nd older ih =>
    intro hg bag hb
    obtain ⟨hr, hE, hgo⟩ := hg
    obtain ⟨s1, s2, s3⟩ := bag_split dv sz L n F id p nd older bag hb
    obtain ⟨pa, pt⟩ := pend_tree dv sz L n F id p hW hF hdv _ hE (nodeKey older.length) bag s3
    obtain ⟨st1, st2⟩ := step dv sz L n F id p hW hF nd older hr hE _ pa
    simp only [entries, sweep]
    have hkey : (entry (cs dv) sz L n F older nd).key = nodeKey older.length := rfl
    rw [hkey]
    rw [ih hgo _ (by
      intro q hq hodd
      rcases List.mem_append.mp hq with h | h
      · exact s2 q h hodd
      · exact st2 q h hodd)]
    rw [List.map_append, List.sum_append, st1, pt, s1]

/-- **The DAG sweep agrees with the tree sweep on the unfolding** (newest node = root). -/
theorem dag_eq_tree_unfolding (nd : Node) (older : List Node)
    (hg : DagGood dv sz L n F id p (nd :: older)) :
    marg dv sz L n F id p (dagAdjoint (cs dv) sz L n F (nd :: older) id) =
      tree dv sz L n F id p (nodeExpr (table older) nd) (oneNT (cs dv)) := by
  have hE := hg.2.1
  simp only [dagAdjoint, dagSweep]
  have hlen : (nd :: older).length - 1 = older.length := by simp
  rw [hlen, dag_sweep_eq_tree dv sz L n F id p hW hF hdv (nd :: older) hg]
  · simp only [List.map_cons, List.map_nil, List.sum_cons, List.sum_nil, add_zero, contrib_head]
  · intro q hq hodd
    simp only [List.mem_singleton] at hq
    subst hq
    refine ⟨by simp only [List.length_cons]; unfold nodeKey; omega, _, ?_, hE,
      fun k hk => by simp [oneNT] at hk, fun k _ env j => rfl⟩
    have : (nd :: older).length - 1 - nodeKey older.length / 2 = 0 := by
      simp only [List.length_cons]; unfold nodeKey; omega
    rw [this]; simp [table]

end main

/-- **C11 for the DAG tape.**  For a DAG whose root (newest node) unfolds to `E`, with `F` the inputs of
    the root: the adjoint the sweep accumulates for leaf `id` — shared nodes ⊕-accumulating the
    contributions of all their parents before they are popped — marginalised onto the leaf's axes and read
    at entry `p`, is the semiring derivative of the unfolded root with respect to that entry (the sum over
    all paths). -/
theorem dag_adjoint_sound (hW : WFL n L) (hdv : ∀ x y : R, y ≠ 0 → dv (x * y) y = x)
    (nd : Node) (older : List Node)
    (hg : DagGood dv sz L n (fvMask L (nodeExpr (table older) nd)) id p (nd :: older)) :
    marginal (cs dv) sz L n (fvMask L (nodeExpr (table older) nd)) id
        (dagAdjoint (cs dv) sz L n (fvMask L (nodeExpr (table older) nd)) (nd :: older) id) p =
      sumM (cs dv) sz n (fvMask L (nodeExpr (table older) nd))
        (deriv (cs dv) sz L id p (nodeExpr (table older) nd)) p := by
  have hE := hg.2.1
  have hF := fv_lt dv sz L hW _ hE.1
  have h := dag_eq_tree_unfolding dv sz L n _ id p hW hF hdv nd older hg
  simp only [marg, tree] at h
  rw [h]
  exact adjoint_sound dv sz L hW hdv _ hE.1 id p hE.2

/-! ### a diamond: the hypotheses are satisfiable, and sharing is visible in the trace -/

/-- `s = d ⊗ y` is used twice by `s ⊗ s`, which is then summed over variables 1 and 0 (newest first) -/
def diamond : List Node :=
  [.sum 0 (.node 0), .sum 1 (.node 0), .mul (.node 0) (.node 0), .mul (.leaf 0) (.leaf 1)]

example : DagGood ndiv wsz wL 2 noF 1 at01 diamond := by
  have p0 : PtOK wsz wL 1 at01 (.acc 0 []) := fun h => absurd h (by decide)
  have p1 : PtOK wsz wL 1 at01 (.acc 1 []) := by
    intro _ k hk _
    have : k = 1 := by simpa [wL, nameMask] using hk
    subst this; decide
  have g0 : Good ndiv wsz wL 2 noF (.mul (.acc 0 []) (.acc 1 [])) := ⟨Or.inl rfl, Or.inl rfl⟩
  have q0 : PtOK wsz wL 1 at01 (.mul (.acc 0 []) (.acc 1 [])) := ⟨p0, p1⟩
  refine ⟨rfl, ⟨⟨⟨⟨g0, g0⟩, by decide, rfl⟩, by decide, rfl⟩, ⟨q0, q0⟩⟩,
    rfl, ⟨⟨⟨g0, g0⟩, by decide, rfl⟩, ⟨q0, q0⟩⟩, rfl, ⟨⟨g0, g0⟩, ⟨q0, q0⟩⟩, rfl, ⟨g0, q0⟩, trivial⟩

/-- the shared node (key 1) is popped once, after both messages of its parent (key 3) have been
    ⊕-accumulated: pops in the order root … shared node, and the leaf's adjoint is the derivative
    `2 · s[·,1] · d[·,1]` summed = 2·(1·5·1 … ) computed both ways -/
theorem diamond_trace :
    (dagTrace (cs ndiv) wsz wL 2 noF diamond).map (·.1) = [7, 5, 3, 1] ∧
    marginal (cs ndiv) wsz wL 2 noF 1 (dagAdjoint (cs ndiv) wsz wL 2 noF diamond 1) at01 =
      sumM (cs ndiv) wsz 2 noF
        (deriv (cs ndiv) wsz wL 1 at01
          (.sum 0 (.sum 1 (.mul (.mul (.acc 0 []) (.acc 1 [])) (.mul (.acc 0 []) (.acc 1 [])))))) at01 := by
  decide

end FV.Props.C11.Dag
