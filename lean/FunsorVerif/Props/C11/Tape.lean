/-
  Props/C11/Tape.lean — the tape sweep of AdjointTape equals the tree-shaped reverse pass on the
  unfolding of the DAG.

  Messages live in an arbitrary commutative monoid `M` (for funsor: funsors under `sum_op`); every entry's
  rule is additive in the popped adjoint (all rules of funsor/adjoint.py are: they multiply by constants,
  sum over variables, slice, scatter, or — plate — multiply by a rounded reciprocal).

    tape_sweep_eq_tree_backward   for every tape (any sharing, any key collisions) and any bag of pending
                                  contributions: what the HEAD sweep leaves pending at a leaf is the ⊕ over
                                  the bag of the tree-shaped pass — a node shared by several parents
                                  accumulates the messages of all its parent occurrences and propagates
                                  their ⊕ once, which by additivity is the ⊕ of propagating each separately
    adjoint_final_when_popped     in a tape in construction order (no older entry, and not the entry itself,
                                  sends to the entry's key) nothing arrives at a key after its entry was
                                  popped: the popped value is the node's final adjoint
    roundtrip_keyed_by_value_witness  where hash-consing identifies a tape node with a leaf (a renaming
                                  back to the original names, KF-adjoint-roundtrip-identity, fixed in
                                  /repo 2cc17fb): recording at pop time + leaves from `pending` gives 1 / 1,
                                  the result keyed by eager value gave the leaf 0 and the node 2
    first_writer_misattributes, report_leaf_lastWriter   the eager→lazy map: with "last writer wins" (the code)
                                  a leaf is reported exactly what is left pending under its key, for any
                                  tape; with "first writer wins" the node `id(x)` in `x ⊗ id(x)` is
                                  reported under the leaf `x`, whose adjoint doubles (2 → 4)
    old_sweep_double_propagation  where hash-consing identifies two tape entries (same un-mangled eager
                                  value, KF-adjoint-tape-key-collision, fixed in /repo d732c46) the old sweep
                                  propagated the cumulative total at each of them: 3 instead of 2
-/
import FunsorVerif.Model.C11.Tape
import FunsorVerif.Props.C11
import Mathlib.Algebra.BigOperators.Group.List.Basic
import Mathlib.Tactic.Abel
namespace FV.Props.C11.Tape
open FV.C11.Tape

variable {M : Type} [AddCommMonoid M]

abbrev pend (bag : List (Nat × M)) (k : Nat) : M := pendingAt (· + ·) (0 : M) bag k
abbrev tb (tape : List (Entry M)) (k : Nat) (a : M) : Nat → M := treeBack (· + ·) (0 : M) tape k a
abbrev sw (tape : List (Entry M)) (bag : List (Nat × M)) : List (Nat × M) := sweep (· + ·) (0 : M) tape bag

/-- a rule's message is additive in the adjoint of the output -/
def Additive (f : M → M) : Prop := f 0 = 0 ∧ ∀ x y, f (x + y) = f x + f y

def AddTape (tape : List (Entry M)) : Prop := ∀ e, e ∈ tape → ∀ c, c ∈ e.children → Additive c.2

theorem pend_nil (k : Nat) : pend ([] : List (Nat × M)) k = 0 := rfl

theorem pend_cons (p : Nat × M) (bag : List (Nat × M)) (k : Nat) :
    pend (p :: bag) k = (if p.1 = k then p.2 else 0) + pend bag k := by
  simp only [pend, pendingAt, List.foldr_cons]
  split <;> simp

theorem pend_append (b1 b2 : List (Nat × M)) (k : Nat) :
    pend (b1 ++ b2) k = pend b1 k + pend b2 k := by
  induction b1 with
  | nil => simp [pend_nil]
  | cons p b1 ih => rw [List.cons_append, pend_cons, pend_cons, ih, add_assoc]

omit [AddCommMonoid M] in
theorem removeKey_cons (p : Nat × M) (bag : List (Nat × M)) (j : Nat) :
    removeKey (p :: bag) j = if p.1 = j then removeKey bag j else p :: removeKey bag j := by
  simp only [removeKey, List.filter_cons]
  by_cases hp : p.1 = j
  · simp [hp]
  · simp [hp]

theorem pend_removeKey (bag : List (Nat × M)) (j k : Nat) :
    pend (removeKey bag j) k = if k = j then 0 else pend bag k := by
  induction bag with
  | nil => simp [removeKey, pend_nil]
  | cons p bag ih =>
    rw [removeKey_cons]
    by_cases hp : p.1 = j
    · rw [if_pos hp, ih, pend_cons]
      by_cases hk : k = j
      · rw [if_pos hk, if_pos hk]
      · have : ¬ p.1 = k := by rw [hp]; exact fun h => hk h.symm
        rw [if_neg hk, if_neg hk, if_neg this, zero_add]
    · rw [if_neg hp, pend_cons, pend_cons, ih]
      by_cases hk : k = j
      · have : ¬ p.1 = k := by rw [hk]; exact hp
        rw [if_pos hk, if_pos hk, if_neg this, zero_add]
      · rw [if_neg hk, if_neg hk]

/-- value of the tree-shaped pass through an entry = ⊕ over its children -/
theorem tb_cons_hit (e : Entry M) (older : List (Entry M)) (a : M) (l : Nat) :
    tb (e :: older) e.key a l = (e.children.map (fun c => tb older c.1 (c.2 a) l)).sum := by
  simp only [tb, treeBack, if_true]
  induction e.children with
  | nil => rfl
  | cons c cs ih => simp only [List.foldr_cons, List.map_cons, List.sum_cons]; rw [ih]

theorem tb_cons_miss (e : Entry M) (older : List (Entry M)) (k : Nat) (h : e.key ≠ k) (a : M) :
    tb (e :: older) k a = tb older k a := by
  simp only [tb, treeBack, if_neg h]

theorem sum_map_add {α : Type} (l : List α) (f g : α → M) :
    (l.map (fun i => f i + g i)).sum = (l.map f).sum + (l.map g).sum := by
  induction l with
  | nil => simp
  | cons x l ih => simp only [List.map_cons, List.sum_cons, ih]; abel

/-- the tree-shaped pass is additive in the message -/
theorem tb_additive : ∀ (tape : List (Entry M)), AddTape tape → ∀ (k l : Nat),
    tb tape k 0 l = 0 ∧ ∀ x y, tb tape k (x + y) l = tb tape k x l + tb tape k y l := by
  intro tape
  induction tape with
  | nil =>
    intro _ k l
    simp only [tb, treeBack]
    constructor
    · split <;> rfl
    · intro x y; split <;> simp
  | cons e older ih =>
    intro hadd k l
    have hold : AddTape older := fun e' he' => hadd e' (List.mem_cons_of_mem _ he')
    by_cases hk : e.key = k
    · subst hk
      simp only [tb_cons_hit]
      constructor
      · apply List.sum_eq_zero
        intro x hx
        obtain ⟨c, hc, rfl⟩ := List.mem_map.mp hx
        rw [(hadd e (List.mem_cons_self ..) c hc).1]
        exact (ih hold c.1 l).1
      · intro x y
        rw [← sum_map_add]
        congr 1
        apply List.map_congr_left
        intro c hc
        rw [(hadd e (List.mem_cons_self ..) c hc).2]
        exact (ih hold c.1 l).2 _ _
    · simp only [tb_cons_miss e older k hk]
      exact ih hold k l

/-- splitting the bag at the key of the newest entry -/
theorem bag_split (e : Entry M) (older : List (Entry M)) (hadd : AddTape (e :: older)) (l : Nat) :
    ∀ bag : List (Nat × M),
      (bag.map (fun p => tb (e :: older) p.1 p.2 l)).sum =
        ((removeKey bag e.key).map (fun p => tb older p.1 p.2 l)).sum +
          tb (e :: older) e.key (pend bag e.key) l := by
  intro bag
  induction bag with
  | nil =>
    simp only [removeKey, List.filter_nil, List.map_nil, List.sum_nil, pend_nil, zero_add]
    exact ((tb_additive (e :: older) hadd e.key l).1).symm
  | cons p bag ih =>
    rw [List.map_cons, List.sum_cons, ih, removeKey_cons, pend_cons]
    by_cases hp : p.1 = e.key
    · rw [if_pos hp, if_pos hp, (tb_additive (e :: older) hadd e.key l).2, hp]
      abel
    · rw [if_neg hp, if_neg hp, zero_add, List.map_cons, List.sum_cons,
        tb_cons_miss e older p.1 (fun h => hp h.symm)]
      abel

/-- **The tape sweep equals the tree-shaped reverse pass on the unfolding of the DAG.**  For the tape of
    a root with `pending = {root: 1}` this reads: adjoint of leaf `l` = `treeBack tape root 1 l`. -/
theorem tape_sweep_eq_tree_backward : ∀ (tape : List (Entry M)), AddTape tape →
    ∀ (bag : List (Nat × M)) (l : Nat),
      pend (sw tape bag) l = (bag.map (fun p => tb tape p.1 p.2 l)).sum := by
  intro tape
  induction tape with
  | nil =>
    intro _ bag l
    simp only [sw, sweep, tb, treeBack]
    induction bag with
    | nil => rfl
    | cons p bag ih =>
      rw [pend_cons, List.map_cons, List.sum_cons, ih]
      congr 1
      by_cases h : p.1 = l
      · simp [h]
      · have : ¬ l = p.1 := fun h' => h h'.symm
        simp [h, this]
  | cons e older ih =>
    intro hadd bag l
    have hold : AddTape older := fun e' he' => hadd e' (List.mem_cons_of_mem _ he')
    simp only [sw, sweep]
    have := ih hold (removeKey bag e.key ++ send e (pendingAt (· + ·) 0 bag e.key)) l
    simp only [sw] at this
    rw [this, List.map_append, List.sum_append, bag_split e older hadd l bag, tb_cons_hit]
    congr 1
    simp only [send, List.map_map, Function.comp_def]

/-- the corollary for `tape.adjoint(root)` -/
theorem tape_adjoint_eq_tree_backward (tape : List (Entry M)) (h : AddTape tape) (root : Nat) (one : M)
    (l : Nat) : pend (sw tape [(root, one)]) l = tb tape root one l := by
  rw [tape_sweep_eq_tree_backward tape h]; simp

/-! ### a node's adjoint is final when popped -/

/-- nothing on the tape sends a message to key `k` -/
def NoMsgTo (k : Nat) (tape : List (Entry M)) : Prop :=
  ∀ e, e ∈ tape → ∀ c, c ∈ e.children → c.1 ≠ k

theorem pend_map_zero (a : M) (k : Nat) : ∀ (cs : List (Nat × (M → M))), (∀ c, c ∈ cs → c.1 ≠ k) →
    pend (cs.map (fun c => (c.1, c.2 a))) k = 0 := by
  intro cs
  induction cs with
  | nil => intro _; rfl
  | cons c cs ih =>
    intro h
    rw [List.map_cons, pend_cons, if_neg (h c (List.mem_cons_self ..)), zero_add]
    exact ih (fun c' hc' => h c' (List.mem_cons_of_mem _ hc'))

theorem pend_send_zero (e : Entry M) (a : M) (k : Nat) (h : ∀ c, c ∈ e.children → c.1 ≠ k) :
    pend (send e a) k = 0 := pend_map_zero a k e.children h

theorem nothing_arrives (k : Nat) : ∀ (tape : List (Entry M)), NoMsgTo k tape →
    ∀ bag, pend bag k = 0 → pend (sw tape bag) k = 0 := by
  intro tape
  induction tape with
  | nil => intro _ bag h; exact h
  | cons e older ih =>
    intro hno bag hb
    simp only [sw, sweep]
    apply ih (fun e' he' => hno e' (List.mem_cons_of_mem _ he'))
    rw [pend_append, pend_removeKey, pend_send_zero e _ k (hno e (List.mem_cons_self ..))]
    split <;> simp [hb]

/-- **A node's adjoint is final when popped.**  In construction order the arguments of an entry are
    older than the entry: no older entry (nor the entry itself) sends to its key.  Then after the entry
    has popped `pending[key]` nothing arrives there any more: the popped value (recorded by `popped`) is
    the ⊕ of the messages of *all* parent occurrences. -/
theorem adjoint_final_when_popped (e : Entry M) (older : List (Entry M)) (bag : List (Nat × M))
    (h : NoMsgTo e.key (e :: older)) :
    pend (sw (e :: older) bag) e.key = 0 ∧
    (popped (· + ·) (0 : M) (e :: older) bag).head? = some (e.key, pend bag e.key) := by
  refine ⟨?_, rfl⟩
  simp only [sw, sweep]
  apply nothing_arrives e.key older (fun e' he' => h e' (List.mem_cons_of_mem _ he'))
  rw [pend_append, pend_removeKey, pend_send_zero e _ e.key (h e (List.mem_cons_self ..))]
  simp

/-! ### where hash-consing identifies distinct tape entries -/

/-- `root(9) = outer(7) ⊗ mid(8)`, `mid(8)` reads `inner(7)`, and `outer`, `inner` are two Subs entries
    with the same un-mangled eager value (key 7) reading leaf 0 — newest first -/
def collisionTape : List (Entry Nat) :=
  [⟨9, [(7, fun a => a), (8, fun a => a)]⟩, ⟨7, [(0, fun a => a)]⟩, ⟨8, [(7, fun a => a)]⟩,
   ⟨7, [(0, fun a => a)]⟩]

/-- HEAD propagates each contribution once (leaf adjoint 2 = the tree-shaped pass); the sweep before fix
    d732c46 propagated the cumulative total stored under key 7 at both entries (3). -/
theorem old_sweep_double_propagation :
    pendingAt (· + ·) 0 (sweep (· + ·) 0 collisionTape [(9, 1)]) 0 = 2 ∧
    treeBack (· + ·) 0 collisionTape 9 1 0 = 2 ∧
    pendingAt (· + ·) 0 (sweepOld (· + ·) 0 collisionTape [(9, 1)]) 0 = 3 := by
  decide

/-- the hypotheses are satisfiable: the collision tape is additive -/
example : AddTape collisionTape := by
  intro e he c hc
  simp only [collisionTape, List.mem_cons, List.not_mem_nil, or_false] at he
  rcases he with rfl | rfl | rfl | rfl <;>
    simp only [List.mem_cons, List.not_mem_nil, or_false] at hc <;>
    (try rcases hc with rfl | rfl) <;> exact ⟨rfl, fun _ _ => rfl⟩

/-! ### where hash-consing identifies a tape node with a leaf -/

/-- `root(10) = outer ⊗ y`, `outer = inner(k='i')`, `inner = x(i='k')`: the eager value of `outer` is the
    very tensor `x` (key 5), `inner` has key 4, `y` key 6 — newest first -/
def roundTripTape : List (Entry Nat) :=
  [⟨10, [(5, fun a => a), (6, fun a => a)]⟩, ⟨5, [(4, fun a => a)]⟩, ⟨4, [(5, fun a => a)]⟩]

/-- HEAD (2cc17fb): the node `outer` is recorded with what is popped at its entry (1) and the leaf `x`
    with what is left pending under its key (1 = the tree-shaped pass).  Keyed by eager value and
    relabelled through `_eager_to_lazy` (before the fix) the leaf `x` had adjoint 0 and the lazy `outer`
    the cumulative 2. -/
theorem roundtrip_keyed_by_value_witness :
    (result (· + ·) 0 roundTripTape [(10, 1)]).nodes = [(10, 1), (5, 1), (4, 1)] ∧
    pendingAt (· + ·) 0 (result (· + ·) 0 roundTripTape [(10, 1)]).leaves 5 = 1 ∧
    treeBack (· + ·) 0 roundTripTape 10 1 5 = 1 ∧
    resultOldKeyed (· + ·) 0 roundTripTape [(10, 1)] 5 = 0 ∧
    resultOldKeyed (· + ·) 0 roundTripTape [(10, 1)] (lazyBase + 5) = 2 := by
  decide

/-- the leaves of `result` are the tree-shaped pass, for any additive tape (restating the main theorem
    for what `tape.adjoint` returns) -/
theorem result_leaves_eq_tree_backward (tape : List (Entry M)) (h : AddTape tape) (root : Nat) (one : M)
    (l : Nat) :
    pend (result (· + ·) (0 : M) tape [(root, one)]).leaves l = tb tape root one l :=
  tape_adjoint_eq_tree_backward tape h root one l

/-- … and the node adjoints are the values popped, entry by entry: the first one is the seed -/
theorem result_nodes_head (e : Entry M) (older : List (Entry M)) (bag : List (Nat × M)) :
    (result (· + ·) (0 : M) (e :: older) bag).nodes.head? = some (e.key, pend bag e.key) := rfl

/-! ### the eager→lazy map: last writer wins -/

/-- `root(10) = x ⊗ id(x)` with `id(x) = x(i='j')(j='i')`: the bare `x` and the eager value of the outer
    renaming are the same object (key 5), the inner renaming has key 4 — newest first; leaf keys: [5] -/
def bareAndIdTape : List (Entry Nat) :=
  [⟨10, [(5, fun a => a), (5, fun a => a)]⟩, ⟨5, [(4, fun a => a)]⟩, ⟨4, [(5, fun a => a)]⟩]

/-- With the map as the code writes it (last writer wins) the adjoint popped at the outer renaming is
    reported under that node (label 2·1+1 = 3) and the leaf `x` (label 10) gets what is left pending:
    2 = the tree-shaped pass (both occurrences).  If the first lazy form recorded for the eager value
    were kept (`x ↦ x`), the node's popped adjoint would be reported under the leaf as well: 4. -/
theorem first_writer_misattributes :
    report (· + ·) 0 .lastWriter [5] bareAndIdTape [(10, 1)] (2 * 5) = 2 ∧
    report (· + ·) 0 .lastWriter [5] bareAndIdTape [(10, 1)] 3 = 2 ∧
    treeBack (· + ·) 0 bareAndIdTape 10 1 5 = 2 ∧
    report (· + ·) 0 .firstWriter [5] bareAndIdTape [(10, 1)] (2 * 5) = 4 := by
  decide

/-- every key popped by the sweep is the key of an entry of the tape -/
theorem popped_keys : ∀ (tape : List (Entry M)) (bag : List (Nat × M)) (q : Nat × M),
    q ∈ popped (· + ·) (0 : M) tape bag → ∃ e, e ∈ tape ∧ e.key = q.1 := by
  intro tape
  induction tape with
  | nil => intro bag q hq; simp [popped] at hq
  | cons e older ih =>
    intro bag q hq
    simp only [popped, List.mem_cons] at hq
    rcases hq with rfl | h
    · exact ⟨e, List.mem_cons_self .., rfl⟩
    · obtain ⟨e', he', hk⟩ := ih _ q h
      exact ⟨e', List.mem_cons_of_mem _ he', hk⟩

/-- **Last writer wins ⇒ a leaf is reported exactly what is left pending under its key.**  Whatever the
    tape (even if some entry's eager value is that very leaf), no popped adjoint is reported under a leaf
    label: the popped entry itself is a (newer or equal) writer for its eager value. -/
theorem report_leaf_lastWriter (leaves : List Nat) (tape : List (Entry M)) (bag : List (Nat × M))
    (k : Nat) :
    report (· + ·) (0 : M) .lastWriter leaves tape bag (2 * k) = pend (sw tape bag) k := by
  simp only [report]
  have h1 : ∀ (l : List (Nat × M)), (∀ q, q ∈ l → ∃ e, e ∈ tape ∧ e.key = q.1) →
      pend (l.map (fun p => (lazyLabel .lastWriter leaves tape p.1, p.2))) (2 * k) = 0 := by
    intro l
    induction l with
    | nil => intro _; rfl
    | cons q l ih =>
      intro h
      rw [List.map_cons, pend_cons, ih (fun q' hq' => h q' (List.mem_cons_of_mem _ hq'))]
      obtain ⟨e, he, hk⟩ := h q (List.mem_cons_self ..)
      have hodd : lazyLabel .lastWriter leaves tape q.1 ≠ 2 * k := by
        simp only [lazyLabel]
        cases hf : tape.findIdx? (fun e => e.key == q.1) with
        | some i => simp only []; omega
        | none =>
          rw [List.findIdx?_eq_none_iff] at hf
          have := hf e he
          simp [hk] at this
      simp [hodd]
  have h2 : ∀ (l : List (Nat × M)), pend (l.map (fun p => (2 * p.1, p.2))) (2 * k) = pend l k := by
    intro l
    induction l with
    | nil => rfl
    | cons q l ih =>
      rw [List.map_cons, pend_cons, pend_cons, ih]
      by_cases hq : q.1 = k
      · simp [hq]
      · have : ¬ 2 * q.1 = 2 * k := by omega
        simp [hq, this]
  show pend (_ ++ _) (2 * k) = _
  rw [pend_append, h1 _ (popped_keys tape bag), h2, zero_add]

/-! ### the concrete rules are additive (in the function they carry) on admissible messages

  For the C11 rules the messages are named tensors; `⊕` is `addNT`.  Two admissible adjoints of a node
  (declared inputs within the node's inputs and the root's) are aggregated over the *same* set of
  variables on their way to a child, so the function each rule sends is additive.  Proved here for the
  tape's aggregation in general and for the ⊗ rule, the sum-reduce rule and `Scatter`; the remaining
  rules (⊕ with `_expand_like`, plate, `Cat`) are exercised by the driver's run-time echo
  (`tapeAdjoint` = `backward` on every generated case). -/

section concrete
open FV.C11 FV.Props.C11
variable {R : Type} [CommSemiring R] (dv : R → R → R) (sz : Nat → Nat) (L : Leaves R)

/-- the aggregation is additive on two messages that are summed over the same variables -/
theorem agg_add_f (n : Nat) (F Vc : Mask) (b1 b2 : NT R)
    (h : ∀ k, k < n → (b1.mask k && !Vc k && !F k) = (b2.mask k && !Vc k && !F k)) :
    (agg (cs dv) sz n F Vc (addNT (cs dv) b1 b2)).f =
      fun env => (agg (cs dv) sz n F Vc b1).f env + (agg (cs dv) sz n F Vc b2).f env := by
  simp only [agg, addNT]
  rw [sumM_congr_mask dv sz (m := fun k => (b1.mask k || b2.mask k) && !Vc k && !F k)
    (m' := fun k => b1.mask k && !Vc k && !F k)
    (fun k hk => by
      have := h k hk
      cases h1 : b1.mask k <;> cases h2 : b2.mask k <;> cases hv : Vc k <;> cases hf : F k <;>
        simp_all)]
  show sumM (cs dv) sz n _ (fun env => b1.f env + b2.f env) = _
  rw [sumM_add]
  funext env
  congr 1
  exact congrFun (sumM_congr_mask dv sz h b2.f) env

/-- ⊗ rule: the message to the left operand -/
theorem mul_rule_additive (n : Nat) (F : Mask) (l r : Expr) (a1 a2 : NT R)
    (h1 : ∀ k, a1.mask k = true → fvMask L (.mul l r) k = true ∨ F k = true)
    (h2 : ∀ k, a2.mask k = true → fvMask L (.mul l r) k = true ∨ F k = true) :
    (agg (cs dv) sz n F (fvMask L l) (mulNT (cs dv) (addNT (cs dv) a1 a2) (valNT (cs dv) sz L r))).f =
      fun env => (agg (cs dv) sz n F (fvMask L l) (mulNT (cs dv) a1 (valNT (cs dv) sz L r))).f env +
        (agg (cs dv) sz n F (fvMask L l) (mulNT (cs dv) a2 (valNT (cs dv) sz L r))).f env := by
  have hm : mulNT (cs dv) (addNT (cs dv) a1 a2) (valNT (cs dv) sz L r) =
      addNT (cs dv) (mulNT (cs dv) a1 (valNT (cs dv) sz L r)) (mulNT (cs dv) a2 (valNT (cs dv) sz L r)) := by
    simp only [mulNT, addNT, NT.mk.injEq]
    constructor
    · funext k; cases a1.mask k <;> cases a2.mask k <;> cases (valNT (cs dv) sz L r).mask k <;> rfl
    · funext env
      show (a1.f env + a2.f env) * _ = a1.f env * _ + a2.f env * _
      rw [add_mul]
  rw [hm]
  apply agg_add_f
  intro k _
  have e1 := h1 k
  have e2 := h2 k
  simp only [mulNT, valNT, fvMask] at e1 e2 ⊢
  cases ha1 : a1.mask k <;> cases ha2 : a2.mask k <;> cases hl : fvMask L l k <;>
    cases hr : fvMask L r k <;> cases hf : F k <;> simp_all

/-- sum-reduce rule: the argument receives the adjoint unchanged, nothing is summed -/
theorem sum_rule_additive (n : Nat) (F : Mask) (v : Nat) (e : Expr) (a1 a2 : NT R)
    (h1 : ∀ k, a1.mask k = true → fvMask L (.sum v e) k = true ∨ F k = true)
    (h2 : ∀ k, a2.mask k = true → fvMask L (.sum v e) k = true ∨ F k = true) :
    (agg (cs dv) sz n F (fvMask L e) (addNT (cs dv) a1 a2)).f =
      fun env => (agg (cs dv) sz n F (fvMask L e) a1).f env + (agg (cs dv) sz n F (fvMask L e) a2).f env := by
  apply agg_add_f
  intro k _
  have e1 := h1 k
  have e2 := h2 k
  simp only [fvMask] at e1 e2
  cases ha1 : a1.mask k <;> cases ha2 : a2.mask k <;> cases he : fvMask L e k <;> cases hf : F k <;>
    simp_all

/-- `Scatter` (the Subs rule) is additive outright -/
theorem scatter_additive (n : Nat) (names : Mask) (σ : Subst) (a1 a2 : NT R) :
    (scatter (cs dv) sz n names σ (addNT (cs dv) a1 a2)).f =
      fun env => (scatter (cs dv) sz n names σ a1).f env + (scatter (cs dv) sz n names σ a2).f env := by
  simp only [scatter, addNT]
  funext env'
  have : (fun env => if σ.all (fun p => p.2.val env == env' p.1) = true then
        (cs dv).add (a1.f env) (a2.f env) else (cs dv).zero) =
      fun env => (if σ.all (fun p => p.2.val env == env' p.1) = true then a1.f env else (cs dv).zero) +
        (if σ.all (fun p => p.2.val env == env' p.1) = true then a2.f env else (cs dv).zero) := by
    funext env
    split
    · rfl
    · show (0 : R) = 0 + 0
      rw [add_zero]
  rw [this, sumM_add]

end concrete

end FV.Props.C11.Tape
