/-
  Props/C12.lean — Gaussian pointwise algebra agrees with the dense quadratic form.

  Part A: the algebraic identities behind every operation, over any commutative ring and any finite
          index types (Mathlib `Matrix`).  `quad x w P = ‖x P − w‖²`, so `G(x; w, P) = −½ quad x w P`.
  Part B: the same statements for the executable model `FV.C12` (index functions over `Rat`, sums
          `sumTo`), for all inputs — these are the definitions the driver runs against funsor.
  Part C: the block-layout bookkeeping (`_compute_offsets`, kept/substituted index lists).

  LAPACK factorisations are parameters: `compress_rank` assumes `Pᵀ = Q R` and `Qᵀ Q = 1` and nothing else.
-/
import FunsorVerif.Model.C12
import Mathlib.Algebra.BigOperators.Fin
import Mathlib.Algebra.BigOperators.Intervals
import Mathlib.Algebra.BigOperators.Ring.Finset
import Mathlib.Data.Matrix.Mul
import Mathlib.Data.Matrix.ColumnRowPartitioned
import Mathlib.Tactic.Ring
import Mathlib.Tactic.Linarith
namespace FV.Props.C12
open Matrix

/-! ## Part A — abstract identities -/
section Abstract
variable {K : Type*} [CommRing K]
variable {m n r r₁ r₂ a b ι : Type*}
variable [Fintype m] [Fintype n] [Fintype r] [Fintype r₁] [Fintype r₂] [Fintype a] [Fintype b] [Fintype ι]

/-- `‖x P − w‖²`; the Gaussian log-density is `-1/2` of it. -/
def quad (x : n → K) (w : r → K) (P : Matrix n r K) : K := (x ᵥ* P - w) ⬝ᵥ (x ᵥ* P - w)

/-- Gaussian + Gaussian = concatenation of the columns of prec_sqrt and of white_vec. -/
theorem gauss_add_concat (x : n → K) (w₁ : r₁ → K) (w₂ : r₂ → K) (P₁ : Matrix n r₁ K) (P₂ : Matrix n r₂ K) :
    quad x (Sum.elim w₁ w₂) (fromCols P₁ P₂) = quad x w₁ P₁ + quad x w₂ P₂ := by
  simp [quad, dotProduct, Matrix.vecMul, Fintype.sum_sum_type]

/-- Partial real substitution: `G([xa xb]; w, [Pa; Pb]) = G(xa; w − xb Pb, Pa)`. -/
theorem gauss_subs_real_partial (xa : a → K) (xb : b → K) (w : r → K) (Pa : Matrix a r K) (Pb : Matrix b r K) :
    quad (Sum.elim xa xb) w (fromRows Pa Pb) = quad xa (w - xb ᵥ* Pb) Pa := by
  unfold quad
  have : Sum.elim xa xb ᵥ* fromRows Pa Pb - w = xa ᵥ* Pa - (w - xb ᵥ* Pb) := by
    ext j; simp [Matrix.vecMul, dotProduct, Fintype.sum_sum_type]; ring
  rw [this]

/-- Full real substitution is evaluation (definitional), recorded for completeness. -/
theorem gauss_subs_real_full (x : n → K) (w : r → K) (P : Matrix n r K) :
    quad x w P = ∑ j, (∑ i, x i * P i j - w j) ^ 2 := by
  simp [quad, dotProduct, Matrix.vecMul, pow_two]

/-- Affine substitution `x = y A + b`: `G(yA+b; w, P) = G(y; w − bP, AP)`. -/
theorem gauss_subs_affine (y : m → K) (A : Matrix m n K) (c : n → K) (w : r → K) (P : Matrix n r K) :
    quad (y ᵥ* A + c) w P = quad y (w - c ᵥ* P) (A * P) := by
  unfold quad
  have : (y ᵥ* A + c) ᵥ* P - w = y ᵥ* (A * P) - (w - c ᵥ* P) := by
    rw [add_vecMul, vecMul_vecMul]; abel
  rw [this]

/-- Align: a permutation of the rows of prec_sqrt together with the same permutation of x. -/
theorem gauss_align (e : m ≃ n) (x : n → K) (w : r → K) (P : Matrix n r K) :
    quad (x ∘ e) w (P.submatrix e id) = quad x w P := by
  unfold quad
  have : (x ∘ e) ᵥ* P.submatrix e id = x ᵥ* P := by
    ext j
    simp only [Matrix.vecMul, dotProduct, Function.comp, submatrix_apply, id]
    exact Equiv.sum_comp e (fun i => x i * P i j)
  rw [this]

/-- Align with expansion: inputs the Gaussian does not have get zero rows. -/
theorem gauss_align_zero_rows (x : n → K) (z : m → K) (w : r → K) (P : Matrix n r K) :
    quad (Sum.elim x z) w (fromRows P (0 : Matrix m r K)) = quad x w P := by
  unfold quad
  have : Sum.elim x z ᵥ* fromRows P (0 : Matrix m r K) = x ᵥ* P := by
    ext j; simp [Matrix.vecMul, dotProduct, Fintype.sum_sum_type]
  rw [this]

/-- Cat pads the rank with zero columns. -/
theorem gauss_cat_pad (x : n → K) (w : r₁ → K) (P : Matrix n r₁ K) :
    quad x (Sum.elim w (0 : r₂ → K)) (fromCols P (0 : Matrix n r₂ K)) = quad x w P := by
  rw [gauss_add_concat]; simp [quad]

/-- Plate fusion: summing the Gaussians of a finite family = concatenating all their columns. -/
theorem gauss_plate_fusion (x : n → K) (w : ι → r → K) (P : ι → Matrix n r K) :
    quad x (fun p : ι × r => w p.1 p.2) (Matrix.of fun i (p : ι × r) => P p.1 i p.2) = ∑ k, quad x (w k) (P k) := by
  simp [quad, dotProduct, Matrix.vecMul, Fintype.sum_prod_type]

/-- Integer indexing is pointwise: selecting a batch point commutes with evaluation (definitional). -/
theorem gauss_int_index (x : n → K) (w : ι → r → K) (P : ι → Matrix n r K) (k : ι) :
    (fun k => quad x (w k) (P k)) k = quad x (w k) (P k) := rfl

/-- Dense conversion: `Λ = P Pᵀ`, `η = P w`, `‖w‖²`:  `‖xP − w‖² = xΛxᵀ − 2 x·η + ‖w‖²`. -/
theorem dense_of_sqrt (x : n → K) (w : r → K) (P : Matrix n r K) :
    quad x w P = x ⬝ᵥ ((P * Pᵀ) *ᵥ x) - 2 * (x ⬝ᵥ (P *ᵥ w)) + w ⬝ᵥ w := by
  unfold quad
  have h1 : x ⬝ᵥ ((P * Pᵀ) *ᵥ x) = (x ᵥ* P) ⬝ᵥ (x ᵥ* P) := by
    rw [← mulVec_mulVec, dotProduct_mulVec, mulVec_transpose]
  have h2 : x ⬝ᵥ (P *ᵥ w) = (x ᵥ* P) ⬝ᵥ w := dotProduct_mulVec x P w
  rw [h1, h2, sub_dotProduct, dotProduct_sub, dotProduct_sub, dotProduct_comm w (x ᵥ* P)]
  ring

/-- Rank compression, QR branch: with `Pᵀ = Q R` and `Qᵀ Q = 1`,
    `‖xP − w‖² = ‖x Rᵀ − wQ‖² + (‖w‖² − ‖wQ‖²)`. -/
theorem compress_rank [DecidableEq n] (x : n → K) (w : r → K) (P : Matrix n r K) (Q : Matrix r n K) (R : Matrix n n K)
    (hfac : Pᵀ = Q * R) (horth : Qᵀ * Q = 1) :
    quad x w P = quad x (w ᵥ* Q) Rᵀ + (w ⬝ᵥ w - (w ᵥ* Q) ⬝ᵥ (w ᵥ* Q)) := by
  have hP : P = Rᵀ * Qᵀ := by
    have := congrArg transpose hfac
    rwa [transpose_transpose, transpose_mul] at this
  unfold quad
  set u := x ᵥ* Rᵀ with hu
  have hxP : x ᵥ* P = u ᵥ* Qᵀ := by rw [hP, ← vecMul_vecMul]
  have huu : (u ᵥ* Qᵀ) ⬝ᵥ (u ᵥ* Qᵀ) = u ⬝ᵥ u := by
    rw [← dotProduct_mulVec, mulVec_transpose, vecMul_vecMul, horth, vecMul_one]
  have huw : (u ᵥ* Qᵀ) ⬝ᵥ w = u ⬝ᵥ (w ᵥ* Q) := by
    rw [← dotProduct_mulVec, mulVec_transpose]
  rw [hxP]
  simp only [sub_dotProduct, dotProduct_sub]
  rw [huu, huw, dotProduct_comm w (u ᵥ* Qᵀ), huw, dotProduct_comm (w ᵥ* Q) u]
  ring

/-- The hypotheses of `compress_rank` are satisfiable (a wide P = [0 3], Q a unit column). -/
example : ∃ (P : Matrix (Fin 1) (Fin 2) ℚ) (Q : Matrix (Fin 2) (Fin 1) ℚ) (R : Matrix (Fin 1) (Fin 1) ℚ),
    Pᵀ = Q * R ∧ Qᵀ * Q = 1 := by
  refine ⟨Matrix.of fun _ j => if j = 1 then 3 else 0, Matrix.of fun j _ => if j = 1 then 1 else 0,
          Matrix.of fun _ _ => 3, ?_, ?_⟩
  · ext j i; simp [Matrix.mul_apply]
  · ext i j; simp [Matrix.mul_apply, Fin.sum_univ_two, Matrix.one_apply, Subsingleton.elim i j]

/-- Probing an affine function at 0 and at the basis vectors recovers its coefficients
    (what `extract_affine` does, affine.py:117-169). -/
theorem affine_probe [DecidableEq m] (A : Matrix m n K) (c : n → K) (i : m) :
    (Pi.single i 1 ᵥ* A + c) - ((0 : m → K) ᵥ* A + c) = A i := by
  ext j; simp [Matrix.vecMul, dotProduct, Pi.single_apply]

/-- Constructor `mean` + `prec_sqrt`: `white_vec = mean · prec_sqrt` gives `‖(x − μ) P‖²`. -/
theorem constructor_mean_prec_sqrt (x μ : n → K) (P : Matrix n r K) :
    quad x (μ ᵥ* P) P = ((x - μ) ᵥ* P) ⬝ᵥ ((x - μ) ᵥ* P) := by
  unfold quad; rw [sub_vecMul]

/-- Constructor `info_vec` with a triangular (any) factor `L Lᵀ = Λ`, `L w = η` gives the dense form. -/
theorem constructor_info_vec (x η : n → K) (w : n → K) (L : Matrix n n K) (Λ : Matrix n n K)
    (hL : L * Lᵀ = Λ) (hw : L *ᵥ w = η) :
    quad x w L = x ⬝ᵥ (Λ *ᵥ x) - 2 * (x ⬝ᵥ η) + w ⬝ᵥ w := by
  rw [dense_of_sqrt, hL, hw]

end Abstract

/-! ## Part B — the executable model -/
open FV.C12

theorem sumTo_eq_sum (n : Nat) (f : Nat → Rat) : sumTo n f = ∑ i ∈ Finset.range n, f i := by
  induction n with
  | zero => simp [sumTo]
  | succ n ih => simp [sumTo, ih, Finset.sum_range_succ]

theorem sumTo_congr {n : Nat} {f g : Nat → Rat} (h : ∀ i, i < n → f i = g i) : sumTo n f = sumTo n g := by
  rw [sumTo_eq_sum, sumTo_eq_sum]
  exact Finset.sum_congr rfl (fun i hi => h i (Finset.mem_range.mp hi))

theorem sumTo_split (n m : Nat) (f : Nat → Rat) :
    sumTo (n + m) f = sumTo n f + sumTo m (fun j => f (n + j)) := by
  simp only [sumTo_eq_sum]
  exact Finset.sum_range_add f n m

theorem sumTo_list (n : Nat) (f : Nat → Rat) : sumTo n f = ((List.range n).map f).sum := by
  induction n with
  | zero => simp [sumTo]
  | succ n ih => simp [sumTo, ih, List.range_succ]

theorem sumTo_gather (idx : List Nat) (f : Nat → Rat) :
    sumTo idx.length (fun i => match idx[i]? with | some s => f s | none => 0) = (idx.map f).sum := by
  rw [sumTo_eq_sum, Finset.sum_range, ← Fin.sum_univ_fun_getElem idx f]
  apply Finset.sum_congr rfl
  intro i _
  simp

theorem sumTo_zero (n : Nat) : sumTo n (fun _ => 0) = 0 := by
  rw [sumTo_eq_sum]; simp

/-- interpretation of the index functions as Mathlib vectors / matrices -/
def toVec (n : Nat) (v : V) : Fin n → ℚ := fun i => v i
def toMat (n r : Nat) (A : M) : Matrix (Fin n) (Fin r) ℚ := Matrix.of fun i j => A i j

theorem sumTo_fin (n : Nat) (f : Nat → Rat) : sumTo n f = ∑ i : Fin n, f i := by
  rw [sumTo_eq_sum, Finset.sum_range]

theorem toVec_vecMul (n r : Nat) (x : V) (A : M) : toVec r (vecMul n x A) = toVec n x ᵥ* toMat n r A := by
  ext j; simp [toVec, toMat, FV.C12.vecMul, Matrix.vecMul, dotProduct, sumTo_fin]

theorem toVec_mulVec (n r : Nat) (A : M) (w : V) : toVec n (mulVec r A w) = toMat n r A *ᵥ toVec r w := by
  ext i; simp [toVec, toMat, FV.C12.mulVec, Matrix.mulVec, dotProduct, sumTo_fin]

theorem dot_eq (n : Nat) (u v : V) : dot n u v = toVec n u ⬝ᵥ toVec n v := by
  simp [toVec, dot, dotProduct, sumTo_fin]

theorem toMat_matMul (n k r : Nat) (A B : M) : toMat n r (matMul k A B) = toMat n k A * toMat k r B := by
  ext i j; simp [toMat, matMul, Matrix.mul_apply, sumTo_fin]

theorem toMat_tr (n r : Nat) (A : M) : toMat r n (tr A) = (toMat n r A)ᵀ := by
  ext i j; simp [toMat, tr]

theorem toVec_vsub (n : Nat) (u v : V) : toVec n (vsub u v) = toVec n u - toVec n v := by
  ext i; simp [toVec, vsub]

theorem toVec_vadd (n : Nat) (u v : V) : toVec n (vadd u v) = toVec n u + toVec n v := by
  ext i; simp [toVec, vadd]

/-- the model's `eval` is `-1/2 quad` of the interpreted data -/
theorem eval_eq_quad (g : SG) (x : V) :
    g.eval x = -(1/2) * quad (toVec g.dim x) (toVec g.rank g.w) (toMat g.dim g.rank g.P) := by
  simp [SG.eval, norm2, dot_eq, toVec_vsub, toVec_vecMul, quad]

/-- **dense_of_sqrt** for the model: evaluating the square-root form and evaluating the dense triple
    `(P Pᵀ, P w, -1/2‖w‖²)` agree at every point. -/
theorem model_dense_of_sqrt (g : SG) (x : V) : g.eval x = g.dense.eval x := by
  rw [eval_eq_quad, dense_of_sqrt]
  simp only [SG.dense, Dense.eval, norm2, dot_eq, toVec_mulVec, toMat_matMul, toMat_tr]
  ring

/-- **gauss_add_concat** for the model: adding aligned Gaussians = concatenating columns. -/
theorem model_add_concat (a b : SG) (x : V) :
    (SG.addAligned a b).eval x = a.eval x + ({ b with dim := a.dim } : SG).eval x := by
  simp only [SG.eval, SG.addAligned, norm2, dot]
  rw [sumTo_split]
  have h1 : sumTo a.rank (fun i => vsub (vecMul a.dim x (hcat a.rank a.P b.P)) (vappend a.rank a.w b.w) i *
        vsub (vecMul a.dim x (hcat a.rank a.P b.P)) (vappend a.rank a.w b.w) i)
      = sumTo a.rank (fun i => vsub (vecMul a.dim x a.P) a.w i * vsub (vecMul a.dim x a.P) a.w i) := by
    apply sumTo_congr; intro j hj
    simp [vsub, FV.C12.vecMul, hcat, vappend, hj]
  have h2 : sumTo b.rank (fun j => vsub (vecMul a.dim x (hcat a.rank a.P b.P)) (vappend a.rank a.w b.w) (a.rank + j) *
        vsub (vecMul a.dim x (hcat a.rank a.P b.P)) (vappend a.rank a.w b.w) (a.rank + j))
      = sumTo b.rank (fun i => vsub (vecMul a.dim x b.P) b.w i * vsub (vecMul a.dim x b.P) b.w i) := by
    apply sumTo_congr; intro j _
    simp [vsub, FV.C12.vecMul, hcat, vappend]
  rw [h1, h2]; ring

/-- **gauss_cat_pad** for the model: zero padding of the rank does not change the function. -/
theorem model_pad_rank (g : SG) (k : Nat) (x : V) : (g.padRank (g.rank + k)).eval x = g.eval x := by
  simp only [SG.eval, SG.padRank, norm2, dot]
  rw [sumTo_split]
  have h1 : sumTo g.rank (fun i => vsub (vecMul g.dim x (fun i j => if j < g.rank then g.P i j else 0))
        (fun j => if j < g.rank then g.w j else 0) i * vsub (vecMul g.dim x (fun i j => if j < g.rank then g.P i j else 0))
        (fun j => if j < g.rank then g.w j else 0) i)
      = sumTo g.rank (fun i => vsub (vecMul g.dim x g.P) g.w i * vsub (vecMul g.dim x g.P) g.w i) := by
    apply sumTo_congr; intro j hj
    simp [vsub, FV.C12.vecMul, hj]
  have h2 : sumTo k (fun j => vsub (vecMul g.dim x (fun i j => if j < g.rank then g.P i j else 0))
        (fun j => if j < g.rank then g.w j else 0) (g.rank + j) * vsub (vecMul g.dim x (fun i j => if j < g.rank then g.P i j else 0))
        (fun j => if j < g.rank then g.w j else 0) (g.rank + j)) = 0 := by
    rw [← sumTo_zero k]
    apply sumTo_congr; intro j _
    simp [vsub, FV.C12.vecMul, sumTo_zero]
  rw [h1, h2]; ring

/-- **gauss_plate_fusion** for the model: the fused Gaussian evaluates to the sum over the plate. -/
theorem model_plate_fusion (dim : Nat) (gs : List SG) (x : V) :
    (SG.fuse dim gs).eval x = (gs.map fun g => ({ g with dim := dim } : SG).eval x).sum := by
  induction gs with
  | nil => simp [SG.fuse, SG.eval, norm2, dot, sumTo]
  | cons g gs ih =>
    simp only [SG.fuse, List.map_cons, List.sum_cons]
    rw [model_add_concat]
    have : ({ SG.fuse dim gs with dim := ({ g with dim := dim } : SG).dim } : SG) = SG.fuse dim gs := by
      cases gs <;> rfl
    rw [this, ih]

/-- **gauss_subs_affine** for the model: `G(yA + b; w, P) = G(y; w − bP, AP)`. -/
theorem model_subs_affine (g : SG) (k : Nat) (A : M) (c : V) (y : V) :
    (g.subsAffineRaw k A c).eval y = g.eval (vadd (vecMul k y A) c) := by
  show SG.eval { dim := k, rank := g.rank, w := vsub g.w (vecMul g.dim c g.P), P := matMul g.dim A g.P } y = _
  rw [eval_eq_quad, eval_eq_quad]
  simp only [toVec_vsub, toVec_vecMul, toMat_matMul, toVec_vadd]
  rw [gauss_subs_affine]

/-- the sum over all flat positions splits along any partition into kept and substituted positions -/
theorem sum_split_perm (n : Nat) (ia ib : List Nat) (h : (ia ++ ib).Perm (List.range n)) (f : Nat → Rat) :
    sumTo n f = sumTo ia.length (fun i => match ia[i]? with | some s => f s | none => 0)
              + sumTo ib.length (fun i => match ib[i]? with | some s => f s | none => 0) := by
  rw [sumTo_gather, sumTo_gather, sumTo_list, ← List.sum_append, ← List.map_append]
  exact ((h.map f).sum_eq).symm

/-- **gauss_subs_real_partial** for the model: for kept positions `ia` and substituted positions `ib`
    partitioning `0..dim`, `G(x; w, P) = G(x[ia]; w − x[ib] P[ib], P[ia])`. -/
theorem model_subs_real_partial (g : SG) (ia ib : List Nat) (h : (ia ++ ib).Perm (List.range g.dim)) (x : V) :
    (g.subsSplit ia ib (gatherVec ib x)).eval (gatherVec ia x) = g.eval x := by
  simp only [SG.eval, SG.subsSplit, norm2, dot]
  congr 1
  apply sumTo_congr; intro j _
  have key : vecMul g.dim x g.P j
      = vecMul ia.length (gatherVec ia x) (gatherRows ia g.P) j
        + vecMul ib.length (gatherVec ib x) (gatherRows ib g.P) j := by
    simp only [FV.C12.vecMul]
    rw [sum_split_perm g.dim ia ib h]
    congr 1
    · apply sumTo_congr; intro i _; simp only [gatherVec, gatherRows]; cases ia[i]? <;> simp
    · apply sumTo_congr; intro i _; simp only [gatherVec, gatherRows]; cases ib[i]? <;> simp
  simp only [vsub, key]; ring

/-- **compress_rank** for the model, with `Q`, `R` supplied: under `Pᵀ = Q R` and `Qᵀ Q = 1` (checked
    entrywise on the index ranges) the compressed Gaussian plus the shift is the original function. -/
theorem model_compress_rank (g : SG) (Q R : M) (x : V)
    (hfac : ∀ j, j < g.rank → ∀ i, i < g.dim → g.P i j = matMul g.dim Q R j i)
    (horth : ∀ i, i < g.dim → ∀ j, j < g.dim → matMul g.rank (tr Q) Q i j = idM i j) :
    g.eval x = (g.compressWith Q R).1.eval x + (g.compressWith Q R).2 := by
  have hfac' : (toMat g.dim g.rank g.P)ᵀ = toMat g.rank g.dim Q * toMat g.dim g.dim R := by
    rw [← toMat_matMul]; ext j i
    simp only [toMat, transpose_apply, of_apply]
    exact hfac j j.2 i i.2
  have horth' : (toMat g.rank g.dim Q)ᵀ * toMat g.rank g.dim Q = 1 := by
    rw [← toMat_tr, ← toMat_matMul]; ext i j
    simp only [toMat, of_apply, Matrix.one_apply]
    rw [horth i i.2 j j.2]; simp [idM, Fin.ext_iff]
  show g.eval x = SG.eval { dim := g.dim, rank := g.dim, w := vecMul g.rank g.w Q, P := tr R } x
      + (1/2) * (norm2 g.dim (vecMul g.rank g.w Q) - norm2 g.rank g.w)
  rw [eval_eq_quad, eval_eq_quad, compress_rank _ _ _ _ _ hfac' horth']
  simp only [norm2, dot_eq, toVec_vecMul, toMat_tr]
  ring

/-! ## Part C — block layout -/

/-- `_compute_offsets`: the offset of a block is the total size of the blocks before it. -/
theorem offsetsFrom_append (s : Nat) (a b : Inputs) :
    offsetsFrom s (a ++ b) = offsetsFrom s a ++ offsetsFrom (s + total a) b := by
  induction a generalizing s with
  | nil => simp [offsetsFrom, total]
  | cons p a ih =>
    obtain ⟨k, sz⟩ := p
    simp only [List.cons_append, offsetsFrom, total, ih, List.cons.injEq, true_and]
    rw [Nat.add_assoc]

theorem offsets_prefix_sum (a : Inputs) (k : String) (sz : Nat) (b : Inputs) :
    (k, total a) ∈ offsetsFrom 0 (a ++ (k, sz) :: b) := by
  rw [offsetsFrom_append]; simp [offsetsFrom]

theorem offsets_keys (s : Nat) (inp : Inputs) : (offsetsFrom s inp).map (·.1) = inp.map (·.1) := by
  induction inp generalizing s with
  | nil => rfl
  | cons p rest ih => obtain ⟨k, sz⟩ := p; simp [offsetsFrom, ih]

theorem total_append (a b : Inputs) : total (a ++ b) = total a + total b := by
  induction a with
  | nil => simp [total]
  | cons p a ih => obtain ⟨k, sz⟩ := p; simp [total, ih, Nat.add_assoc]

/-- the kept and the substituted flat positions partition `start .. start + total`: the hypothesis of
    `model_subs_real_partial` holds for the index lists `_eager_subs_real` builds. -/
theorem blockIdx_partition (inp : Inputs) (sel : String → Bool) (start : Nat) :
    (blockIdx start inp (fun k => !sel k) ++ blockIdx start inp sel).Perm (List.range' start (total inp)) := by
  induction inp generalizing start with
  | nil => simp [blockIdx, total]
  | cons p rest ih =>
    obtain ⟨k, sz⟩ := p
    have hr : List.range' start (sz + total rest) = List.range' start sz ++ List.range' (start + sz) (total rest) := by
      rw [List.range'_append_1]
    simp only [blockIdx, total, hr]
    have ih' := ih (start + sz)
    rcases Bool.eq_false_or_eq_true (sel k) with hs | hs
    · simp only [hs, Bool.not_true, Bool.false_eq_true, ↓reduceIte, List.nil_append]
      refine List.Perm.trans ?_ (List.Perm.append_left _ ih')
      rw [← List.append_assoc, ← List.append_assoc]
      exact List.Perm.append_right _ List.perm_append_comm
    · simp only [hs, Bool.not_false, Bool.false_eq_true, ↓reduceIte, List.nil_append, List.append_assoc]
      exact List.Perm.append_left _ ih'

/-- **gauss_subs_real_partial** at the named level: the Gaussian `_eager_subs_real` returns for a
    partial substitution evaluates, at the kept values, to the original at the combined point. -/
theorem named_subs_real_partial (g : NG) (isB : String → Bool) (x : V) :
    (g.raw.subsSplit (blockIdx 0 g.inputs (fun k => !isB k)) (blockIdx 0 g.inputs isB)
        (gatherVec (blockIdx 0 g.inputs isB) x)).eval (gatherVec (blockIdx 0 g.inputs (fun k => !isB k)) x)
      = g.raw.eval x := by
  apply model_subs_real_partial
  have := blockIdx_partition g.inputs isB 0
  rwa [List.range_eq_range']

/-- `List.lookup` only depends on the set of pairs when the keys are distinct -/
theorem lookup_perm {β : Type} (k : String) {l1 l2 : List (String × β)} (h : l1.Perm l2)
    (hn : (l1.map (·.1)).Nodup) : l1.lookup k = l2.lookup k := by
  induction h with
  | nil => rfl
  | cons x _ ih =>
    obtain ⟨a, v⟩ := x
    simp only [List.map_cons, List.nodup_cons] at hn
    simp only [List.lookup_cons]
    rw [ih hn.2]
  | swap x y l =>
    obtain ⟨a, v⟩ := x
    obtain ⟨b, u⟩ := y
    simp only [List.map_cons, List.nodup_cons, List.mem_cons, not_or] at hn
    have hab : b ≠ a := hn.1.1
    simp only [List.lookup_cons]
    by_cases h1 : k = a
    · subst h1
      have : (k == b) = false := by simpa using (fun h => hab h.symm)
      simp [this]
    · have : (k == a) = false := by simpa using h1
      simp [this]
  | trans h12 _ ih1 ih2 =>
    rw [ih1 hn, ih2 ((h12.map _).nodup_iff.mp hn)]

/-- **subsReal_perm**: `_eager_subs_real` must not depend on the order in which the substitution pairs arrive. -/
theorem subsReal_perm (g : NG) (s1 s2 : List (String × List Rat)) (h : s1.Perm s2)
    (hn : (s1.map (·.1)).Nodup) : g.subsReal s1 = g.subsReal s2 := by
  have hf := h.filter (fun p => hasKey p.1 g.inputs)
  have hnf : ((s1.filter fun p => hasKey p.1 g.inputs).map (·.1)).Nodup :=
    hn.sublist ((List.filter_sublist).map _)
  have hl : ∀ k, (s1.filter fun p => hasKey p.1 g.inputs).lookup k
      = (s2.filter fun p => hasKey p.1 g.inputs).lookup k := fun k => lookup_perm k hf hnf
  simp only [NG.subsReal, hl]

/-- the hypothesis of `subsReal_perm` is satisfiable, and the two orders really are different lists -/
example : ([("x", [1]), ("y", [(2 : Rat)])].map (·.1)).Nodup ∧
    [("x", [1]), ("y", [(2 : Rat)])].Perm [("y", [2]), ("x", [1])] := by
  refine ⟨by decide, List.Perm.swap _ _ _⟩

end FV.Props.C12
