/-
  Props/C12/Affine.lean — named-level soundness of `_eager_subs_affine` (gaussian.py:746-839 on HEAD, i.e.
  with the self-reference and cross-reference fixes): the Gaussian the model builds evaluates, at every named point `y` of the
  NEW inputs, to the old Gaussian at the point where each substituted input is `const + Σ coeff·new` and every
  other input keeps its value — including new variables named like substituted ones.

  The statement is under explicit well-formedness of the new layout `affineNewInputs` (distinct names, kept
  inputs and every coefficient's variable present with its size).  These are decidable facts about the
  OrderedDict bookkeeping (787-793); they are *exactly* what the two defects fixed in 0884c52 / 0e6c1b0
  violated (`subsAffine_needs_layout_witness` below).  Deriving them from the fold in `affineNewInputs` for all
  inputs is the part not proved here (`…_partial`): the driver's answers are compared with the implementation's
  `.inputs` on every case instead.
-/
import FunsorVerif.Props.C12.Named
namespace FV.Props.C12
open FV.C12

theorem locate_cons_lt (k : String) (sz : Nat) (rest : Inputs) (i : Nat) (h : i < sz) :
    locate ((k, sz) :: rest) i = some (k, i) := by simp [locate, h]

theorem locate_cons_ge (k : String) (sz : Nat) (rest : Inputs) (j : Nat) :
    locate ((k, sz) :: rest) (sz + j) = locate rest j := by simp [locate]

/-- every flat position below `total` lies in a block of the layout -/
theorem locate_some_of_lt (inp : Inputs) (i : Nat) (h : i < total inp) :
    ∃ k e sz, locate inp i = some (k, e) ∧ (k, sz) ∈ inp ∧ e < sz := by
  induction inp generalizing i with
  | nil => simp [total] at h
  | cons p rest ih =>
    obtain ⟨k, sz⟩ := p
    by_cases hi : i < sz
    · exact ⟨k, i, sz, locate_cons_lt _ _ _ _ hi, List.mem_cons_self, hi⟩
    · have hi' : i = sz + (i - sz) := by omega
      have hlt : i - sz < total rest := by simp only [total] at h; omega
      obtain ⟨k', e, sz', h1, h2, h3⟩ := ih (i - sz) hlt
      refine ⟨k', e, sz', ?_, List.mem_cons_of_mem _ h2, h3⟩
      rw [hi', locate_cons_ge]; exact h1

/-- a sum over all flat positions of a layout of a weight that only depends on the (name, element) of the
    position is the sum over the named blocks -/
theorem named_sum (inp : Inputs) (y : Point) (W : String → Nat → Rat) :
    sumTo (total inp) (fun i => flat inp y i * (match locate inp i with | some (k, e) => W k e | none => 0))
      = (inp.map fun p => sumTo p.2 (fun e => y p.1 e * W p.1 e)).sum := by
  induction inp with
  | nil => simp [total, sumTo]
  | cons p rest ih =>
    obtain ⟨k, sz⟩ := p
    simp only [total, List.map_cons, List.sum_cons]
    rw [sumTo_split, ← ih]
    congr 1
    · apply sumTo_congr; intro i hi
      rw [flat_cons_lt _ _ _ _ _ hi, locate_cons_lt _ _ _ _ hi]
    · apply sumTo_congr; intro i _
      rw [flat_cons_ge, locate_cons_ge]

theorem sumTo_indicator (n : Nat) (f : Nat → Rat) (e : Nat) (he : e < n) :
    sumTo n (fun i => f i * (if i = e then 1 else 0)) = f e := by
  rw [sumTo_eq_sum]
  rw [Finset.sum_eq_single e]
  · simp
  · intro b _ hb; simp [hb]
  · intro h; exact absurd (Finset.mem_range.mpr he) h

theorem find?_of_nodup_keys {β : Type} (l : List (String × β)) (hn : (l.map (·.1)).Nodup) (c : String × β)
    (hc : c ∈ l) : l.find? (fun q => q.1 == c.1) = some c := by
  induction l with
  | nil => cases hc
  | cons a rest ih =>
    simp only [List.map_cons, List.nodup_cons] at hn
    rcases List.mem_cons.mp hc with h | h
    · subst h; simp
    · have hne : (a.1 == c.1) = false := by
        have : a.1 ≠ c.1 := fun e => hn.1 (e ▸ List.mem_map_of_mem h)
        simpa using this
      simp only [List.find?_cons, hne]
      exact ih hn.2 h

/-- the point of the OLD inputs that the substitution denotes at a point `y` of the new inputs -/
def affinePoint (subs : List AffSub) (y : Point) : Point := fun k e =>
  match subs.find? fun s => s.name == k with
  | none => y k e
  | some s => s.const.getD e 0 +
      (s.coeffs.map fun c => sumTo c.2.1 (fun ne => y c.1 ne * (c.2.2.getD ne []).getD e 0)).sum

/-- well-formedness of the new layout w.r.t. the substitutions -/
structure AffineLayoutOk (old new : Inputs) (subs : List AffSub) : Prop where
  newNodup : KeysNodup new
  kept : ∀ p, p ∈ old → (subs.find? fun s => s.name == p.1) = none → p ∈ new
  coeffIn : ∀ s, s ∈ subs → ∀ c, c ∈ s.coeffs → (c.1, c.2.1) ∈ new
  coeffNodup : ∀ s, s ∈ subs → (s.coeffs.map (·.1)).Nodup

/-- **gauss_subs_affine, named** (`subsAffine_sound`): with `x = affinePoint subs y`,
    `G_new(y) = G_old(x)`, for simultaneous substitutions whose expressions may mention kept inputs, shared new
    variables, the substituted input itself (self-reference) or another substituted input (cross-reference). -/
theorem subsAffine_sound (g : NG) (subs : List AffSub) (y : Point)
    (hin : ∀ s, s ∈ subs → hasKey s.name g.inputs = true)
    (hok : AffineLayoutOk g.inputs (affineNewInputs g.inputs subs) subs) :
    (g.subsAffine subs).eval y = g.eval (affinePoint subs y) := by
  have hfilter : subs.filter (fun s => hasKey s.name g.inputs) = subs :=
    List.filter_eq_self.mpr hin
  set new := affineNewInputs g.inputs subs with hnew
  have hev : (g.subsAffine subs).eval y
      = (g.raw.subsAffineRaw (total new) (affineMatrix g.inputs new subs) (affineVector g.inputs subs)).eval
          (flat new y) := by
    simp only [NG.subsAffine, hfilter, NG.eval, NG.raw, NG.dim, SG.subsAffineRaw]
    rfl
  rw [hev, model_subs_affine]
  -- both points agree on every flat position of the old layout
  suffices key : ∀ i, i < total g.inputs →
      vadd (vecMul (total new) (flat new y) (affineMatrix g.inputs new subs)) (affineVector g.inputs subs) i
        = flat g.inputs (affinePoint subs y) i by
    simp only [NG.eval, NG.raw, SG.eval, norm2, dot, NG.dim]
    congr 1
    apply sumTo_congr; intro j _
    have hv : vecMul (total g.inputs)
          (vadd (vecMul (total new) (flat new y) (affineMatrix g.inputs new subs)) (affineVector g.inputs subs)) g.P j
        = vecMul (total g.inputs) (flat g.inputs (affinePoint subs y)) g.P j := by
      simp only [FV.C12.vecMul]
      apply sumTo_congr; intro i hi; rw [key i hi]
    simp only [vsub, hv]
  intro i hi
  obtain ⟨ok, oe, osz, hloc, hmem, hlt⟩ := locate_some_of_lt g.inputs i hi
  -- left: (y A + c) i ; right: flat old x i = x ok oe
  have hflat : flat g.inputs (affinePoint subs y) i = affinePoint subs y ok oe := by simp [flat, hloc]
  rw [hflat]
  simp only [vadd, FV.C12.vecMul]
  -- the matrix column `i` as a named weight on the new layout
  cases hs : subs.find? (fun s => s.name == ok) with
  | none =>
    have hA : ∀ i', affineMatrix g.inputs new subs i' i
        = (match locate new i' with | some (nk, ne) => (if nk == ok && ne == oe then 1 else 0) | none => 0) := by
      intro i'
      simp only [affineMatrix, hloc]
      cases locate new i' with
      | none => rfl
      | some q => obtain ⟨nk, ne⟩ := q; simp [hs]
    have hc : affineVector g.inputs subs i = 0 := by simp [affineVector, hloc, hs]
    simp only [hA, hc, add_zero, affinePoint, hs]
    rw [named_sum new y (fun nk ne => if nk == ok && ne == oe then 1 else 0)]
    have hpn : (ok, osz) ∈ new := hok.kept _ hmem hs
    rw [blocks_sum_eq [(ok, osz)] new (by simp [KeysNodup]) hok.newNodup
      (by intro p hp; simp only [List.mem_singleton] at hp; exact hp ▸ hpn)]
    · simp only [List.map_cons, List.map_nil, List.sum_cons, List.sum_nil, add_zero, beq_self_eq_true,
        Bool.true_and]
      have := sumTo_indicator osz (fun ne => y ok ne) oe hlt
      simpa using this
    · intro p hp
      have hne : (p.1 == ok) = false := by simpa using hp
      calc sumTo p.2 (fun e => y p.1 e * (if (p.1 == ok && e == oe) = true then 1 else 0))
          = sumTo p.2 (fun _ => 0) := sumTo_congr (fun e _ => by simp [hne])
        _ = 0 := sumTo_zero _
  | some s =>
    have hsmem : s ∈ subs := List.mem_of_find?_eq_some hs
    let W : String → Nat → Rat := fun nk ne =>
      match s.coeffs.find? (fun c => c.1 == nk) with
      | some c => (c.2.2.getD ne []).getD oe 0
      | none => 0
    have hA : ∀ i', affineMatrix g.inputs new subs i' i
        = (match locate new i' with | some (nk, ne) => W nk ne | none => 0) := by
      intro i'
      simp only [affineMatrix, hloc]
      cases locate new i' with
      | none => rfl
      | some q =>
        obtain ⟨nk, ne⟩ := q
        simp only [hs, W]
        cases List.find? (fun c => c.1 == nk) s.coeffs <;> rfl
    have hc : affineVector g.inputs subs i = s.const.getD oe 0 := by simp [affineVector, hloc, hs]
    simp only [hA, hc, affinePoint, hs]
    rw [named_sum new y W, add_comm]
    congr 1
    have hcn := hok.coeffNodup s hsmem
    have hpairs : KeysNodup (s.coeffs.map fun c => (c.1, c.2.1)) := by
      simpa [KeysNodup, List.map_map, Function.comp_def] using hcn
    rw [blocks_sum_eq (s.coeffs.map fun c => (c.1, c.2.1)) new hpairs hok.newNodup
      (by intro p hp; obtain ⟨c, hcm, rfl⟩ := List.mem_map.mp hp; exact hok.coeffIn s hsmem c hcm)]
    · rw [List.map_map]
      congr 1
      apply List.map_congr_left
      intro c hcm
      simp only [Function.comp_def]
      apply sumTo_congr; intro ne _
      have : s.coeffs.find? (fun q => q.1 == c.1) = some c := find?_of_nodup_keys _ hcn c hcm
      simp [W, this]
    · intro p hp
      have hnone : s.coeffs.find? (fun c => c.1 == p.1) = none := by
        rw [List.find?_eq_none]
        intro c hcm hce
        apply hp
        simp only [List.map_map, List.mem_map, Function.comp_def]
        exact ⟨c, hcm, by simpa using hce⟩
      calc sumTo p.2 (fun e => y p.1 e * W p.1 e)
          = sumTo p.2 (fun _ => 0) := sumTo_congr (fun e _ => by simp [W, hnone])
        _ = 0 := sumTo_zero _

/-- the OrderedDict bookkeeping as it was before commit 0e6c1b0: delete and set interleaved per substitution -/
def affineNewInputsInterleaved (old : Inputs) (subs : List AffSub) : Inputs :=
  subs.foldl (fun inp s =>
    let inp := inp.filter fun p => p.1 != s.name
    s.coeffs.foldl (fun inp c =>
      if hasKey c.1 inp then inp.map (fun p => if p.1 == c.1 then (c.1, c.2.1) else p)
      else inp ++ [(c.1, c.2.1)]) inp) old

def witSubs : List AffSub :=
  [{ name := "x", const := [1], coeffs := [("y", 1, [[1]])] },       -- x := y + 1
   { name := "y", const := [0], coeffs := [("x", 1, [[2]])] }]       -- y := 2 x

/-- the layout hypothesis of `subsAffine_sound` is what the cross-reference defect violated: with the
    interleaved bookkeeping the new variable `y` (introduced by `x := y + 1`) is deleted again, so `coeffIn`
    fails; the two-pass bookkeeping of HEAD keeps it. -/
theorem subsAffine_needs_layout_witness :
    ("y", 1) ∉ affineNewInputsInterleaved [("x", 1), ("y", 1)] witSubs ∧
    ("y", 1) ∈ affineNewInputs [("x", 1), ("y", 1)] witSubs ∧
    ("x", 1) ∈ affineNewInputs [("x", 1), ("y", 1)] witSubs := by
  decide

end FV.Props.C12
