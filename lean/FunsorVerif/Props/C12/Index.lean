/-
  Props/C12/Index.lean — integer indexing of SEVERAL batch inputs in one substitution call
  (Gaussian._eager_subs_int, gaussian.py:659-690, via Subs(Tensor(x, int_inputs), subs)).
  Model: Model/C12Index.lean.  The per-pair axis must be looked up in the inputs that are left after the
  earlier pairs; `subsInts_sound` states the property for any number / order / position of pairs, and
  `subsIntsStale_witness` shows that axes computed once from the original inputs give a wrong value under
  the right names as soon as two inputs are indexed and sizes are equal (seed C12_14).  The run-time side is
  the multi-index stream of fv/harness/c12.py.
-/
import FunsorVerif.Props.C12.Named
import FunsorVerif.Model.C12Index
namespace FV.Props.C12
open FV.C12

theorem map_override_of_not_mem (k : String) (v : Nat) (env : String → Nat) (rest : List (String × Nat))
    (h : k ∉ rest.map (·.1)) :
    rest.map (fun p => if p.1 = k then v else env p.1) = rest.map (fun p => env p.1) := by
  induction rest with
  | nil => rfl
  | cons p rest ih =>
    simp only [List.map_cons, List.mem_cons, not_or] at h ⊢
    rw [ih h.2, if_neg (fun e => h.1 e.symm)]

/-- ONE integer index: fixing the axis of `k` (looked up in the current inputs) at `v` gives, at every named point of
    the remaining inputs, the old entry at that point extended by `k ↦ v`. -/
theorem indexAxis_sound {α : Type} (k : String) (v : Nat) (inp : List (String × Nat)) (data : List Nat → α)
    (env : String → Nat) (hn : (inp.map (·.1)).Nodup) (hk : k ∈ inp.map (·.1)) :
    atNamed (eraseKey k inp) (indexAxis (axisOf k inp) v data) env
      = atNamed inp data (fun n => if n = k then v else env n) := by
  unfold atNamed indexAxis
  congr 1
  induction inp with
  | nil => simp at hk
  | cons p rest ih =>
    simp only [List.map_cons, List.nodup_cons] at hn
    by_cases hp : p.1 = k
    · simp only [eraseKey, axisOf, if_pos hp, insertAt, List.map_cons]
      rw [map_override_of_not_mem k v env rest (hp ▸ hn.1)]
    · have hk' : k ∈ rest.map (·.1) := by
        simp only [List.map_cons, List.mem_cons] at hk
        rcases hk with h | h
        · exact absurd h.symm hp
        · exact h
      simp only [eraseKey, axisOf, if_neg hp, insertAt, List.map_cons, ih hn.2 hk']

theorem eraseKey_keys_sub (k : String) (inp : List (String × Nat)) :
    ∀ x, x ∈ (eraseKey k inp).map (·.1) → x ∈ inp.map (·.1) := by
  induction inp with
  | nil => simp [eraseKey]
  | cons p rest ih =>
    intro x hx
    by_cases hp : p.1 = k
    · simp only [eraseKey, if_pos hp] at hx; simp [hx]
    · simp only [eraseKey, if_neg hp, List.map_cons, List.mem_cons] at hx ⊢
      rcases hx with h | h
      · exact Or.inl h
      · exact Or.inr (ih x h)

theorem eraseKey_nodup (k : String) (inp : List (String × Nat)) (hn : (inp.map (·.1)).Nodup) :
    ((eraseKey k inp).map (·.1)).Nodup := by
  induction inp with
  | nil => simp [eraseKey]
  | cons p rest ih =>
    simp only [List.map_cons, List.nodup_cons] at hn
    by_cases hp : p.1 = k
    · simp only [eraseKey, if_pos hp]; exact hn.2
    · simp only [eraseKey, if_neg hp, List.map_cons, List.nodup_cons]
      exact ⟨fun h => hn.1 (eraseKey_keys_sub k rest _ h), ih hn.2⟩

theorem eraseKey_mem_of_ne (k x : String) (inp : List (String × Nat)) (hx : x ∈ inp.map (·.1)) (hne : x ≠ k) :
    x ∈ (eraseKey k inp).map (·.1) := by
  induction inp with
  | nil => simp at hx
  | cons p rest ih =>
    simp only [List.map_cons, List.mem_cons] at hx
    by_cases hp : p.1 = k
    · simp only [eraseKey, if_pos hp]
      rcases hx with h | h
      · exact absurd (h.trans hp) hne
      · exact h
    · simp only [eraseKey, if_neg hp, List.map_cons, List.mem_cons]
      rcases hx with h | h
      · exact Or.inl h
      · exact Or.inr (ih h)

/-- SEVERAL integer indices in one call (`g(i=0, j=1, ...)`), any number, any order of the pairs, any position of the
    indexed inputs: the result at every named point of the remaining inputs is the old entry at that point extended
    by all the pairs.  (Hypotheses: distinct input names, distinct substituted names, all of them inputs.) -/
theorem subsInts_sound {α : Type} (subs : List (String × Nat)) :
    ∀ (inp : List (String × Nat)) (data : List Nat → α) (env : String → Nat),
      (inp.map (·.1)).Nodup → (subs.map (·.1)).Nodup → (∀ k ∈ subs.map (·.1), k ∈ inp.map (·.1)) →
      atNamed (subsInts subs inp data).1 (subsInts subs inp data).2 env = atNamed inp data (override subs env) := by
  induction subs with
  | nil => intro inp data env _ _ _; rfl
  | cons kv subs ih =>
    obtain ⟨k, v⟩ := kv
    intro inp data env hn hs hk
    simp only [List.map_cons, List.nodup_cons, List.mem_cons] at hs hk
    simp only [subsInts]
    rw [ih (eraseKey k inp) _ env (eraseKey_nodup k inp hn) hs.2
        (fun x hx => eraseKey_mem_of_ne k x inp (hk x (Or.inr hx)) (fun e => hs.1 (e ▸ hx)))]
    rw [indexAxis_sound k v inp data _ hn (hk k (Or.inl rfl))]
    rfl

/-- hypotheses are satisfiable, and the statement has content: i, j, k of one size, `g(i=0, j=1)` read at k=1 -/
example : atNamed (subsInts [("i", 0), ("j", 1)] [("i", 2), ("j", 2), ("k", 2)] id).1
    (subsInts [("i", 0), ("j", 1)] [("i", 2), ("j", 2), ("k", 2)] id).2 (fun _ => 1) = [0, 1, 1] := by decide

/-- Axes computed once from the original inputs are wrong from the second pair on: `g(i=0, j=1)` read at k=0 returns
    the entry (i=0, j=0, k=1) — a wrong value under the right names when the sizes are equal (seed C12_14). -/
theorem subsIntsStale_witness :
    atNamed (subsIntsStale [("i", 2), ("j", 2), ("k", 2)] [("i", 0), ("j", 1)] [("i", 2), ("j", 2), ("k", 2)] id).1
      (subsIntsStale [("i", 2), ("j", 2), ("k", 2)] [("i", 0), ("j", 1)] [("i", 2), ("j", 2), ("k", 2)] id).2
      (fun _ => 0) = [0, 0, 1]
    ∧ atNamed [("i", 2), ("j", 2), ("k", 2)] id (override [("i", 0), ("j", 1)] (fun _ => 0)) = [0, 1, 0] := by
  decide

end FV.Props.C12
