/-
  Props/C12/Named.lean — soundness of the *named* layer of the Gaussian model (Model/C12.lean):
  the block layout by `_compute_offsets`, `align_gaussian`, Gaussian + Gaussian with different /
  reordered inputs, `Gaussian.align`, and the batch-axis alignment `align_tensor`.

  Both defects seeded for C12 lived exactly here (skipping the alignment when key sets or batch shapes
  coincide), so the theorems state what the alignment must achieve — the value at every NAMED point is
  preserved — and the witnesses show that skipping it is wrong precisely in the equal-size case.
-/
import FunsorVerif.Props.C12
import Mathlib.Algebra.BigOperators.Group.List.Basic
import Mathlib.Algebra.BigOperators.Group.Finset.Basic
namespace FV.Props.C12
open FV.C12

def KeysNodup (inp : Inputs) : Prop := (inp.map (·.1)).Nodup

theorem flat_cons_lt (k : String) (sz : Nat) (rest : Inputs) (x : Point) (i : Nat) (h : i < sz) :
    flat ((k, sz) :: rest) x i = x k i := by
  simp [flat, locate, h]

theorem flat_cons_ge (k : String) (sz : Nat) (rest : Inputs) (x : Point) (j : Nat) :
    flat ((k, sz) :: rest) x (sz + j) = flat rest x j := by
  simp [flat, locate]

theorem gatherRowsOpt_append_lt (l1 l2 : List (Option Nat)) (A : M) (i j : Nat) (h : i < l1.length) :
    gatherRowsOpt (l1 ++ l2) A i j = gatherRowsOpt l1 A i j := by
  simp [gatherRowsOpt, List.getElem?_append_left h]

theorem gatherRowsOpt_append_ge (l1 l2 : List (Option Nat)) (A : M) (i j : Nat) :
    gatherRowsOpt (l1 ++ l2) A (l1.length + i) j = gatherRowsOpt l2 A i j := by
  simp [gatherRowsOpt, List.getElem?_append_right]

/-- contribution of one named block to `x P`, the block's rows found through the offset table -/
def blockTerm (offs : List (String × Nat)) (x : Point) (P : M) (j : Nat) (p : String × Nat) : Rat :=
  match offs.lookup p.1 with
  | some o => sumTo p.2 (fun e => x p.1 e * P (o + e) j)
  | none => 0

theorem lookup_none_of_not_mem {β : Type} (k : String) (l : List (String × β)) (h : k ∉ l.map (·.1)) :
    l.lookup k = none := by
  induction l with
  | nil => rfl
  | cons p l ih =>
    obtain ⟨a, v⟩ := p
    simp only [List.map_cons, List.mem_cons, not_or] at h
    have : (k == a) = false := by simpa using h.1
    simp [List.lookup_cons, this, ih h.2]

/-- the aligned matrix, summed against the new flat point, block by block -/
theorem aligned_sum (old new : Inputs) (x : Point) (P : M) (j : Nat) :
    sumTo (total new) (fun i => flat new x i * gatherRowsOpt (alignSrc old new) P i j)
      = (new.map (blockTerm (offsetsFrom 0 old) x P j)).sum := by
  induction new with
  | nil => simp [total, sumTo]
  | cons p rest ih =>
    obtain ⟨k, sz⟩ := p
    simp only [total, List.map_cons, List.sum_cons]
    rw [sumTo_split, ← ih]
    congr 1
    · -- the block of `k`
      cases hl : (offsetsFrom 0 old).lookup k with
      | none =>
        simp only [blockTerm, hl]
        rw [← sumTo_zero sz]
        apply sumTo_congr; intro i hi
        have : gatherRowsOpt (alignSrc old ((k, sz) :: rest)) P i j = 0 := by
          simp only [alignSrc, hl]
          rw [gatherRowsOpt_append_lt _ _ _ _ _ (by simpa using hi)]
          simp [gatherRowsOpt, hi]
        rw [this]; ring
      | some o =>
        simp only [blockTerm, hl]
        apply sumTo_congr; intro i hi
        rw [flat_cons_lt _ _ _ _ _ hi]
        have : gatherRowsOpt (alignSrc old ((k, sz) :: rest)) P i j = P (o + i) j := by
          simp only [alignSrc, hl]
          rw [gatherRowsOpt_append_lt _ _ _ _ _ (by simpa using hi)]
          simp [gatherRowsOpt, hi]
        rw [this]
    · -- the remaining blocks, shifted by `sz`
      apply sumTo_congr; intro i _
      rw [flat_cons_ge]
      congr 1
      have hlen : ∀ blk : List (Option Nat), blk.length = sz →
          gatherRowsOpt (blk ++ alignSrc old rest) P (sz + i) j = gatherRowsOpt (alignSrc old rest) P i j := by
        intro blk hb; rw [← hb]; exact gatherRowsOpt_append_ge _ _ _ _ _
      simp only [alignSrc]
      cases (offsetsFrom 0 old).lookup k with
      | none => exact hlen _ (by simp)
      | some o => exact hlen _ (by simp)

/-- the original matrix, summed against the old flat point, block by block (offsets = running sums) -/
theorem old_sum (s : Nat) (old : Inputs) (hn : KeysNodup old) (x : Point) (P : M) (j : Nat) :
    sumTo (total old) (fun i => flat old x i * P (s + i) j)
      = (old.map (blockTerm (offsetsFrom s old) x P j)).sum := by
  induction old generalizing s with
  | nil => simp [total, sumTo]
  | cons p rest ih =>
    obtain ⟨k, sz⟩ := p
    have hn' : KeysNodup rest := by
      unfold KeysNodup at hn ⊢; simp only [List.map_cons, List.nodup_cons] at hn; exact hn.2
    have hk : k ∉ rest.map (·.1) := by
      unfold KeysNodup at hn; simp only [List.map_cons, List.nodup_cons] at hn; exact hn.1
    simp only [total, List.map_cons, List.sum_cons, offsetsFrom]
    rw [sumTo_split]
    congr 1
    · simp only [blockTerm, List.lookup_cons, beq_self_eq_true]
      apply sumTo_congr; intro i hi
      rw [flat_cons_lt _ _ _ _ _ hi]
    · have := ih (s + sz) hn'
      have e1 : sumTo (total rest) (fun j_1 => flat ((k, sz) :: rest) x (sz + j_1) * P (s + (sz + j_1)) j)
          = sumTo (total rest) (fun i => flat rest x i * P (s + sz + i) j) := by
        apply sumTo_congr; intro i _
        rw [flat_cons_ge, Nat.add_assoc]
      rw [e1, this]
      congr 1
      apply List.map_congr_left
      intro q hq
      have hne : (q.1 == k) = false := by
        have : q.1 ≠ k := fun h => hk (h ▸ List.mem_map_of_mem hq)
        simpa using this
      simp [blockTerm, List.lookup_cons, hne]

/-- a block sum over the new layout only sees the blocks of the old layout -/
theorem blocks_sum_eq (old new : Inputs) (hno : KeysNodup old) (hnn : KeysNodup new)
    (hsub : ∀ p, p ∈ old → p ∈ new) (T : String × Nat → Rat)
    (hT : ∀ p, p.1 ∉ old.map (·.1) → T p = 0) :
    (new.map T).sum = (old.map T).sum := by
  have hdo : old.Nodup := List.Nodup.of_map _ hno
  have hdn : new.Nodup := List.Nodup.of_map _ hnn
  rw [← List.sum_toFinset T hdo, ← List.sum_toFinset T hdn]
  symm
  apply Finset.sum_subset
  · intro p hp; simp only [List.mem_toFinset] at hp ⊢; exact hsub p hp
  · intro p hp hnp
    simp only [List.mem_toFinset] at hp hnp
    apply hT
    intro hk
    obtain ⟨q, hq, hqk⟩ := List.mem_map.mp hk
    have hqn := hsub q hq
    -- two pairs of `new` with the same key are equal
    have : q = p := by
      have hinj := List.inj_on_of_nodup_map hnn
      exact hinj hqn hp hqk
    exact hnp (this ▸ hq)

/-- **gauss_align, named**: `align_gaussian(new_inputs, old)` preserves the value at every named point,
    for any reordering / extension of the real inputs (distinct names, blocks keep their sizes). -/
theorem alignTo_sound (g : NG) (new : Inputs) (hno : KeysNodup g.inputs) (hnn : KeysNodup new)
    (hsub : ∀ p, p ∈ g.inputs → p ∈ new) (x : Point) :
    (g.alignTo new).eval x = g.eval x := by
  simp only [NG.eval, NG.raw, NG.alignTo, NG.dim, SG.eval, norm2, dot]
  congr 1
  apply sumTo_congr; intro j _
  have key : vecMul (total new) (flat new x) (gatherRowsOpt (alignSrc g.inputs new) g.P) j
      = vecMul (total g.inputs) (flat g.inputs x) g.P j := by
    simp only [FV.C12.vecMul]
    rw [aligned_sum]
    have h0 := old_sum 0 g.inputs hno x g.P j
    simp only [Nat.zero_add] at h0
    rw [h0]
    apply blocks_sum_eq _ _ hno hnn hsub
    intro p hp
    have : (offsetsFrom 0 g.inputs).lookup p.1 = none :=
      lookup_none_of_not_mem _ _ (by rw [offsets_keys]; exact hp)
    simp [blockTerm, this]
  simp only [vsub, key]

/-! ### Gaussian + Gaussian and Gaussian.align at the named level -/

def SizesAgree (a b : Inputs) : Prop := ∀ p ∈ a, ∀ q ∈ b, p.1 = q.1 → p.2 = q.2

theorem hasKey_iff (k : String) (inp : Inputs) : hasKey k inp = true ↔ k ∈ inp.map (·.1) := by
  simp only [hasKey, List.any_eq_true, beq_iff_eq, List.mem_map]

theorem updateInputs_keysNodup (a b : Inputs) (ha : KeysNodup a) (hb : KeysNodup b) :
    KeysNodup (updateInputs a b) := by
  unfold KeysNodup updateInputs
  rw [List.map_append, List.nodup_append]
  refine ⟨ha, hb.sublist ((List.filter_sublist).map _), ?_⟩
  intro k hk k' hk' heq
  subst heq
  obtain ⟨q, hq, rfl⟩ := List.mem_map.mp hk'
  have hq2 := (List.mem_filter.mp hq).2
  have : hasKey q.1 a = true := (hasKey_iff _ _).mpr hk
  simp [this] at hq2

theorem updateInputs_left (a b : Inputs) : ∀ p, p ∈ a → p ∈ updateInputs a b := by
  intro p hp; exact List.mem_append_left _ hp

theorem updateInputs_right (a b : Inputs) (hs : SizesAgree a b) : ∀ q, q ∈ b → q ∈ updateInputs a b := by
  intro q hq
  unfold updateInputs
  by_cases h : hasKey q.1 a = true
  · obtain ⟨p, hp, hpk⟩ := List.mem_map.mp ((hasKey_iff _ _).mp h)
    have h2 := hs p hp q hq hpk
    have : p = q := Prod.ext hpk h2
    exact List.mem_append_left _ (this ▸ hp)
  · exact List.mem_append_right _ (List.mem_filter.mpr ⟨hq, by simpa using h⟩)

/-- **NG.add_sound** (eager_add_gaussian_gaussian, any two input orders / overlaps): at every named point
    the sum Gaussian evaluates to the sum of the operands.  Its inputs are `lhs.inputs.update(rhs.inputs)`. -/
theorem NG.add_sound (a b : NG) (ha : KeysNodup a.inputs) (hb : KeysNodup b.inputs)
    (hs : SizesAgree a.inputs b.inputs) (x : Point) :
    (NG.add a b).eval x = a.eval x + b.eval x ∧ (NG.add a b).inputs = updateInputs a.inputs b.inputs := by
  refine ⟨?_, rfl⟩
  have hn := updateInputs_keysNodup _ _ ha hb
  have h1 := alignTo_sound a _ ha hn (updateInputs_left _ _) x
  have h2 := alignTo_sound b _ hb hn (updateInputs_right _ _ hs) x
  rw [← h1, ← h2]
  exact model_add_concat (a.alignTo (updateInputs a.inputs b.inputs)).raw
    (b.alignTo (updateInputs a.inputs b.inputs)).raw (flat (updateInputs a.inputs b.inputs) x)

theorem filterMap_key_sublist (names : List String) (inp : Inputs) :
    ((names.filterMap fun k => inp.find? fun p => p.1 == k).map (·.1)).Sublist names := by
  induction names with
  | nil => simp
  | cons k rest ih =>
    simp only [List.filterMap_cons]
    cases hf : inp.find? (fun p => p.1 == k) with
    | none => exact ih.cons _
    | some p =>
      have : p.1 = k := by simpa using List.find?_some hf
      simp only [List.map_cons, this]
      exact ih.cons₂ _

/-- **NG.align_sound** (Gaussian.align): the named inputs come first, the value at every named point is
    unchanged. -/
theorem NG.align_sound (g : NG) (names : List String) (r : NG) (hg : KeysNodup g.inputs) (hnames : names.Nodup)
    (h : g.align names = some r) (x : Point) :
    r.eval x = g.eval x ∧
      r.inputs = updateInputs (names.filterMap fun k => g.inputs.find? fun p => p.1 == k) g.inputs := by
  unfold NG.align at h
  split at h
  · cases h
    refine ⟨?_, rfl⟩
    set first := names.filterMap fun k => g.inputs.find? fun p => p.1 == k with hfirst
    have hfn : KeysNodup first := hnames.sublist (filterMap_key_sublist names g.inputs)
    have hmem : ∀ p, p ∈ first → p ∈ g.inputs := by
      intro p hp
      obtain ⟨k, _, hk⟩ := List.mem_filterMap.mp hp
      exact List.mem_of_find?_eq_some hk
    have hs : SizesAgree first g.inputs := by
      intro p hp q hq hpq
      have := List.inj_on_of_nodup_map hg (hmem p hp) hq hpq
      rw [this]
    exact alignTo_sound g _ hg (updateInputs_keysNodup _ _ hfn hg) (updateInputs_right _ _ hs) x
  · cases h

/-- what the alignment is *for*: concatenating the columns without aligning the real blocks (as a change that
    skips `align_gaussian` when the key sets coincide would do) is wrong exactly when equally-sized blocks are
    stored in a different order. -/
def naiveAdd (a b : NG) : NG :=
  { inputs := a.inputs, rank := a.rank + b.rank, w := vappend a.rank a.w b.w, P := hcat a.rank a.P b.P }

def witA : NG := { inputs := [("x", 1), ("y", 1)], rank := 1, w := fun _ => 0, P := fun i _ => if i = 0 then 1 else 0 }
def witB : NG := { inputs := [("y", 1), ("x", 1)], rank := 1, w := fun _ => 0, P := fun i _ => if i = 0 then 1 else 0 }
def witX : Point := fun k _ => if k = "x" then 1 else 0

theorem add_without_align_witness :
    (naiveAdd witA witB).eval witX ≠ witA.eval witX + witB.eval witX ∧
    (NG.add witA witB).eval witX = witA.eval witX + witB.eval witX := by
  constructor
  · decide +kernel
  · decide +kernel

/-! ### batch axes -/

theorem lookup_zip_map (keys : List String) (env : String → Nat) (k : String) (hk : k ∈ keys) :
    (keys.zip (keys.map env)).lookup k = some (env k) := by
  induction keys with
  | nil => cases hk
  | cons a rest ih =>
    simp only [List.map_cons, List.zip_cons_cons, List.lookup_cons]
    by_cases h : k = a
    · subst h; simp
    · have : (k == a) = false := by simpa using h
      simp only [this]
      exact ih (by simpa [h] using hk)

/-- **align_tensor is sound**: after aligning the batch axes to any layout that contains the old names, the
    entry at every NAMED batch point is the old entry at that point. -/
theorem alignBatch_sound {α : Type} (new old : List (String × Nat)) (data : List Nat → α) (env : String → Nat)
    (hsub : ∀ p, p ∈ old → p.1 ∈ new.map (·.1)) :
    atNamed new (alignBatch new old data) env = atNamed old data env := by
  unfold atNamed alignBatch
  congr 1
  apply List.map_congr_left
  intro p hp
  unfold namedIndex
  have : (new.map fun q => env q.1) = (new.map (·.1)).map env := by simp
  rw [this, lookup_zip_map _ _ _ (hsub p hp)]

/-- skipping the permutation because the batch SHAPES coincide (seeded defect C12_1) is wrong: with inputs
    (i, j) → (j, i) of equal size the positional entry is read at the transposed point. -/
theorem alignBatch_needed_witness :
    let old := [("i", 2), ("j", 2)]
    let new := [("j", 2), ("i", 2)]
    let data : List Nat → List Nat := id
    let env : String → Nat := fun k => if k = "i" then 0 else 1
    atNamed new data env ≠ atNamed old data env ∧
    atNamed new (alignBatch new old data) env = atNamed old data env := by
  decide

end FV.Props.C12
