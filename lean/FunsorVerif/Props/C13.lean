/-
  Props/C13.lean — Gaussian marginals, normalisers and integrals are exact (algebraic closed forms).

  Everything is an identity over a commutative ring: inverses and Cholesky factors are *parameters*
  satisfying their defining equations (`B * Binv = 1`, `L * Lᵀ = Λ`), exactly what the driver checks
  before it answers.  The identification of the closed forms with Lebesgue integrals is not proved
  (the property itself takes the closed form as oracle).

  Notation: a Gaussian in square-root form has dense parameters Λ = P Pᵀ, η = P w, c = -1/2 ‖w‖²
  (Props/C12.lean `dense_of_sqrt`).  Rows of P split into kept `Pa` and integrated `Pb`.
-/
import FunsorVerif.Model.C13
import FunsorVerif.Props.C12
import Mathlib.LinearAlgebra.Matrix.NonsingularInverse
import Mathlib.LinearAlgebra.Matrix.Block
import Mathlib.Tactic.LinearCombination
namespace FV.Props.C13
open Matrix

section Abstract
variable {K : Type*} [CommRing K]
variable {a b r n ι : Type*} [Fintype a] [Fintype b] [Fintype r] [Fintype n] [Fintype ι]
variable [DecidableEq a] [DecidableEq b] [DecidableEq r] [DecidableEq n]

/-- the rank × rank projection the code builds (`proj_a = (L⁻¹Pb)ᵀ(L⁻¹Pb)` = `Pbᵀ (Pb Pbᵀ)⁻¹ Pb`) -/
def proj (Pb : Matrix b r K) (Binv : Matrix b b K) : Matrix r r K := Pbᵀ * Binv * Pb

/-- the inverse of a symmetric matrix is symmetric -/
theorem inv_symm (B Binv : Matrix b b K) (hB : Bᵀ = B) (h1 : B * Binv = 1) (h2 : Binv * B = 1) :
    Binvᵀ = Binv := by
  have h3 : Binvᵀ * B = 1 := by
    have := congrArg transpose h1
    rwa [transpose_mul, hB, transpose_one] at this
  calc Binvᵀ = Binvᵀ * (B * Binv) := by rw [h1, Matrix.mul_one]
    _ = (Binvᵀ * B) * Binv := by rw [Matrix.mul_assoc]
    _ = Binv := by rw [h3, Matrix.one_mul]

theorem proj_symm (Pb : Matrix b r K) (Binv : Matrix b b K) (hs : Binvᵀ = Binv) :
    (proj Pb Binv)ᵀ = proj Pb Binv := by
  simp [proj, transpose_mul, hs, Matrix.mul_assoc]

theorem proj_idem (Pb : Matrix b r K) (Binv : Matrix b b K) (h1 : (Pb * Pbᵀ) * Binv = 1) :
    proj Pb Binv * proj Pb Binv = proj Pb Binv := by
  unfold proj
  calc Pbᵀ * Binv * Pb * (Pbᵀ * Binv * Pb) = Pbᵀ * Binv * ((Pb * Pbᵀ) * Binv) * Pb := by
        simp only [Matrix.mul_assoc]
    _ = Pbᵀ * Binv * Pb := by rw [h1, Matrix.mul_one]

/-- `S = 1 − proj` is symmetric and idempotent (the comment at gaussian.py:886-889). -/
theorem S_symm (Pb : Matrix b r K) (Binv : Matrix b b K) (hs : Binvᵀ = Binv) :
    (1 - proj Pb Binv)ᵀ = 1 - proj Pb Binv := by
  rw [transpose_sub, transpose_one, proj_symm Pb Binv hs]

theorem S_idem (Pb : Matrix b r K) (Binv : Matrix b b K) (h1 : (Pb * Pbᵀ) * Binv = 1) :
    (1 - proj Pb Binv) * (1 - proj Pb Binv) = 1 - proj Pb Binv := by
  rw [Matrix.sub_mul, Matrix.mul_sub, Matrix.mul_sub, Matrix.one_mul, Matrix.mul_one, Matrix.one_mul,
    proj_idem Pb Binv h1]
  abel

/-- **marginal_sqrt_form**, precision: the returned `Pa S` has precision the Schur complement
    `Λaa − Λab Λbb⁻¹ Λba`. -/
theorem marginal_sqrt_form_precision (Pa : Matrix a r K) (Pb : Matrix b r K) (Binv : Matrix b b K)
    (hs : Binvᵀ = Binv) (h1 : (Pb * Pbᵀ) * Binv = 1) :
    (Pa * (1 - proj Pb Binv)) * (Pa * (1 - proj Pb Binv))ᵀ
      = Pa * Paᵀ - (Pa * Pbᵀ) * Binv * (Pb * Paᵀ) := by
  rw [transpose_mul, S_symm Pb Binv hs]
  calc Pa * (1 - proj Pb Binv) * ((1 - proj Pb Binv) * Paᵀ)
      = Pa * ((1 - proj Pb Binv) * (1 - proj Pb Binv)) * Paᵀ := by simp only [Matrix.mul_assoc]
    _ = Pa * (1 - proj Pb Binv) * Paᵀ := by rw [S_idem Pb Binv h1]
    _ = Pa * Paᵀ - (Pa * Pbᵀ) * Binv * (Pb * Paᵀ) := by
        simp only [proj, Matrix.mul_sub, Matrix.sub_mul, Matrix.mul_one, Matrix.mul_assoc]

/-- **marginal_sqrt_form**, information vector: `(Pa S)(w S)ᵀ = ηa − Λab Λbb⁻¹ ηb`. -/
theorem marginal_sqrt_form_info (Pa : Matrix a r K) (Pb : Matrix b r K) (Binv : Matrix b b K) (w : r → K)
    (hs : Binvᵀ = Binv) (h1 : (Pb * Pbᵀ) * Binv = 1) :
    (Pa * (1 - proj Pb Binv)) *ᵥ (w ᵥ* (1 - proj Pb Binv))
      = Pa *ᵥ w - ((Pa * Pbᵀ) * Binv) *ᵥ (Pb *ᵥ w) := by
  have hw : w ᵥ* (1 - proj Pb Binv) = (1 - proj Pb Binv) *ᵥ w := by
    rw [← mulVec_transpose, S_symm Pb Binv hs]
  rw [hw, mulVec_mulVec, Matrix.mul_assoc, S_idem Pb Binv h1]
  simp only [proj, Matrix.mul_sub, Matrix.mul_one, sub_mulVec, ← mulVec_mulVec, Matrix.mul_assoc]

/-- **marginal_sqrt_form**, constant: `‖w S‖² = ‖w‖² − ηbᵀ Λbb⁻¹ ηb`, i.e. the constant of the result is
    `c + ½ ηbᵀΛbb⁻¹ηb` (the remaining `dim_b/2·log 2π − ½ log det Λbb` is added as a Tensor by the code). -/
theorem marginal_sqrt_form_const (Pb : Matrix b r K) (Binv : Matrix b b K) (w : r → K)
    (hs : Binvᵀ = Binv) (h1 : (Pb * Pbᵀ) * Binv = 1) :
    (w ᵥ* (1 - proj Pb Binv)) ⬝ᵥ (w ᵥ* (1 - proj Pb Binv))
      = w ⬝ᵥ w - (Pb *ᵥ w) ⬝ᵥ (Binv *ᵥ (Pb *ᵥ w)) := by
  have hw : w ᵥ* (1 - proj Pb Binv) = (1 - proj Pb Binv) *ᵥ w := by
    rw [← mulVec_transpose, S_symm Pb Binv hs]
  have h2 : (w ᵥ* (1 - proj Pb Binv)) ⬝ᵥ ((1 - proj Pb Binv) *ᵥ w) = w ⬝ᵥ ((1 - proj Pb Binv) *ᵥ w) := by
    rw [← dotProduct_mulVec, mulVec_mulVec, S_idem Pb Binv h1]
  have h3 : (w ᵥ* (1 - proj Pb Binv)) ⬝ᵥ (w ᵥ* (1 - proj Pb Binv))
      = (w ᵥ* (1 - proj Pb Binv)) ⬝ᵥ ((1 - proj Pb Binv) *ᵥ w) := by rw [← hw]
  rw [h3, h2, sub_mulVec, one_mulVec, dotProduct_sub]
  congr 1
  simp only [proj, ← mulVec_mulVec]
  rw [dotProduct_mulVec, vecMul_transpose]

/-- the `rank = dim_b` branch (empty Gaussian, gaussian.py:1079-1089): when `Pb` is square with
    `Pb Pbᵀ` invertible the projection is the identity, so `S = 0` and the general formula gives the
    zero Gaussian the code returns. -/
theorem marginal_rank_eq_dim (Pb : Matrix b b K) (Binv : Matrix b b K) (h1 : (Pb * Pbᵀ) * Binv = 1) :
    1 - proj Pb Binv = 0 := by
  have h : Pb * (Pbᵀ * Binv) = 1 := by rw [← Matrix.mul_assoc]; exact h1
  have h' : (Pbᵀ * Binv) * Pb = 1 := (_root_.mul_eq_one_comm).mp h
  simp [proj, h']

/-- the hypotheses of `marginal_sqrt_form_*` are satisfiable (Pb = [1 0], Binv = 1). -/
example : ∃ (Pb : Matrix (Fin 1) (Fin 2) ℚ) (Binv : Matrix (Fin 1) (Fin 1) ℚ),
    Binvᵀ = Binv ∧ (Pb * Pbᵀ) * Binv = 1 := by
  refine ⟨Matrix.of fun _ j => if j = 0 then 1 else 0, 1, by simp, ?_⟩
  ext i j
  have hi : i = 0 := Subsingleton.elim _ _
  have hj : j = 0 := Subsingleton.elim _ _
  subst hi; subst hj
  simp [Matrix.mul_apply]

/-- **log_normalizer_formula**, determinant: with a lower-triangular `L Lᵀ = Λ`,
    `det Λ = (∏ Lᵢᵢ)²`, i.e. `½ log det Λ = Σ log Lᵢᵢ` (`_log_det_tri`). -/
theorem log_normalizer_det [LinearOrder n] (L Λ : Matrix n n K) (hL : L * Lᵀ = Λ)
    (htri : L.BlockTriangular OrderDual.toDual) :
    Λ.det = (∏ i, L i i) ^ 2 := by
  rw [← hL, det_mul, det_transpose, det_of_lowerTriangular L htri, pow_two]

/-- **log_normalizer_formula**, rank shift: the code's `‖L⁻¹ η‖²` is `ηᵀ Λ⁻¹ η`. -/
theorem log_normalizer_shift (L Linv Λ Λinv : Matrix n n K) (η : n → K) (hL : L * Lᵀ = Λ)
    (hLinv : Linv * L = 1) (hLinv' : L * Linv = 1) (hΛ : Λinv * Λ = 1) :
    (Linv *ᵥ η) ⬝ᵥ (Linv *ᵥ η) = η ⬝ᵥ (Λinv *ᵥ η) := by
  have h1 : Λ * (Linvᵀ * Linv) = 1 := by
    rw [← hL]
    calc L * Lᵀ * (Linvᵀ * Linv) = L * ((Linv * L)ᵀ * Linv) := by
          rw [transpose_mul]; simp only [Matrix.mul_assoc]
      _ = 1 := by rw [hLinv, transpose_one, Matrix.one_mul, hLinv']
  have h2 : Linvᵀ * Linv = Λinv := by
    calc Linvᵀ * Linv = (Λinv * Λ) * (Linvᵀ * Linv) := by rw [hΛ, Matrix.one_mul]
      _ = Λinv * (Λ * (Linvᵀ * Linv)) := by rw [Matrix.mul_assoc]
      _ = Λinv := by rw [h1, Matrix.mul_one]
  have key := dotProduct_mulVec η Linvᵀ (Linv *ᵥ η)
  rw [vecMul_transpose] at key
  rw [← h2, ← mulVec_mulVec]
  exact key.symm

/-- when `rank = dim` the code skips the shift (gaussian.py:576-577): indeed for a square invertible
    `P`, `ηᵀΛ⁻¹η = ‖w‖²` with `η = P w`, `Λ = P Pᵀ`. -/
theorem log_normalizer_no_shift (P Λinv : Matrix n n K) (w : n → K) (hΛ : (P * Pᵀ) * Λinv = 1) :
    (P *ᵥ w) ⬝ᵥ (Λinv *ᵥ (P *ᵥ w)) = w ⬝ᵥ w := by
  have h : P * (Pᵀ * Λinv) = 1 := by rw [← Matrix.mul_assoc]; exact hΛ
  have h' : (Pᵀ * Λinv) * P = 1 := (_root_.mul_eq_one_comm).mp h
  have h'' : Pᵀ * (Λinv * P) = 1 := by rw [← Matrix.mul_assoc]; exact h'
  calc (P *ᵥ w) ⬝ᵥ (Λinv *ᵥ (P *ᵥ w)) = (w ᵥ* Pᵀ) ⬝ᵥ (Λinv *ᵥ (P *ᵥ w)) := by rw [vecMul_transpose]
    _ = w ⬝ᵥ (Pᵀ *ᵥ (Λinv *ᵥ (P *ᵥ w))) := (dotProduct_mulVec w Pᵀ _).symm
    _ = w ⬝ᵥ w := by simp only [mulVec_mulVec, Matrix.mul_assoc, h'', one_mulVec]

/-- **marginal_commutes** with pointwise evaluation of the remaining inputs: evaluating the Schur
    marginal at `xa = v` equals integrating the Gaussian restricted to `xa = v` over `xb`
    (both sides without the common `dim_b/2·log 2π − ½ log det Λbb`; `h` is `1/2`). -/
theorem marginal_commutes_eval (Laa : Matrix a a K) (Lab : Matrix a b K) (Binv : Matrix b b K)
    (ea v : a → K) (eb : b → K) (c h : K) (hh : 2 * h = 1) (hs : Binvᵀ = Binv) :
    -h * (v ⬝ᵥ ((Laa - Lab * Binv * Labᵀ) *ᵥ v)) + v ⬝ᵥ (ea - (Lab * Binv) *ᵥ eb) + (c + h * (eb ⬝ᵥ (Binv *ᵥ eb)))
      = (c - h * (v ⬝ᵥ (Laa *ᵥ v)) + v ⬝ᵥ ea)
        + h * ((eb - Labᵀ *ᵥ v) ⬝ᵥ (Binv *ᵥ (eb - Labᵀ *ᵥ v))) := by
  have e1 : (Labᵀ *ᵥ v) ⬝ᵥ (Binv *ᵥ eb) = v ⬝ᵥ ((Lab * Binv) *ᵥ eb) := by
    rw [← mulVec_mulVec, dotProduct_mulVec v Lab, ← mulVec_transpose]
  have e2 : eb ⬝ᵥ (Binv *ᵥ (Labᵀ *ᵥ v)) = v ⬝ᵥ ((Lab * Binv) *ᵥ eb) := by
    rw [← e1, dotProduct_mulVec eb Binv, ← mulVec_transpose, hs, dotProduct_comm]
  have e3 : (Labᵀ *ᵥ v) ⬝ᵥ (Binv *ᵥ (Labᵀ *ᵥ v)) = v ⬝ᵥ ((Lab * Binv * Labᵀ) *ᵥ v) := by
    rw [← mulVec_mulVec, ← mulVec_mulVec, dotProduct_mulVec v Lab, ← mulVec_transpose]
  simp only [sub_mulVec, mulVec_sub, dotProduct_sub, sub_dotProduct, e1, e2, e3]
  linear_combination (v ⬝ᵥ ((Lab * Binv) *ᵥ eb)) * hh

/-- **moment_matching_conserves**, second moment (hence covariance, given the mean): with weights
    `Σ pᵢ = 1` and `μ = Σ pᵢ mᵢ`, `Σ pᵢ (Cᵢ + (mᵢ−μ)(mᵢ−μ)ᵀ) + μμᵀ = Σ pᵢ (Cᵢ + mᵢmᵢᵀ)`  (joint.py:126-134). -/
theorem moment_matching_conserves_cov (p : ι → K) (m : ι → n → K) (C : ι → Matrix n n K)
    (hp : ∑ i, p i = 1) (x y : n) :
    (∑ i, p i * (C i x y + (m i x - ∑ j, p j * m j x) * (m i y - ∑ j, p j * m j y)))
        + (∑ j, p j * m j x) * (∑ j, p j * m j y)
      = ∑ i, p i * (C i x y + m i x * m i y) := by
  set μx := ∑ j, p j * m j x with hx
  set μy := ∑ j, p j * m j y with hy
  have e : ∀ i, p i * (C i x y + (m i x - μx) * (m i y - μy))
      = p i * (C i x y + m i x * m i y) - μy * (p i * m i x) - μx * (p i * m i y) + μx * μy * p i := by
    intro i; ring
  simp only [e, Finset.sum_add_distrib, Finset.sum_sub_distrib, ← Finset.mul_sum, ← hx, ← hy, hp]
  ring

/-- **moment_matching_conserves**, mean: the matched mean is the mixture mean (definition, 125),
    stated for weights rescaled by the total mass. -/
theorem moment_matching_conserves_mean (q : ι → K) (m : ι → n → K) (Z Zinv : K)
    (hZ : ∑ i, q i = Z) (hinv : Z * Zinv = 1) (x : n) :
    Z * (∑ i, (q i * Zinv) * m i x) = ∑ i, q i * m i x := by
  have : ∀ i, q i * Zinv * m i x = Zinv * (q i * m i x) := by intro i; ring
  simp only [this, ← Finset.mul_sum]
  rw [← mul_assoc, hinv, one_mul]

/-- **moment_matching_conserves**, mass: `new_discrete − log_normalizer(new)` plus the new
    normaliser is the old total mass (joint.py:118, 147). -/
theorem moment_matching_conserves_mass (D N : K) : (D - N) + N = D := by ring

end Abstract

/-! ## the executable model -/
open FV.C12 FV.C13

/-- **too_little_information_raises**: the model (like gaussian.py:897-901) reports an error, never a
    number, whenever the rank is below the dimension of the integrated block. -/
theorem too_little_information_raises (g : SG) (ia ib : List Nat) (h : g.rank < ib.length) :
    marginal? g ia ib = .error .tooLittleInformation := by
  simp [marginal?, h]

theorem log_normalizer_needs_full_rank (g : SG) (h : g.rank < g.dim) :
    logNormalizer? g = .error .tooLittleInformation := by
  simp [logNormalizer?, h]

end FV.Props.C13
