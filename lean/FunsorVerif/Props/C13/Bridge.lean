/-
  Props/C13/Bridge.lean — the executable model's `marginalWith` (the code's square-root algorithm) has
  exactly the dense parameters of the `schur` closed form: the Matrix identities of Props/C13.lean
  transported to the index-function model through `toMat` / `toVec`.
-/
import FunsorVerif.Props.C13
namespace FV.Props.C13
open FV.C12 FV.C13 FV.Props.C12 Matrix

theorem toMat_msub (n r : Nat) (A B : M) : toMat n r (msub A B) = toMat n r A - toMat n r B := by
  ext i j; simp [toMat, msub]

theorem toMat_entry {n r : Nat} {A B : M} (h : toMat n r A = toMat n r B) (i j : Nat) (hi : i < n) (hj : j < r) :
    A i j = B i j := by
  have := congrFun (congrFun h ⟨i, hi⟩) ⟨j, hj⟩
  simpa [toMat] using this

theorem toVec_entry {n : Nat} {u v : V} (h : toVec n u = toVec n v) (i : Nat) (hi : i < n) : u i = v i := by
  have := congrFun h ⟨i, hi⟩
  simpa [toVec] using this

theorem toMat_of_entries {n r : Nat} {A : M} {B : Matrix (Fin n) (Fin r) ℚ}
    (h : ∀ i j, (hi : i < n) → (hj : j < r) → A i j = B ⟨i, hi⟩ ⟨j, hj⟩) : toMat n r A = B := by
  ext i j; simp only [toMat, of_apply]; exact h i j i.2 j.2

/-- **marginal_sqrt_form for the model**: for kept positions `ia`, integrated positions `ib` and a checked
    inverse `Binv` of `B = P[ib] P[ib]ᵀ`, the square-root Gaussian `_marginalize_after_split` builds has the dense
    parameters of the Schur-complement closed form (entrywise on the index ranges; the `log 2π`/`log det` part
    is carried separately in `Marg.dimB`, `Marg.detB`). -/
theorem model_marginal_sqrt_form (g : SG) (ia ib : List Nat) (Binv : M)
    (h1 : ∀ i, i < ib.length → ∀ j, j < ib.length →
      matMul ib.length (matMul g.rank (gatherRows ib g.P) (tr (gatherRows ib g.P))) Binv i j = idM i j)
    (h2 : ∀ i, i < ib.length → ∀ j, j < ib.length →
      matMul ib.length Binv (matMul g.rank (gatherRows ib g.P) (tr (gatherRows ib g.P))) i j = idM i j) :
    let m := (marginalWith g ia ib Binv).dense
    let d := schur g.dense ia ib Binv
    (∀ i, i < ia.length → ∀ j, j < ia.length → m.prec i j = d.prec i j) ∧
    (∀ i, i < ia.length → m.info i = d.info i) ∧ m.const = d.const := by
  intro m d
  -- Matrix images
  set na := ia.length with hna
  set nb := ib.length with hnb
  set r := g.rank with hr
  set PaM := toMat na r (gatherRows ia g.P) with hPa
  set PbM := toMat nb r (gatherRows ib g.P) with hPb
  set BiM := toMat nb nb Binv with hBi
  set wM := toVec r g.w with hw
  have hB1 : (PbM * PbMᵀ) * BiM = 1 := by
    rw [hPb, hBi, ← toMat_tr, ← toMat_matMul, ← toMat_matMul]
    ext i j
    simp only [toMat, of_apply, Matrix.one_apply]
    rw [h1 i i.2 j j.2]; simp [idM, Fin.ext_iff]
  have hB2 : BiM * (PbM * PbMᵀ) = 1 := by
    rw [hPb, hBi, ← toMat_tr, ← toMat_matMul, ← toMat_matMul]
    ext i j
    simp only [toMat, of_apply, Matrix.one_apply]
    rw [h2 i i.2 j j.2]; simp [idM, Fin.ext_iff]
  have hBs : (PbM * PbMᵀ)ᵀ = PbM * PbMᵀ := by rw [transpose_mul, transpose_transpose]
  have hs : BiMᵀ = BiM := inv_symm _ _ hBs hB1 hB2
  -- the model's projection and new square-root parameters
  have hproj : toMat r r (matMul nb (tr (gatherRows ib g.P)) (matMul nb Binv (gatherRows ib g.P)))
      = proj PbM BiM := by
    rw [toMat_matMul, toMat_matMul, toMat_tr]; simp only [proj, Matrix.mul_assoc]; rfl
  have hP' : toMat na r (marginalWith g ia ib Binv).P = PaM * (1 - proj PbM BiM) := by
    simp only [marginalWith]
    rw [toMat_msub, toMat_matMul, hproj, Matrix.mul_sub, Matrix.mul_one]
  have hw' : toVec r (marginalWith g ia ib Binv).w = wM ᵥ* (1 - proj PbM BiM) := by
    simp only [marginalWith]
    rw [toVec_vsub, toVec_vecMul, hproj, vecMul_sub, vecMul_one]
  -- blocks of the dense triple of g
  have hLaa : toMat na na (gatherRows ia (tr (gatherRows ia g.dense.prec))) = PaM * PaMᵀ := by
    apply toMat_of_entries; intro i j hi hj
    simp only [SG.dense, gatherRows, tr, matMul, List.getElem?_eq_getElem hi, List.getElem?_eq_getElem hj,
      hPa, toMat, Matrix.mul_apply, transpose_apply, of_apply, sumTo_fin]
    apply Finset.sum_congr rfl; intro k _; ring
  have hLab : toMat na nb (crossBlock ia ib g.dense.prec) = PaM * PbMᵀ := by
    apply toMat_of_entries; intro i j hi hj
    simp only [crossBlock, SG.dense, gatherRows, tr, matMul, List.getElem?_eq_getElem hi, List.getElem?_eq_getElem hj,
      hPa, hPb, toMat, Matrix.mul_apply, transpose_apply, of_apply, sumTo_fin]
    rfl
  have hea : toVec na (gatherVec ia g.dense.info) = PaM *ᵥ wM := by
    ext i
    simp only [toVec, SG.dense, gatherVec, FV.C12.mulVec, List.getElem?_eq_getElem i.2, hPa, hw, toMat,
      Matrix.mulVec, dotProduct, of_apply, sumTo_fin, gatherRows]
    rfl
  have heb : toVec nb (gatherVec ib g.dense.info) = PbM *ᵥ wM := by
    ext i
    simp only [toVec, SG.dense, gatherVec, FV.C12.mulVec, List.getElem?_eq_getElem i.2, hPb, hw, toMat,
      Matrix.mulVec, dotProduct, of_apply, sumTo_fin, gatherRows]
    rfl
  refine ⟨?_, ?_, ?_⟩
  · -- precision
    have hm : toMat na na m.prec = toMat na na d.prec := by
      show toMat na na (matMul (marginalWith g ia ib Binv).rank (marginalWith g ia ib Binv).P
          (tr (marginalWith g ia ib Binv).P)) = _
      have hrk : (marginalWith g ia ib Binv).rank = r := rfl
      rw [hrk, toMat_matMul, toMat_tr, hP', marginal_sqrt_form_precision PaM PbM BiM hs hB1]
      show _ = toMat na na (msub _ (matMul nb (matMul nb _ Binv) (tr _)))
      rw [toMat_msub, toMat_matMul, toMat_matMul, toMat_tr, hLaa, hLab, transpose_mul, transpose_transpose]
    intro i hi j hj
    exact toMat_entry hm i j hi hj
  · -- information vector
    have hm : toVec na m.info = toVec na d.info := by
      show toVec na (FV.C12.mulVec (marginalWith g ia ib Binv).rank (marginalWith g ia ib Binv).P
          (marginalWith g ia ib Binv).w) = _
      have hrk : (marginalWith g ia ib Binv).rank = r := rfl
      rw [hrk, toVec_mulVec, hP', hw', marginal_sqrt_form_info PaM PbM BiM wM hs hB1]
      show _ = toVec na (vsub _ (FV.C12.mulVec nb (matMul nb _ Binv) _))
      rw [toVec_vsub, toVec_mulVec, toMat_matMul, hLab, hea, heb]
    intro i hi
    exact toVec_entry hm i hi
  · -- constant
    show -(1/2) * norm2 (marginalWith g ia ib Binv).rank (marginalWith g ia ib Binv).w
        = g.dense.const + (1/2) * dot nb (gatherVec ib g.dense.info) (FV.C12.mulVec nb Binv (gatherVec ib g.dense.info))
    have hrk : (marginalWith g ia ib Binv).rank = r := rfl
    rw [hrk, norm2, dot_eq, hw', marginal_sqrt_form_const PbM BiM wM hs hB1, dot_eq, toVec_mulVec, heb]
    simp only [SG.dense, norm2, dot_eq]
    ring

end FV.Props.C13
