/-
  Props/C13/Commute.lean — order of marginalisation, block-determinant identity, Integrate closed forms.
  (continuation of Props/C13.lean; every inverse / Cholesky factor is a parameter with its defining equation)
-/
import FunsorVerif.Props.C13
import Mathlib.LinearAlgebra.Matrix.SchurComplement
import Mathlib.LinearAlgebra.Matrix.Trace
import Mathlib.Data.Matrix.ColumnRowPartitioned
namespace FV.Props.C13
open Matrix

section Abstract2
variable {K : Type*} [CommRing K]
variable {a b c r n : Type*} [Fintype a] [Fintype b] [Fintype c] [Fintype r] [Fintype n]
variable [DecidableEq a] [DecidableEq b] [DecidableEq c] [DecidableEq r] [DecidableEq n]

/-- the integrated rows are annihilated: `Pb S = 0` -/
theorem Pb_S_zero (Pb : Matrix b r K) (Binv : Matrix b b K) (h1 : (Pb * Pbᵀ) * Binv = 1) :
    Pb * (1 - proj Pb Binv) = 0 := by
  have : Pb * proj Pb Binv = Pb := by
    unfold proj
    calc Pb * (Pbᵀ * Binv * Pb) = ((Pb * Pbᵀ) * Binv) * Pb := by simp only [Matrix.mul_assoc]
      _ = Pb := by rw [h1, Matrix.one_mul]
  rw [Matrix.mul_sub, Matrix.mul_one, this, sub_self]

/-- a symmetric matrix that kills `Pb1`, `Pb2` and whose complement lies in the span of their transposes
    is unique (it is the orthogonal projector onto the complement of the row space). -/
theorem projector_unique (Pb1 : Matrix b r K) (Pb2 : Matrix c r K) (S T : Matrix r r K)
    (hSs : Sᵀ = S) (hTs : Tᵀ = T)
    (hS1 : Pb1 * S = 0) (hS2 : Pb2 * S = 0) (hT1 : Pb1 * T = 0) (hT2 : Pb2 * T = 0)
    (X1 : Matrix b r K) (X2 : Matrix c r K) (Y1 : Matrix b r K) (Y2 : Matrix c r K)
    (hSr : 1 - S = Pb1ᵀ * X1 + Pb2ᵀ * X2) (hTr : 1 - T = Pb1ᵀ * Y1 + Pb2ᵀ * Y2) : S = T := by
  have tP1 : T * Pb1ᵀ = 0 := by
    have := congrArg transpose hT1; rwa [transpose_mul, hTs, transpose_zero] at this
  have tP2 : T * Pb2ᵀ = 0 := by
    have := congrArg transpose hT2; rwa [transpose_mul, hTs, transpose_zero] at this
  have sP1 : S * Pb1ᵀ = 0 := by
    have := congrArg transpose hS1; rwa [transpose_mul, hSs, transpose_zero] at this
  have sP2 : S * Pb2ᵀ = 0 := by
    have := congrArg transpose hS2; rwa [transpose_mul, hSs, transpose_zero] at this
  have hTS : T * S = T := by
    have : T * (1 - S) = 0 := by
      rw [hSr, Matrix.mul_add, ← Matrix.mul_assoc, ← Matrix.mul_assoc, tP1, tP2]; simp
    rw [Matrix.mul_sub, Matrix.mul_one, sub_eq_zero] at this
    exact this.symm
  have hST : S * T = S := by
    have : S * (1 - T) = 0 := by
      rw [hTr, Matrix.mul_add, ← Matrix.mul_assoc, ← Matrix.mul_assoc, sP1, sP2]; simp
    rw [Matrix.mul_sub, Matrix.mul_one, sub_eq_zero] at this
    exact this.symm
  calc S = Sᵀ := hSs.symm
    _ = (S * T)ᵀ := by rw [hST]
    _ = T * S := by rw [transpose_mul, hTs, hSs]
    _ = T := hTS

/-- marginalising `b2` and then `b1`: the projector the two calls compose -/
def seqProj (Pb1 : Matrix b r K) (Pb2 : Matrix c r K) (B2inv : Matrix c c K) (C1 : Matrix b b K) : Matrix r r K :=
  (1 - proj Pb2 B2inv) * (1 - proj (Pb1 * (1 - proj Pb2 B2inv)) C1)

theorem seqProj_props (Pb1 : Matrix b r K) (Pb2 : Matrix c r K) (B2inv : Matrix c c K) (C1 : Matrix b b K)
    (hs2 : B2invᵀ = B2inv) (h2 : (Pb2 * Pb2ᵀ) * B2inv = 1)
    (hs1 : C1ᵀ = C1)
    (h1 : ((Pb1 * (1 - proj Pb2 B2inv)) * (Pb1 * (1 - proj Pb2 B2inv))ᵀ) * C1 = 1) :
    (seqProj Pb1 Pb2 B2inv C1)ᵀ = seqProj Pb1 Pb2 B2inv C1 ∧
    Pb1 * seqProj Pb1 Pb2 B2inv C1 = 0 ∧ Pb2 * seqProj Pb1 Pb2 B2inv C1 = 0 ∧
    ∃ (Y1 : Matrix b r K) (Y2 : Matrix c r K), 1 - seqProj Pb1 Pb2 B2inv C1 = Pb1ᵀ * Y1 + Pb2ᵀ * Y2 := by
  set S2 := 1 - proj Pb2 B2inv with hS2
  have S2s : S2ᵀ = S2 := S_symm Pb2 B2inv hs2
  have S2i : S2 * S2 = S2 := S_idem Pb2 B2inv h2
  set Q := proj (Pb1 * S2) C1 with hQ
  have Qs : Qᵀ = Q := proj_symm _ _ hs1
  have hS2Q : S2 * Q = Q := by
    simp only [hQ, proj, transpose_mul, S2s]
    simp only [← Matrix.mul_assoc, S2i]
  have hQS2 : Q * S2 = Q := by
    simp only [hQ, proj, transpose_mul, S2s]
    simp only [Matrix.mul_assoc, S2i]
  have hT : seqProj Pb1 Pb2 B2inv C1 = S2 - Q := by
    simp only [seqProj, ← hS2, ← hQ]
    rw [Matrix.mul_sub, Matrix.mul_one, hS2Q]
  refine ⟨?_, ?_, ?_, ?_⟩
  · rw [hT, transpose_sub, S2s, Qs]
  · have := Pb_S_zero (Pb1 * S2) C1 h1
    simp only [seqProj, ← hS2, ← Matrix.mul_assoc]
    simpa [Matrix.mul_assoc] using this
  · have := Pb_S_zero Pb2 B2inv h2
    simp only [seqProj, ← hS2, ← Matrix.mul_assoc]
    rw [← hS2] at this
    rw [this, Matrix.zero_mul]
  · refine ⟨C1 * (Pb1 * S2), B2inv * Pb2 - B2inv * Pb2 * Pb1ᵀ * (C1 * (Pb1 * S2)), ?_⟩
    rw [hT]
    have e1 : 1 - (S2 - Q) = proj Pb2 B2inv + Q := by rw [hS2]; abel
    rw [e1]
    have e2 : Q = S2 * Pb1ᵀ * (C1 * (Pb1 * S2)) := by
      simp only [hQ, proj, transpose_mul, S2s, Matrix.mul_assoc]
    rw [e2, hS2]
    simp only [proj, Matrix.sub_mul, Matrix.mul_sub, Matrix.one_mul, Matrix.mul_assoc]
    abel

/-- **marginal_commutes** (order of marginalisation): integrating out `b2` then `b1` and integrating out
    `b1` then `b2` compose the SAME projector, so the returned square-root Gaussians `(w T, Pa T)` coincide. -/
theorem marginal_commutes (Pb1 : Matrix b r K) (Pb2 : Matrix c r K)
    (B2inv : Matrix c c K) (C1 : Matrix b b K) (B1inv : Matrix b b K) (C2 : Matrix c c K)
    (hs2 : B2invᵀ = B2inv) (h2 : (Pb2 * Pb2ᵀ) * B2inv = 1) (hc1s : C1ᵀ = C1)
    (hc1 : ((Pb1 * (1 - proj Pb2 B2inv)) * (Pb1 * (1 - proj Pb2 B2inv))ᵀ) * C1 = 1)
    (hs1 : B1invᵀ = B1inv) (h1 : (Pb1 * Pb1ᵀ) * B1inv = 1) (hc2s : C2ᵀ = C2)
    (hc2 : ((Pb2 * (1 - proj Pb1 B1inv)) * (Pb2 * (1 - proj Pb1 B1inv))ᵀ) * C2 = 1) :
    seqProj Pb1 Pb2 B2inv C1 = seqProj Pb2 Pb1 B1inv C2 := by
  obtain ⟨s1, p1, p2, Y1, Y2, hY⟩ := seqProj_props Pb1 Pb2 B2inv C1 hs2 h2 hc1s hc1
  obtain ⟨s1', p2', p1', Z2, Z1, hZ⟩ := seqProj_props Pb2 Pb1 B1inv C2 hs1 h1 hc2s hc2
  exact projector_unique Pb1 Pb2 _ _ s1 s1' p1 p2 p1' p2' Y1 Y2 Z1 Z2 hY (by rw [hZ, add_comm])

/-- **marginal_commutes**, normaliser: the product of the two determinants that the two calls contribute
    (`det Λ22 · det(Λ11 − Λ12 Λ22⁻¹ Λ21)`) does not depend on the order — both are the determinant of the joint
    block (block-determinant identity), so `−½ log det` terms add up to the same constant. -/
theorem marginal_commutes_det (B11 : Matrix b b K) (B12 : Matrix b c K) (B21 : Matrix c b K) (B22 : Matrix c c K)
    (D1 : Matrix b b K) (D2 : Matrix c c K)
    (h1 : B11 * D1 = 1) (h1' : D1 * B11 = 1) (h2 : B22 * D2 = 1) (h2' : D2 * B22 = 1) :
    B22.det * (B11 - B12 * D2 * B21).det = B11.det * (B22 - B21 * D1 * B12).det ∧
    (fromBlocks B11 B12 B21 B22).det = B22.det * (B11 - B12 * D2 * B21).det := by
  let i1 : Invertible B11 := ⟨D1, h1', h1⟩
  let i2 : Invertible B22 := ⟨D2, h2', h2⟩
  have e1 := det_fromBlocks₁₁ B11 B12 B21 B22
  have e2 := det_fromBlocks₂₂ B11 B12 B21 B22
  have d1 : ⅟B11 = D1 := rfl
  have d2 : ⅟B22 = D2 := rfl
  rw [d1] at e1; rw [d2] at e2
  exact ⟨by rw [← e2, e1], e2⟩

/-- **integrate_variable_formula**: `Integrate(g, x, {x}) = mean · exp(log_normalizer)` where the mean the
    code takes (`cholesky_solve`) is the stationary point `Λ μ = η`, and equals `L⁻ᵀ L⁻¹ η`. -/
theorem integrate_variable_formula (L Linv Λ Λinv : Matrix n n K) (η : n → K) (hL : L * Lᵀ = Λ)
    (hLinv : Linv * L = 1) (hLinv' : L * Linv = 1) (hΛ : Λinv * Λ = 1) (hΛ' : Λ * Λinv = 1) :
    Λ *ᵥ (Λinv *ᵥ η) = η ∧ Linvᵀ *ᵥ (Linv *ᵥ η) = Λinv *ᵥ η := by
  have h1 : Λ * (Linvᵀ * Linv) = 1 := by
    rw [← hL]
    calc L * Lᵀ * (Linvᵀ * Linv) = L * ((Linv * L)ᵀ * Linv) := by
          rw [transpose_mul]; simp only [Matrix.mul_assoc]
      _ = 1 := by rw [hLinv, transpose_one, Matrix.one_mul, hLinv']
  have h2 : Linvᵀ * Linv = Λinv := by
    calc Linvᵀ * Linv = (Λinv * Λ) * (Linvᵀ * Linv) := by rw [hΛ, Matrix.one_mul]
      _ = Λinv * (Λ * (Linvᵀ * Linv)) := by rw [Matrix.mul_assoc]
      _ = Λinv := by rw [h1, Matrix.mul_one]
  exact ⟨by rw [mulVec_mulVec, hΛ', one_mulVec], by rw [mulVec_mulVec, h2]⟩

/-- **integrate_gaussian_formula** (Matrix Cookbook 380 as an identity): what the code adds up in the
    integrand's whitened space, `‖w_h − μ P_h‖² + Σᵢⱼ (L⁻¹ P_h)ᵢⱼ²`, is `μᵀHμ − 2 μᵀe + ‖w_h‖² + tr(H Σ)` with
    `H = P_h P_hᵀ`, `e = P_h w_h`, `Σ = L⁻ᵀ L⁻¹`; times `−½` this is `E[h(x)]` for `x ~ N(μ, Σ)`. -/
theorem integrate_gaussian_formula (μ : n → K) (w : r → K) (Ph : Matrix n r K) (Linv : Matrix n n K) :
    (w - μ ᵥ* Ph) ⬝ᵥ (w - μ ᵥ* Ph) + ∑ i, ∑ j, ((Linv * Ph) i j) ^ 2
      = (μ ⬝ᵥ ((Ph * Phᵀ) *ᵥ μ) - 2 * (μ ⬝ᵥ (Ph *ᵥ w)) + w ⬝ᵥ w) + trace ((Ph * Phᵀ) * (Linvᵀ * Linv)) := by
  have hq : (w - μ ᵥ* Ph) ⬝ᵥ (w - μ ᵥ* Ph) = FV.Props.C12.quad μ w Ph := by
    unfold FV.Props.C12.quad
    have : w - μ ᵥ* Ph = -(μ ᵥ* Ph - w) := by abel
    rw [this, neg_dotProduct_neg]
  have ht : ∑ i, ∑ j, ((Linv * Ph) i j) ^ 2 = trace ((Linv * Ph)ᵀ * (Linv * Ph)) := by
    simp only [trace, diag, Matrix.mul_apply, transpose_apply, pow_two]
    exact Finset.sum_comm
  rw [hq, FV.Props.C12.dense_of_sqrt, ht, transpose_mul]
  congr 1
  calc trace (Phᵀ * Linvᵀ * (Linv * Ph)) = trace (Phᵀ * ((Linvᵀ * Linv) * Ph)) := by
        simp only [Matrix.mul_assoc]
    _ = trace (((Linvᵀ * Linv) * Ph) * Phᵀ) := trace_mul_comm _ _
    _ = trace ((Linvᵀ * Linv) * (Ph * Phᵀ)) := by rw [Matrix.mul_assoc]
    _ = trace ((Ph * Phᵀ) * (Linvᵀ * Linv)) := trace_mul_comm _ _

/-- the mass factor of both Integrate rules is `exp(log_normalizer)` **with** the rank shift: its rational
    part is `c + ½ ηᵀΛ⁻¹η` (here `h = 1/2`), which is what `_log_normalizer` adds when `rank ≠ dim`. -/
theorem integrate_norm_includes_shift (L Linv Λ Λinv : Matrix n n K) (η : n → K) (w : r → K) (h : K)
    (hL : L * Lᵀ = Λ) (hLinv : Linv * L = 1) (hLinv' : L * Linv = 1) (hΛ : Λinv * Λ = 1) :
    h * ((Linv *ᵥ η) ⬝ᵥ (Linv *ᵥ η) - w ⬝ᵥ w) = -h * (w ⬝ᵥ w) + h * (η ⬝ᵥ (Λinv *ᵥ η)) := by
  rw [log_normalizer_shift L Linv Λ Λinv η hL hLinv hLinv' hΛ]; ring

/-- **marginal_commutes**, joint vs sequential: integrating out the blocks `b1` and `b2` in one call
    (`Pb = [Pb1; Pb2]`, `Binv = (Pb Pbᵀ)⁻¹`) uses the same projector as integrating out `b2` and then `b1`. -/
theorem marginal_joint_eq_seq (Pb1 : Matrix b r K) (Pb2 : Matrix c r K)
    (Binv : Matrix (b ⊕ c) (b ⊕ c) K) (B2inv : Matrix c c K) (C1 : Matrix b b K)
    (hs : Binvᵀ = Binv) (h : (fromRows Pb1 Pb2 * (fromRows Pb1 Pb2)ᵀ) * Binv = 1)
    (hs2 : B2invᵀ = B2inv) (h2 : (Pb2 * Pb2ᵀ) * B2inv = 1) (hc1s : C1ᵀ = C1)
    (hc1 : ((Pb1 * (1 - proj Pb2 B2inv)) * (Pb1 * (1 - proj Pb2 B2inv))ᵀ) * C1 = 1) :
    1 - proj (fromRows Pb1 Pb2) Binv = seqProj Pb1 Pb2 B2inv C1 := by
  obtain ⟨s1, p1, p2, Y1, Y2, hY⟩ := seqProj_props Pb1 Pb2 B2inv C1 hs2 h2 hc1s hc1
  have hz := Pb_S_zero (fromRows Pb1 Pb2) Binv h
  rw [fromRows_mul] at hz
  have z1 : Pb1 * (1 - proj (fromRows Pb1 Pb2) Binv) = 0 := by
    ext i j
    have := congrFun (congrFun hz (Sum.inl i)) j
    simpa using this
  have z2 : Pb2 * (1 - proj (fromRows Pb1 Pb2) Binv) = 0 := by
    ext i j
    have := congrFun (congrFun hz (Sum.inr i)) j
    simpa using this
  set X := Binv * fromRows Pb1 Pb2 with hX
  have hr : 1 - (1 - proj (fromRows Pb1 Pb2) Binv) = Pb1ᵀ * X.toRows₁ + Pb2ᵀ * X.toRows₂ := by
    have : proj (fromRows Pb1 Pb2) Binv = (fromRows Pb1 Pb2)ᵀ * X := by
      simp only [proj, hX, Matrix.mul_assoc]
    rw [sub_sub_cancel, this, transpose_fromRows]
    conv_lhs => rw [← fromRows_toRows X]
    rw [fromCols_mul_fromRows]
  exact projector_unique Pb1 Pb2 _ _ (S_symm _ _ hs) s1 z1 z2 p1 p2 _ _ Y1 Y2 hr hY

end Abstract2

def okIs (e : Except FV.C13.MargErr (Rat × Rat)) (r d : Rat) : Bool :=
  match e with
  | .ok p => p.1 == r && p.2 == d
  | .error _ => false

open FV.C12 FV.C13 in
/-- the shift is not zero in general (rank 2 > dim 1): dropping it from the mass (seeded defect C13_2)
    changes the value.  `P = [1 1]`, `w = (1, 0)`: the rational part of the model's log-normaliser is `-1/4`
    (not 0) and `det Λ = 2`. -/
theorem rank_shift_nonzero_witness :
    okIs (logNormalizer? { dim := 1, rank := 2, w := fun j => if j = 0 then 1 else 0, P := fun _ _ => 1 })
      (-1/4) 2 = true := by
  decide +kernel

/-! ### Wide square-root factors (any rank, in particular rank > 2·dim)

A Gaussian built under `Gaussian.set_compression_threshold(t)` with `t > 2` keeps a factor wider than the default
constructor ever leaves it (plate fusion and `Gaussian + Gaussian` concatenate the columns of the parts).  The
closed forms above never bound the rank: the dense parameters of a concatenated factor are the SUMS of the
parts' dense parameters, for any widths `r`, `s` — so the log-normaliser of a fused Gaussian is the closed form
of the summed dense triple, constant `-½(‖w₁‖² + ‖w₂‖²)` included, whatever threshold was active when it was
built (seeded defect C13_14 drops the constant's compression shift for batched factors wider than `t·dim`). -/
section Wide
variable {K : Type*} [CommRing K]
variable {n r s : Type*} [Fintype r] [Fintype s]

/-- precision of a column-concatenated factor = sum of the parts' precisions -/
theorem fused_precision (P₁ : Matrix n r K) (P₂ : Matrix n s K) :
    fromCols P₁ P₂ * (fromCols P₁ P₂)ᵀ = P₁ * P₁ᵀ + P₂ * P₂ᵀ := by
  rw [transpose_fromCols, fromCols_mul_fromRows]

/-- information vector of a column-concatenated factor = sum of the parts' information vectors -/
theorem fused_info (P₁ : Matrix n r K) (P₂ : Matrix n s K) (w₁ : r → K) (w₂ : s → K) :
    fromCols P₁ P₂ *ᵥ Sum.elim w₁ w₂ = P₁ *ᵥ w₁ + P₂ *ᵥ w₂ :=
  fromCols_mulVec_sumElim P₁ P₂ w₁ w₂

/-- constant of a column-concatenated factor = sum of the parts' constants (`‖w‖²` is additive) -/
theorem fused_norm2 (w₁ : r → K) (w₂ : s → K) :
    Sum.elim w₁ w₂ ⬝ᵥ Sum.elim w₁ w₂ = w₁ ⬝ᵥ w₁ + w₂ ⬝ᵥ w₂ :=
  sumElim_dotProduct_sumElim ..

/-- **wide log-normaliser**: the rational part of the log-normaliser of a fused (arbitrarily wide) factor,
    `½ ηᵀΛ⁻¹η − ½‖w‖²` with `η = P w`, `Λ = P Pᵀ`, written with the parts: it is the closed form of the summed
    dense triple and contains the whole `−½(‖w₁‖² + ‖w₂‖²)`; `h` is `1/2`. -/
theorem fused_log_normalizer [Fintype n] (P₁ : Matrix n r K) (P₂ : Matrix n s K) (w₁ : r → K) (w₂ : s → K)
    (Λinv : Matrix n n K) (h : K) :
    h * ((fromCols P₁ P₂ *ᵥ Sum.elim w₁ w₂) ⬝ᵥ (Λinv *ᵥ (fromCols P₁ P₂ *ᵥ Sum.elim w₁ w₂)))
        - h * (Sum.elim w₁ w₂ ⬝ᵥ Sum.elim w₁ w₂)
      = h * ((P₁ *ᵥ w₁ + P₂ *ᵥ w₂) ⬝ᵥ (Λinv *ᵥ (P₁ *ᵥ w₁ + P₂ *ᵥ w₂))) - h * (w₁ ⬝ᵥ w₁) - h * (w₂ ⬝ᵥ w₂) := by
  rw [fused_info, fused_norm2]; ring

end Wide

open FV.C12 FV.C13 in
/-- rank 3 > 2·dim (dim 1; only reachable under a relaxed compression threshold): `P = [1 1 1]`, `w = (1,0,0)`.
    The rational part of the model's log-normaliser is `½·1·(1/3)·1 − ½ = −1/3` and `det Λ = 3`; without the
    compression shift it would be 0 (seeded defect C13_14). -/
theorem wide_rank_shift_nonzero_witness :
    okIs (logNormalizer? { dim := 1, rank := 3, w := fun j => if j = 0 then 1 else 0, P := fun _ _ => 1 })
      (-1/3) 3 = true := by
  decide +kernel

end FV.Props.C13
