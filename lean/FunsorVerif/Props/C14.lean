/-
  Props/C14.lean — point masses and samples (model: Model/C14.lean).

  Delta:      delta_eval_at / delta_eval_off, delta_add_reduce, delta_add_reduce_unit, delta_integrate
  mixed radix decode_encode, encode_decode, sample_point_in_range, allIdx_getElem
  draw:       inverse_cdf_index, probs_eq, sample_in_support, sample_row_support
              (+ sample_zero_uniform / sample_zero_uniform_witness: why `0 < r` is needed)
  mass:       sumOver_eq_flat, sumOver_sampleVal, sample_mass
  Props/C14/Variant.lean: the draw statement as the source reads now (Gen/C14Variant.lean):
              countLe_spec, clamp_noop, inverse_cdf_index_variant, gen_variant_proven,
              sample_row_support_current (every 0 ≤ r < 1), sample_mass_current
  Props/C14/Gaussian.lean: gaussian_sample_affine, gaussian_sample_conditional (Mathlib matrices over ℚ)
  All statements are for lists of any length / any number of variables / any sizes.
  Exact rational arithmetic: float rounding of exp / cumsum is outside the model.
-/
import FunsorVerif.Model.C14
namespace FV.Props.C14
open FV FV.C14

/-! ## Delta -/

theorem delta_eval_at (p : List Rat) (ld : XR) : deltaEval p ld p = ld := by
  cases ld <;> simp [deltaEval, XR.add, Rat.zero_add]

theorem delta_eval_off (p v : List Rat) (ld : XR) (h : v ≠ p) (hld : ld ≠ XR.pinf) (hn : ld ≠ XR.nan) :
    deltaEval p ld v = XR.ninf := by
  cases ld <;> simp_all [deltaEval, XR.add]

theorem sumList_indicator (g : Nat → Rat) (p : Nat) (w : Rat) :
    ∀ (l : List Nat), l.Nodup →
      sumList (l.map fun x => deltaLin p w x * g x) = if p ∈ l then w * g p else 0 := by
  intro l
  induction l with
  | nil => intro _; simp [sumList]
  | cons a l ih =>
    intro hnd
    have hnd' := List.nodup_cons.mp hnd
    simp only [List.map_cons, sumList, ih hnd'.2, List.mem_cons]
    by_cases hap : a = p
    · subst hap
      have : ¬ a ∈ l := hnd'.1
      simp [deltaLin, this, Rat.add_zero]
    · have : ¬ p = a := fun h => hap h.symm
      simp [deltaLin, hap, this, Rat.zero_mul, Rat.zero_add]

theorem delta_add_reduce (n p : Nat) (w : Rat) (f : Nat → Rat) (hp : p < n) :
    sumRange n (fun x => deltaLin p w x * f x) = w * f p := by
  unfold sumRange
  rw [sumList_indicator f p w _ List.nodup_range]
  simp [hp]

/-! ## Mixed radix -/

theorem decodeLE_encodeLE : ∀ (sizes idx : List Nat), InRange sizes idx →
    decodeLE sizes (encodeLE sizes idx) = idx
  | [], [], _ => rfl
  | [], _ :: _, h => by simp [InRange] at h
  | _ :: _, [], h => by simp [InRange] at h
  | s :: ss, i :: is, h => by
      obtain ⟨hi, hr⟩ := h
      have ih := decodeLE_encodeLE ss is hr
      simp only [encodeLE, decodeLE]
      have h1 : (i + s * encodeLE ss is) % s = i := by
        rw [Nat.add_mul_mod_self_left]; exact Nat.mod_eq_of_lt hi
      have h2 : (i + s * encodeLE ss is) / s = encodeLE ss is := by
        rw [Nat.add_mul_div_left _ _ (by omega : 0 < s), Nat.div_eq_of_lt hi, Nat.zero_add]
      rw [h1, h2, ih]

theorem encodeLE_decodeLE : ∀ (sizes : List Nat) (m : Nat), m < prod sizes →
    encodeLE sizes (decodeLE sizes m) = m
  | [], m, h => by simp [prod] at h; simp [encodeLE, h]
  | s :: ss, m, h => by
      simp only [prod] at h
      have hs : 0 < s := by
        rcases Nat.eq_zero_or_pos s with h0 | h0
        · subst h0; simp at h
        · exact h0
      have hq : m / s < prod ss := by
        apply Nat.div_lt_of_lt_mul; exact h
      simp only [decodeLE, encodeLE, encodeLE_decodeLE ss (m / s) hq]
      exact Nat.mod_add_div m s

theorem decodeLE_inRange : ∀ (sizes : List Nat) (m : Nat), (∀ s ∈ sizes, 0 < s) →
    InRange sizes (decodeLE sizes m)
  | [], _, _ => trivial
  | s :: ss, m, h => by
      refine ⟨Nat.mod_lt _ (h s (by simp)), decodeLE_inRange ss _ fun t ht => h t (by simp [ht])⟩

theorem inRange_length : ∀ (sizes idx : List Nat), InRange sizes idx → sizes.length = idx.length
  | [], [], _ => rfl
  | [], _ :: _, h => by simp [InRange] at h
  | _ :: _, [], h => by simp [InRange] at h
  | _ :: ss, _ :: is, h => by simp [inRange_length ss is h.2]

theorem prod_append (a b : List Nat) : prod (a ++ b) = prod a * prod b := by
  induction a with
  | nil => simp [prod]
  | cons s a ih => simp [prod, ih, Nat.mul_assoc]

theorem prod_reverse (a : List Nat) : prod a.reverse = prod a := by
  induction a with
  | nil => rfl
  | cons s a ih => simp [prod, prod_append, ih, Nat.mul_comm]

theorem encodeLE_append : ∀ (ss is : List Nat) (s i : Nat), ss.length = is.length →
    encodeLE (ss ++ [s]) (is ++ [i]) = encodeLE ss is + prod ss * i
  | [], [], s, i, _ => by simp [encodeLE, prod]
  | [], _ :: _, _, _, h => by simp at h
  | _ :: _, [], _, _, h => by simp at h
  | t :: ss, j :: is, s, i, h => by
      have ih := encodeLE_append ss is s i (by simpa using h)
      simp only [List.cons_append, encodeLE, ih, prod]
      rw [Nat.mul_add, Nat.mul_assoc, Nat.add_assoc]

/-- Row-major flattening is the little-endian value of the reversed digit string. -/
theorem encode_eq_encodeLE : ∀ (sizes idx : List Nat), sizes.length = idx.length →
    encode sizes idx = encodeLE sizes.reverse idx.reverse
  | [], [], _ => rfl
  | [], _ :: _, h => by simp at h
  | _ :: _, [], h => by simp at h
  | s :: ss, i :: is, h => by
      have hl : ss.length = is.length := by simpa using h
      simp only [encode, List.reverse_cons]
      rw [encodeLE_append _ _ _ _ (by simpa using hl), encode_eq_encodeLE ss is hl, prod_reverse]
      rw [Nat.mul_comm, Nat.add_comm]

theorem inRange_append : ∀ (ss is : List Nat) (s i : Nat), InRange ss is → i < s →
    InRange (ss ++ [s]) (is ++ [i])
  | [], [], _, _, _, h => ⟨h, trivial⟩
  | [], _ :: _, _, _, h, _ => by simp [InRange] at h
  | _ :: _, [], _, _, h, _ => by simp [InRange] at h
  | _ :: ss, _ :: is, s, i, h, hi => ⟨h.1, inRange_append ss is s i h.2 hi⟩

theorem inRange_reverse : ∀ (sizes idx : List Nat), InRange sizes idx →
    InRange sizes.reverse idx.reverse
  | [], [], _ => trivial
  | [], _ :: _, h => by simp [InRange] at h
  | _ :: _, [], h => by simp [InRange] at h
  | s :: ss, i :: is, h => by
      simp only [List.reverse_cons]
      exact inRange_append _ _ _ _ (inRange_reverse ss is h.2) h.1

/-- decode ∘ encode = id: the `% size`, `// size` loop over the reversed variables inverts the
    row-major flattening, for any number of variables and any sizes. -/
theorem decode_encode (sizes idx : List Nat) (h : InRange sizes idx) :
    decode sizes (encode sizes idx) = idx := by
  unfold decode
  rw [encode_eq_encodeLE sizes idx (inRange_length _ _ h),
      decodeLE_encodeLE _ _ (inRange_reverse _ _ h), List.reverse_reverse]

theorem decodeLE_length : ∀ (sizes : List Nat) (m : Nat), (decodeLE sizes m).length = sizes.length
  | [], _ => rfl
  | _ :: ss, m => by simp [decodeLE, decodeLE_length ss]

/-- encode ∘ decode = id on `[0, ∏ sizes)`. -/
theorem encode_decode (sizes : List Nat) (m : Nat) (h : m < prod sizes) :
    encode sizes (decode sizes m) = m := by
  unfold decode
  rw [encode_eq_encodeLE _ _ (by simp [decodeLE_length]), List.reverse_reverse,
      encodeLE_decodeLE _ _ (by rwa [prod_reverse])]

theorem inRange_of_reverse (sizes idx : List Nat) (h : InRange sizes.reverse idx.reverse) :
    InRange sizes idx := by
  have := inRange_reverse _ _ h
  simpa using this

/-- Every decoded index is a valid value of its variable (all sizes positive: `Bint[0]` has no cell). -/
theorem sample_point_in_range (sizes : List Nat) (m : Nat) (h : ∀ s ∈ sizes, 0 < s) :
    InRange sizes (decode sizes m) := by
  apply inRange_of_reverse
  unfold decode
  rw [List.reverse_reverse]
  exact decodeLE_inRange _ _ (by simpa using h)

/-! ## Inverse CDF -/

theorem countLt_zero_of_ge (r : Rat) : ∀ (ps : List Rat) (acc : Rat), r ≤ acc → (∀ x ∈ ps, 0 ≤ x) →
    countLt r (cumsumFrom acc ps) = 0
  | [], _, _, _ => rfl
  | p :: ps, acc, h, hp => by
      have hp0 : 0 ≤ p := hp p (by simp)
      have h' : r ≤ acc + p := by grind
      have ih := countLt_zero_of_ge r ps (acc + p) h' fun x hx => hp x (by simp [hx])
      have : ¬ (acc + p < r) := by grind
      simp [cumsumFrom, countLt, ih, this]

/-- Core of the inverse-CDF argument, with a running offset: if `acc < r ≤ acc + Σ ps` and all
    `ps ≥ 0`, the number of prefix sums `< r` is a valid index and the entry there is positive. -/
theorem countLt_spec (r : Rat) : ∀ (ps : List Rat) (acc : Rat), acc < r → r ≤ acc + sumList ps →
    (∀ x ∈ ps, 0 ≤ x) →
    ∃ h : countLt r (cumsumFrom acc ps) < ps.length, 0 < ps[countLt r (cumsumFrom acc ps)]
  | [], acc, h1, h2, _ => by simp [sumList] at h2; grind
  | p :: ps, acc, h1, h2, hp => by
      have hp0 : 0 ≤ p := hp p (by simp)
      have hps : ∀ x ∈ ps, 0 ≤ x := fun x hx => hp x (by simp [hx])
      by_cases hlt : acc + p < r
      · have h2' : r ≤ acc + p + sumList ps := by simp only [sumList] at h2; grind
        obtain ⟨hi, hv⟩ := countLt_spec r ps (acc + p) hlt h2' hps
        simp only [cumsumFrom, countLt, hlt, if_true]
        refine ⟨by simp; omega, ?_⟩
        have : 1 + countLt r (cumsumFrom (acc + p) ps) = countLt r (cumsumFrom (acc + p) ps) + 1 := by omega
        simp only [this, List.getElem_cons_succ]
        exact hv
      · have hz := countLt_zero_of_ge r ps (acc + p) (by grind) hps
        simp only [cumsumFrom, countLt, hlt, if_false, hz]
        refine ⟨by simp, ?_⟩
        simp only [Nat.add_zero, List.getElem_cons_zero]
        grind

/-- inverse_cdf_index: for `0 < r < 1` (indeed `r ≤ 1`) and a normalised non-negative `p`, the
    picked index is in range and carries positive probability. -/
theorem inverse_cdf_index (p : List Rat) (r : Rat) (hr0 : 0 < r) (hr1 : r < 1)
    (hp : ∀ x ∈ p, 0 ≤ x) (hsum : sumList p = 1) :
    ∃ h : pick p r < p.length, 0 < p[pick p r] := by
  unfold pick cumsum
  exact countLt_spec r p 0 hr0 (by grind) hp

theorem rat_div_nonneg (a b : Rat) (ha : 0 ≤ a) (hb : 0 < b) : 0 ≤ a / b := by
  rw [Rat.div_def]; exact Rat.mul_nonneg ha (Rat.le_of_lt (Rat.inv_pos.mpr hb))

theorem rat_div_pos (a b : Rat) (ha : 0 < a) (hb : 0 < b) : 0 < a / b := by
  rw [Rat.div_def]; exact Rat.mul_pos ha (Rat.inv_pos.mpr hb)

theorem sumList_map_div (t : Rat) : ∀ l : List Rat, sumList (l.map (· / t)) = sumList l / t
  | [] => by simp only [List.map_nil, sumList]; grind
  | a :: l => by simp only [List.map_cons, sumList, sumList_map_div t l]; grind

theorem foldl_max_ge_acc : ∀ (l : List Rat) (a : Rat), a ≤ l.foldl (fun a b => if a ≤ b then b else a) a
  | [], a => by simp
  | b :: l, a => by
      simp only [List.foldl_cons]
      have := foldl_max_ge_acc l (if a ≤ b then b else a)
      grind

theorem foldl_max_ge_mem : ∀ (l : List Rat) (a x : Rat), x ∈ l →
    x ≤ l.foldl (fun a b => if a ≤ b then b else a) a
  | [], _, _, h => by simp at h
  | b :: l, a, x, h => by
      simp only [List.foldl_cons]
      rcases List.mem_cons.mp h with rfl | h
      · have := foldl_max_ge_acc l (if a ≤ x then x else a)
        grind
      · exact foldl_max_ge_mem l _ x h

theorem sumList_nonpos : ∀ l : List Rat, (∀ x ∈ l, x ≤ 0) → sumList l ≤ 0
  | [], _ => by simp [sumList]
  | a :: l, h => by
      have h1 := h a (by simp)
      have h2 := sumList_nonpos l fun x hx => h x (by simp [hx])
      simp only [sumList]; grind

theorem maxList_pos (w : List Rat) (hpos : 0 < sumList w) : 0 < maxList w := by
  have h0 : (0 : Rat) ≤ maxList w := foldl_max_ge_acc w 0
  by_cases h : 0 < maxList w
  · exact h
  · exfalso
    have : sumList w ≤ 0 := sumList_nonpos w fun x hx => by
      have := foldl_max_ge_mem w 0 x hx
      unfold maxList at h h0; grind
    grind

/-- `exp(logits - max) / sum` is `w / Σ w` in exact arithmetic. -/
theorem probs_eq (w : List Rat) (hpos : 0 < sumList w) :
    probs w = some (w.map (· / sumList w)) := by
  have hm := maxList_pos w hpos
  have hm0 : maxList w ≠ 0 := by grind
  have ht : sumList (w.map (· / maxList w)) = sumList w / maxList w := sumList_map_div _ w
  have htpos : 0 < sumList w / maxList w := rat_div_pos _ _ hpos hm
  have ht0 : sumList w / maxList w ≠ 0 := by grind
  simp only [probs, hm0, if_false, ht, ht0, List.map_map]
  congr 1
  apply List.map_congr_left
  intro x _
  simp only [Function.comp]
  have : maxList w * (maxList w)⁻¹ = 1 := Rat.mul_inv_cancel _ hm0
  grind

theorem probs_sum (w : List Rat) (hpos : 0 < sumList w) :
    sumList (w.map (· / sumList w)) = 1 := by
  rw [sumList_map_div]
  have : sumList w ≠ 0 := by grind
  grind

/-- sample_in_support: with `0 < r < 1`, non-negative weights and positive total mass, the flat
    index drawn by `Tensor._sample` is a cell of the row and that cell has positive weight. -/
theorem sample_in_support (w : List Rat) (r : Rat) (hr0 : 0 < r) (hr1 : r < 1)
    (hw : ∀ x ∈ w, 0 ≤ x) (hpos : 0 < sumList w) :
    ∃ h : pickCell w r < w.length, 0 < w[pickCell w r] := by
  have hp : ∀ x ∈ w.map (· / sumList w), 0 ≤ x := by
    intro x hx
    obtain ⟨y, hy, rfl⟩ := List.mem_map.mp hx
    exact rat_div_nonneg _ _ (hw y hy) hpos
  obtain ⟨hi, hv⟩ := inverse_cdf_index _ r hr0 hr1 hp (probs_sum w hpos)
  simp only [pickCell, probs_eq w hpos]
  simp only [List.length_map] at hi
  refine ⟨hi, ?_⟩
  simp only [List.getElem_map] at hv
  by_cases h0 : 0 < w[pick (w.map (· / sumList w)) r]
  · exact h0
  · have hz : w[pick (w.map (· / sumList w)) r] = 0 := by
      have := hw _ (List.getElem_mem hi)
      grind
    rw [hz] at hv
    grind

/-- KF-sample-zero-uniform, in the model: a uniform draw of exactly 0 selects cell 0 whatever its
    weight (`s < 0` is False for every prefix sum), so the hypothesis `0 < r` of
    `sample_in_support` cannot be dropped. -/
theorem sample_zero_uniform (w : List Rat) (hw : ∀ x ∈ w, 0 ≤ x) (hpos : 0 < sumList w) :
    pickCell w 0 = 0 := by
  have hp : ∀ x ∈ w.map (· / sumList w), 0 ≤ x := by
    intro x hx
    obtain ⟨y, hy, rfl⟩ := List.mem_map.mp hx
    exact rat_div_nonneg _ _ (hw y hy) hpos
  simp only [pickCell, probs_eq w hpos, pick, cumsum]
  exact countLt_zero_of_ge 0 _ 0 (by grind) hp

theorem sample_zero_uniform_witness :
    ¬ (∀ (w : List Rat) (r : Rat), 0 ≤ r → r < 1 → (∀ x ∈ w, 0 ≤ x) → 0 < sumList w →
        ∃ h : pickCell w r < w.length, 0 < w[pickCell w r]) := by
  intro h
  have hw : ∀ x ∈ ([0, 1] : List Rat), 0 ≤ x := by
    intro x hx; simp at hx; rcases hx with rfl | rfl <;> grind
  have hpos : 0 < sumList ([0, 1] : List Rat) := by simp only [sumList]; grind
  obtain ⟨_, hv⟩ := h [0, 1] 0 (by grind) (by grind) hw hpos
  simp only [sample_zero_uniform _ hw hpos, List.getElem_cons_zero] at hv
  grind

theorem sumList_append : ∀ a b : List Rat, sumList (a ++ b) = sumList a + sumList b
  | [], b => by simp [sumList, Rat.zero_add]
  | x :: a, b => by simp only [List.cons_append, sumList, sumList_append a b]; grind

theorem sumList_flatMap {α : Type} (g : α → List Rat) : ∀ l : List α,
    sumList (l.flatMap g) = sumList (l.map fun a => sumList (g a))
  | [] => rfl
  | a :: l => by simp only [List.flatMap_cons, List.map_cons, sumList, sumList_append, sumList_flatMap g l]

/-- Summing a function over all cells variable by variable equals summing its row-major flattening
    (what `reshape(batch_shape + (-1,))` followed by `sum(-1)` does). -/
theorem sumOver_eq_flat : ∀ (sizes : List Nat) (g : List Nat → Rat),
    sumOver sizes g = sumList ((allIdx sizes).map g)
  | [], g => by simp [sumOver, allIdx, sumList, Rat.add_zero]
  | s :: ss, g => by
      simp only [sumOver, sumRange, allIdx, List.map_flatMap, sumList_flatMap, List.map_map]
      congr 1
      apply List.map_congr_left
      intro i _
      simp only [sumOver_eq_flat ss]; rfl

theorem sumList_const_zero {α : Type} : ∀ l : List α, sumList (l.map fun _ => (0 : Rat)) = 0
  | [] => rfl
  | _ :: l => by simp only [List.map_cons, sumList, sumList_const_zero l]; grind

theorem sumOver_zero : ∀ (sizes : List Nat), sumOver sizes (fun _ => 0) = 0
  | [] => rfl
  | s :: ss => by
      simp only [sumOver, sumRange, sumOver_zero ss]
      exact sumList_const_zero _

theorem sumList_single (n p : Nat) (g : Nat → Rat) (hp : p < n) (hg : ∀ x, x ≠ p → g x = 0) :
    sumList ((List.range n).map g) = g p := by
  have key : ∀ l : List Nat, l.Nodup → sumList (l.map g) = if p ∈ l then g p else 0 := by
    intro l
    induction l with
    | nil => intro _; simp [sumList]
    | cons a l ih =>
      intro hnd
      have hnd' := List.nodup_cons.mp hnd
      simp only [List.map_cons, sumList, ih hnd'.2, List.mem_cons]
      by_cases hap : a = p
      · subst hap
        have : ¬ a ∈ l := hnd'.1
        simp [this, Rat.add_zero]
      · have : ¬ p = a := fun h => hap h.symm
        simp [hg a hap, this, Rat.zero_add]
  rw [key _ List.nodup_range]; simp [hp]

/-- The sample `Σ_j Delta(v_j, pt_j) + log Z` has total mass `Z` over the sampled variables,
    whatever point was drawn, as long as each coordinate is a value of its variable. -/
theorem sumOver_sampleVal : ∀ (sizes pt : List Nat) (Z : Rat), InRange sizes pt →
    sumOver sizes (sampleVal pt Z) = Z
  | [], [], Z, _ => by simp [sumOver, sampleVal]
  | [], _ :: _, _, h => by simp [InRange] at h
  | _ :: _, [], _, h => by simp [InRange] at h
  | s :: ss, p :: pt, Z, h => by
      simp only [sumOver, sumRange]
      rw [sumList_single s p _ h.1]
      · have : (fun t => sampleVal (p :: pt) Z (p :: t)) = sampleVal pt Z := by
          funext t; simp [sampleVal]
        rw [this]; exact sumOver_sampleVal ss pt Z h.2
      · intro x hx
        have : (fun t => sampleVal (p :: pt) Z (x :: t)) = fun _ => 0 := by
          funext t; simp [sampleVal, hx]
        rw [this]; exact sumOver_zero ss

theorem range_flatMap_mul (n : Nat) : ∀ s : Nat,
    (List.range s).flatMap (fun i => (List.range n).map (fun j => i * n + j)) = List.range (s * n)
  | 0 => by simp
  | s + 1 => by
      rw [List.range_succ, List.flatMap_append, range_flatMap_mul n s, Nat.succ_mul, List.range_add]
      simp

theorem allIdx_encode : ∀ sizes : List Nat, (allIdx sizes).map (encode sizes) = List.range (prod sizes)
  | [] => by simp [allIdx, encode, prod, List.range_succ]
  | s :: ss => by
      simp only [allIdx, List.map_flatMap, List.map_map, prod]
      rw [← range_flatMap_mul (prod ss) s]
      congr 1
      funext i
      rw [← allIdx_encode ss, List.map_map]
      rfl

theorem allIdx_inRange : ∀ (sizes e : List Nat), e ∈ allIdx sizes → InRange sizes e
  | [], e, h => by simp [allIdx] at h; subst h; trivial
  | s :: ss, e, h => by
      simp only [allIdx, List.mem_flatMap, List.mem_range, List.mem_map] at h
      obtain ⟨i, hi, t, ht, rfl⟩ := h
      exact ⟨hi, allIdx_inRange ss t ht⟩

theorem allIdx_length (sizes : List Nat) : (allIdx sizes).length = prod sizes := by
  have := congrArg List.length (allIdx_encode sizes)
  simpa using this

/-- The m-th cell of the row-major flattening is the cell the decode loop reconstructs from m. -/
theorem allIdx_getElem (sizes : List Nat) (m : Nat) (h : m < (allIdx sizes).length) :
    (allIdx sizes)[m] = decode sizes m := by
  have hr := allIdx_inRange sizes _ (List.getElem_mem h)
  have he : encode sizes (allIdx sizes)[m] = m := by
    have h1 : ((allIdx sizes).map (encode sizes))[m]'(by simpa using h) = (List.range (prod sizes))[m]'(by
        rw [List.length_range, ← allIdx_length]; exact h) := by
      simp only [allIdx_encode]
    simpa using h1
  have := decode_encode sizes _ hr
  rw [he] at this
  exact this.symm

/-! ## The assembled statements about one row of `Tensor._sample` -/

/-- delta_add_reduce for a unit-mass Delta: what `(Delta + f).reduce(logaddexp, v)` returns (the
    model's `deltaAddReduce`) is the textbook sum `Σ_x δ_p(x) · f x`. -/
theorem delta_add_reduce_unit (n p : Nat) (f : Nat → Rat) (hp : p < n) :
    sumRange n (fun x => deltaLin p 1 x * f x) = deltaAddReduce f p := by
  rw [delta_add_reduce n p 1 f hp]; simp [deltaAddReduce, Rat.one_mul]

/-- delta_integrate: `Integrate(Delta(v, p, ld), f, v)` (model: `exp ld · f p`) is `Σ_x δ(x) f x`. -/
theorem delta_integrate (n p : Nat) (w : Rat) (f : Nat → Rat) (hp : p < n) :
    sumRange n (fun x => deltaLin p w x * f x) = deltaIntegrate w f p :=
  delta_add_reduce n p w f hp

/-- sample_row_support: for `0 < r < 1`, non-negative cell weights with positive total, the point
    returned for the row assigns every sampled variable one of its values and lies in the support. -/
theorem sample_row_support (esizes : List Nat) (cell : List Nat → Rat) (r : Rat)
    (hs : ∀ s ∈ esizes, 0 < s) (hr0 : 0 < r) (hr1 : r < 1)
    (hw : ∀ e ∈ allIdx esizes, 0 ≤ cell e) (hpos : 0 < sumOver esizes cell) :
    InRange esizes (sampleRow esizes ((allIdx esizes).map cell) r).1 ∧
      0 < cell (sampleRow esizes ((allIdx esizes).map cell) r).1 := by
  refine ⟨sample_point_in_range _ _ hs, ?_⟩
  have hw' : ∀ x ∈ (allIdx esizes).map cell, 0 ≤ x := by
    intro x hx; obtain ⟨e, he, rfl⟩ := List.mem_map.mp hx; exact hw e he
  rw [sumOver_eq_flat] at hpos
  obtain ⟨hi, hv⟩ := sample_in_support _ r hr0 hr1 hw' hpos
  simp only [List.length_map] at hi
  simp only [List.getElem_map] at hv
  rw [allIdx_getElem _ _ hi] at hv
  exact hv

/-- sample_mass: per batch element and per particle (any uniform `r` at all), the total mass of the
    sample over the sampled variables equals the total mass of the original over them. -/
theorem sample_mass (esizes : List Nat) (cell : List Nat → Rat) (r : Rat)
    (hs : ∀ s ∈ esizes, 0 < s) :
    sumOver esizes (sampleVal (sampleRow esizes ((allIdx esizes).map cell) r).1
        (sampleRow esizes ((allIdx esizes).map cell) r).2) = sumOver esizes cell := by
  simp only [sampleRow]
  rw [sumOver_sampleVal _ _ _ (sample_point_in_range _ _ hs), sumOver_eq_flat]

/-! ## Non-vacuity: the hypotheses are satisfiable on a non-trivial instance -/

example : InRange [2, 3] [1, 2] := by simp [InRange]
example : decode [2, 3] (encode [2, 3] [1, 2]) = [1, 2] := by decide
example : encode [2, 3, 4] (decode [2, 3, 4] 17) = 17 := by decide
example : ∀ s ∈ [2, 3], 0 < s := by decide
example : ∃ (p : List Rat) (r : Rat), 0 < r ∧ r < 1 ∧ (∀ x ∈ p, 0 ≤ x) ∧ sumList p = 1 ∧ p.length = 3 :=
  ⟨[1/4, 0, 3/4], 1/2, by decide +kernel⟩
example : ∃ (w : List Rat), (∀ x ∈ w, 0 ≤ x) ∧ 0 < sumList w ∧ (0 : Rat) ∈ w :=
  ⟨[0, 2, 1], by decide +kernel⟩

end FV.Props.C14
