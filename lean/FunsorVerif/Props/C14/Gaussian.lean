/-
  Props/C14/Gaussian.lean — Gaussian._sample is an affine function of the noise with the Gaussian's
  mean and covariance (funsor/gaussian.py:946-1061), as linear algebra over ℚ.

  Full sampling:   sample = triangular_solve((noise + white_vec)[..., None], prec_sqrt, transpose=True)
                   i.e. the x with  Pᵀ x = ε + w   (P = the square prec_sqrt after _compress_rank).
  Partial:         L = cholesky(Pa Paᵀ);  u = L⁻¹ Pa (w − Pbᵀ x_b);  sample = the x with Lᵀ x = ε + u.
  The theorems take the solve equations as hypotheses (LAPACK's triangular solve / Cholesky are
  modelled by their defining equations, not verified) and an inverse `A` of `Pᵀ`, which exists
  exactly when the solve is well posed.
-/
import Mathlib.LinearAlgebra.Matrix.NonsingularInverse
namespace FV.Props.C14
open Matrix

variable {n : Type} [Fintype n] [DecidableEq n]

/-- gaussian_sample_affine: the sample is `A ε + μ` with `μ = A w`; the covariance `A Aᵀ` of the
    noise term is the inverse of the precision `P Pᵀ`, and `μ` is the mean: `(P Pᵀ) μ = P w`
    (the information vector). -/
theorem gaussian_sample_affine (P A : Matrix n n ℚ) (hA : Pᵀ * A = 1) (w ε x : n → ℚ)
    (hx : Pᵀ *ᵥ x = ε + w) :
    x = A *ᵥ ε + A *ᵥ w ∧ (P * Pᵀ) * (A * Aᵀ) = 1 ∧ (P * Pᵀ) *ᵥ (A *ᵥ w) = P *ᵥ w := by
  have hA' : A * Pᵀ = 1 := (mul_eq_one_comm).mp hA
  have hAt : Aᵀ * P = 1 := by
    have := congrArg Matrix.transpose hA
    simpa [Matrix.transpose_mul] using this
  have hPA : P * Aᵀ = 1 := (mul_eq_one_comm).mp hAt
  refine ⟨?_, ?_, ?_⟩
  · have : A *ᵥ (Pᵀ *ᵥ x) = x := by
      rw [Matrix.mulVec_mulVec, hA', Matrix.one_mulVec]
    rw [← this, hx, Matrix.mulVec_add]
  · calc (P * Pᵀ) * (A * Aᵀ) = P * ((Pᵀ * A) * Aᵀ) := by simp only [Matrix.mul_assoc]
      _ = 1 := by rw [hA, Matrix.one_mul, hPA]
  · rw [Matrix.mulVec_mulVec]
    have : P * Pᵀ * A = P := by rw [Matrix.mul_assoc, hA, Matrix.mul_one]
    rw [this]

variable {r b : Type} [Fintype r] [Fintype b]

/-- gaussian_sample_conditional: sampling the block `a` given the remaining real variables
    `x_b`: the sample is `B ε + m` with `B Bᵀ = (Pa Paᵀ)⁻¹ = Λaa⁻¹` and `Λaa m = (P w)_a − Λab x_b`,
    the conditional mean. -/
theorem gaussian_sample_conditional (Pa : Matrix n r ℚ) (Pb : Matrix b r ℚ) (L B : Matrix n n ℚ)
    (hL : L * Lᵀ = Pa * Paᵀ) (hB : Lᵀ * B = 1) (w : r → ℚ) (xb : b → ℚ) (u ε x : n → ℚ)
    (hu : L *ᵥ u = Pa *ᵥ (w - Pbᵀ *ᵥ xb)) (hx : Lᵀ *ᵥ x = ε + u) :
    x = B *ᵥ ε + B *ᵥ u ∧ (Pa * Paᵀ) * (B * Bᵀ) = 1 ∧
      (Pa * Paᵀ) *ᵥ (B *ᵥ u) = Pa *ᵥ w - (Pa * Pbᵀ) *ᵥ xb := by
  obtain ⟨h1, h2, h3⟩ := gaussian_sample_affine L B hB u ε x hx
  refine ⟨h1, by rw [← hL]; exact h2, ?_⟩
  rw [← hL, h3, hu, Matrix.mulVec_sub, Matrix.mulVec_mulVec]

/-- Non-vacuity: a 2×2 triangular square root, its inverse transpose, and a solution. -/
example : ∃ (P A : Matrix (Fin 2) (Fin 2) ℚ) (w ε x : Fin 2 → ℚ), Pᵀ * A = 1 ∧ Pᵀ *ᵥ x = ε + w :=
  ⟨!![2, 0; 1, 1], !![1/2, -1/2; 0, 1], ![1, 1], ![1, 0], ![1/2, 1], by
    constructor
    · ext i j; fin_cases i <;> fin_cases j <;> simp [Matrix.mul_apply, Fin.sum_univ_two] <;> norm_num
    · ext i; fin_cases i <;> simp [Matrix.mulVec, dotProduct, Fin.sum_univ_two]⟩

end FV.Props.C14
