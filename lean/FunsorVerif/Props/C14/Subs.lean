/-
  Props/C14/Subs.lean — soundness of funsor's Delta substitution rule and Delta+Delta rule on the
  executable model Model/C14Subs.lean (multi-name Deltas with dependent points / log-densities).

    deltaSubs_sem        Delta(terms)(**subs), for ANY Delta and ANY discrete/Variable substitution,
                         evaluates at env to the original density read in the substituted environment
                         (simultaneous substitution), whichever of the three per-term branches fire.
    shape_sem            the three return statements of Delta.eager_subs denote the same value.
    addMultidelta_sem    eager_add_multidelta: in each of its three branches (left binds an input of
                         right / right binds an input of left / independent) the result denotes the
                         product of the two densities (sum of log-densities) at every environment.
    delta_reduce_env     Σ_{x<n} Delta(x, p, w)(env[x:=i]) · F(env[x:=i]) = w · F(env[x := p]) for ANY F of the
                         environment (tensor, lazy expression, another Delta depending on x), p, w not reading x.
    addMultidelta_reduce the dependent-Delta statement: (Delta(x,p,w) + Delta(rhs terms depending on x)) summed
                         over x is  w · (rhs density with x := p)  — through whichever branch the sum was built.
    pointSubst_noop      key step: where the left Delta is non-zero, substituting its points is the
                         identity on environments.
-/
import FunsorVerif.Model.C14Subs
import FunsorVerif.Props.C14
namespace FV.Props.C14
open FV.C14 FV.C14.Subs

theorem eagerSubs_den (s : Subst) (env : Env) : ∀ ts : List DTerm,
    (eagerSubs s ts).den env
      = termsDen (ts.map fun t => { t with point := fun _ => t.point env, w := fun _ => t.w env })
          (substEnv s env)
  | [] => by simp [eagerSubs, DNF.den, termsDen, prodScales]
  | t :: ts => by
    have ih := eagerSubs_den s env ts
    simp only [DNF.den] at ih
    simp only [eagerSubs, List.map_cons, termsDen, termDen, substEnv]
    split <;> rename_i hl <;> simp only [hl, DNF.den, termsDen, termDen, prodScales, SVal.eval] <;>
      rw [← ih] <;> grind

/-- **Substitution rule.** For every Delta (any number of terms, points and log-densities depending
    on other variables) and every substitution of Variables / discrete values,
    `Delta(terms)(**subs)` evaluated at `env` is the Delta evaluated at the substituted environment. -/
theorem deltaSubs_sem (s : Subst) (env : Env) : ∀ ts : List DTerm,
    (deltaSubs s ts).den env = termsDen ts (substEnv s env) := by
  intro ts
  simp only [deltaSubs, eagerSubs_den]
  induction ts with
  | nil => rfl
  | cons t ts ih => simp only [List.map_cons, termsDen, ih]; rfl

/-- The three return shapes of `Delta.eager_subs` denote the normal form's value. -/
theorem shape_sem (d : DNF) (o : SubsOut) (env : Env) (h : shape d = some o) : o.den env = d.den env := by
  unfold shape at h
  split at h <;> simp at h <;> subst h <;> simp_all [SubsOut.den, DNF.den, termsDen, prodScales]

/-- `Delta.eager_subs` never hits `Delta(())` on a non-empty Delta. -/
theorem shape_some (s : Subst) (ts : List DTerm) (h : ts ≠ []) : (shape (deltaSubs s ts)).isSome := by
  have key : ∀ ts : List DTerm, ts ≠ [] → (eagerSubs s ts).terms ≠ [] ∨ (eagerSubs s ts).scales ≠ [] := by
    intro ts h
    cases ts with
    | nil => exact absurd rfl h
    | cons t ts => simp only [eagerSubs]; split <;> simp
  have := key (ts.map (substChild s)) (by simpa using h)
  unfold shape deltaSubs
  split <;> simp_all

theorem termsDen_append (env : Env) : ∀ a b : List DTerm,
    termsDen (a ++ b) env = termsDen a env * termsDen b env
  | [], b => by simp [termsDen, Rat.one_mul]
  | t :: a, b => by simp only [List.cons_append, termsDen, termsDen_append env a b, Rat.mul_assoc]

theorem termsDen_ne_zero (env : Env) : ∀ ts : List DTerm, termsDen ts env ≠ 0 →
    ∀ t ∈ ts, env t.name = t.point env
  | [], _ => by simp
  | t :: ts, h => by
    simp only [termsDen] at h
    have h1 : termDen t env ≠ 0 := fun e => h (by rw [e, Rat.zero_mul])
    have h2 : termsDen ts env ≠ 0 := fun e => h (by rw [e, Rat.mul_zero])
    intro u hu
    rcases List.mem_cons.mp hu with rfl | hu
    · unfold termDen at h1; split at h1 <;> simp_all
    · exact termsDen_ne_zero env ts h2 u hu

theorem pointSubst_lookup (I : List String) (k : String) (v : SVal) : ∀ lhs : List DTerm,
    (pointSubst lhs I).lookup k = some v → ∃ t ∈ lhs, t.name = k ∧ v = SVal.val t.deps t.point
  | [] => by simp [pointSubst]
  | t :: lhs => by
    intro h
    have ih := pointSubst_lookup I k v lhs
    unfold pointSubst at h ih
    simp only [List.filter_cons] at h
    split at h
    · simp only [List.map_cons, List.lookup_cons] at h
      split at h
      · rename_i hk
        refine ⟨t, by simp, ?_, ?_⟩
        · exact (beq_iff_eq.mp hk).symm
        · exact (Option.some.inj h).symm
      · obtain ⟨u, hu, hh⟩ := ih h; exact ⟨u, by simp [hu], hh⟩
    · obtain ⟨u, hu, hh⟩ := ih h; exact ⟨u, by simp [hu], hh⟩

/-- Where the Delta `lhs` is non-zero, substituting (any sub-family of) its points is the identity. -/
theorem pointSubst_noop (lhs : List DTerm) (I : List String) (env : Env) (h : termsDen lhs env ≠ 0) :
    substEnv (pointSubst lhs I) env = env := by
  funext k
  unfold substEnv
  split
  · rename_i v hv
    obtain ⟨t, ht, hn, rfl⟩ := pointSubst_lookup I k v lhs hv
    simp only [SVal.eval]
    rw [← termsDen_ne_zero env lhs h t ht, hn]
  · rfl

/-- **Delta + Delta.** In every branch of `eager_add_multidelta` the result denotes the product of the
    two densities (the sum of the log-densities), for all Deltas and all environments. -/
theorem addMultidelta_sem (lhs rhs : List DTerm) (env : Env) :
    (addMultidelta lhs rhs).den env = termsDen lhs env * termsDen rhs env := by
  unfold addMultidelta
  split
  · have hs := deltaSubs_sem (pointSubst lhs (inputsOf rhs)) env rhs
    simp only [DNF.den] at hs ⊢
    rw [termsDen_append, Rat.mul_assoc, hs]
    by_cases h0 : termsDen lhs env = 0
    · simp [h0, Rat.zero_mul]
    · rw [pointSubst_noop lhs _ env h0]
  · split
    · have hs := deltaSubs_sem (pointSubst rhs (inputsOf lhs)) env lhs
      simp only [DNF.den] at hs ⊢
      rw [termsDen_append, Rat.mul_assoc, Rat.mul_comm (termsDen rhs env), ← Rat.mul_assoc, hs]
      by_cases h0 : termsDen rhs env = 0
      · simp [h0, Rat.mul_zero]
      · rw [pointSubst_noop rhs _ env h0]
    · simp [DNF.den, prodScales, termsDen_append, Rat.mul_one]

/-- **Delta + f reduced over the Delta's variable**, `f` any function of the environment (so also a
    Delta whose point / log-density depends on `x`): the sum over `x < n` is `w · f` at `x := point`.
    Hypotheses: the point is a value of the variable, point and weight do not read `x` (funsor asserts
    `name not in point.inputs`). -/
theorem delta_reduce_env (n : Nat) (x : String) (ds : List String) (p : Env → Nat) (w F : Env → Rat) (env : Env)
    (hp : p env < n) (hpx : ∀ i, p (upd env x i) = p env) (hwx : ∀ i, w (upd env x i) = w env) :
    sumRange n (fun i => termDen ⟨x, ds, p, w⟩ (upd env x i) * F (upd env x i))
      = w env * F (upd env x (p env)) := by
  unfold sumRange
  rw [sumList_single n (p env) _ hp]
  · simp [termDen, upd, hpx, hwx]
  · intro i hi
    simp [termDen, upd, hpx, hi, Rat.zero_mul]

/-- The same through `eager_add_multidelta`: a single Delta on `x` plus any Delta (possibly reading `x`
    in its points and log-densities, possibly binding `x` again), reduced over `x`. -/
theorem addMultidelta_reduce (n : Nat) (x : String) (ds : List String) (p : Env → Nat) (w : Env → Rat)
    (rhs : List DTerm) (env : Env)
    (hp : p env < n) (hpx : ∀ i, p (upd env x i) = p env) (hwx : ∀ i, w (upd env x i) = w env) :
    sumRange n (fun i => (addMultidelta [⟨x, ds, p, w⟩] rhs).den (upd env x i))
      = w env * termsDen rhs (upd env x (p env)) := by
  have := delta_reduce_env n x ds p w (termsDen rhs) env hp hpx hwx
  rw [← this]
  congr 1
  funext i
  rw [addMultidelta_sem]
  simp [termsDen, Rat.mul_one]

/-! Satisfiability / non-vacuity: a dependent pair  Delta(x, 2) + Delta(y, x+1, w = x)  takes branch 1,
    renames, and evaluates as stated. -/
def exL : List DTerm := [⟨"x", [], fun _ => 2, fun _ => 1⟩]
def exR : List DTerm := [⟨"y", ["x"], fun e => e "x" + 1, fun e => (e "x" : Rat)⟩]
def exEnv : Env := fun k => if k = "x" then 2 else if k = "y" then 3 else 0

example : (freshOf exL).any (inputsOf exR).contains = true := by decide
example : termsDen exL exEnv ≠ 0 := by decide +kernel
example : (addMultidelta exL exR).den exEnv = 2 := by decide +kernel
example : (shape (deltaSubs [("x", .val [] fun _ => 2), ("y", .var "z")] (exL ++ exR))).isSome := by decide

example : (fun (_ : Env) => (2 : Nat)) exEnv < 3 ∧ (∀ i, (fun (_ : Env) => (2 : Nat)) (upd exEnv "x" i) = 2) := by simp
example : sumRange 3 (fun i => (addMultidelta exL exR).den (upd exEnv "x" i)) = 2 := by decide +kernel

end FV.Props.C14
