/-
  Props/C14/Subset.lean — Deltas binding several variables, reduced / integrated over any subset of
  them (funsor/integrate.py eager_integrate, funsor/delta.py Delta.eager_reduce + eager_add_delta_funsor).
  delta_subset_integrate, delta_subset_reduce: for any number of variables, any sizes, any subset
  (empty, strict, full); the un-reduced variables keep their point-mass factor.
-/
import FunsorVerif.Props.C14
namespace FV.Props.C14
open FV FV.C14

theorem sumMask_zero : ∀ (sizes : List Nat) (mask : List Bool) (x : List Nat),
    sumMask sizes mask (fun _ => 0) x = 0
  | [], _, _ => by simp [sumMask]
  | _ :: _, [], _ => by simp [sumMask]
  | _ :: _, _ :: _, [] => by simp [sumMask]
  | s :: ss, m :: ms, x :: xs => by
      simp only [sumMask]
      cases m
      · simp only [Bool.false_eq_true, if_false]; exact sumMask_zero ss ms xs
      · simp only [if_true, sumRange, sumMask_zero ss ms xs]; exact sumList_const_zero _

/-- delta_subset_integrate: integrating a Delta that binds several variables over ANY subset `S` of
    them (empty, strict, full): Σ_{x_S} δ_p(x)·f(x) = (∏_{j∈S} w_j) · δ_{p_{¬S}}(x_{¬S}) · f(p_S, x_{¬S}).
    The un-integrated variables keep their point-mass factor and stay free in the result. -/
theorem delta_subset_integrate : ∀ (sizes : List Nat) (mask : List Bool) (pt : List Nat) (ws : List Rat)
    (f : List Nat → Rat) (x : List Nat), InRange sizes pt → mask.length = sizes.length →
    ws.length = sizes.length → x.length = sizes.length →
    sumMask sizes mask (fun t => deltaProd pt ws t * f t) x = deltaIntegrateSubset mask pt ws f x
  | [], [], [], [], f, [], _, _, _, _ => by
      simp [sumMask, deltaProd, deltaIntegrateSubset, wMask, deltaRest, mergePt, Rat.one_mul]
  | [], _, _ :: _, _, _, _, h, _, _, _ => by simp [InRange] at h
  | _ :: _, _, [], _, _, _, h, _, _, _ => by simp [InRange] at h
  | [], _ :: _, _, _, _, _, _, h, _, _ => by simp at h
  | [], _, _, _ :: _, _, _, _, _, h, _ => by simp at h
  | [], _, _, _, _, _ :: _, _, _, _, h => by simp at h
  | _ :: _, [], _, _, _, _, _, h, _, _ => by simp at h
  | _ :: _, _, _, [], _, _, _, _, h, _ => by simp at h
  | _ :: _, _, _, _, _, [], _, _, _, h => by simp at h
  | s :: ss, m :: ms, p :: pt, w :: ws, f, x :: xs, hr, hm, hw, hx => by
      have hr' := hr.2
      have hm' : ms.length = ss.length := by simpa using hm
      have hw' : ws.length = ss.length := by simpa using hw
      have hx' : xs.length = ss.length := by simpa using hx
      cases m
      · -- the variable is not reduced: it stays free, with its indicator factor
        have ih := delta_subset_integrate ss ms pt ws (fun t => (if x = p then w else 0) * f (x :: t)) xs
          hr' hm' hw' hx'
        have e : (fun t => deltaProd (p :: pt) (w :: ws) (x :: t) * f (x :: t))
            = fun t => deltaProd pt ws t * ((if x = p then w else 0) * f (x :: t)) := by
          funext t; simp only [deltaProd]; grind
        simp only [sumMask, Bool.false_eq_true, if_false, e, ih]
        simp only [deltaIntegrateSubset, wMask, deltaRest, mergePt, Bool.false_eq_true, if_false]
        grind
      · -- the variable is reduced: only the point survives the sum
        have hz : ∀ i, i ≠ p → sumMask ss ms (fun t => deltaProd (p :: pt) (w :: ws) (i :: t) * f (i :: t)) xs = 0 := by
          intro i hi
          have e : (fun t => deltaProd (p :: pt) (w :: ws) (i :: t) * f (i :: t)) = fun _ => 0 := by
            funext t; simp [deltaProd, hi, Rat.zero_mul]
          rw [e]; exact sumMask_zero ss ms xs
        have ih := delta_subset_integrate ss ms pt ws (fun t => w * f (p :: t)) xs hr' hm' hw' hx'
        have e : (fun t => deltaProd (p :: pt) (w :: ws) (p :: t) * f (p :: t))
            = fun t => deltaProd pt ws t * (w * f (p :: t)) := by
          funext t; simp only [deltaProd, if_true]; grind
        simp only [sumMask, if_true, sumRange]
        rw [sumList_single s p _ hr.1 hz, e, ih]
        simp only [deltaIntegrateSubset, wMask, deltaRest, mergePt, if_true]
        grind

theorem wMask_unit : ∀ (mask : List Bool) (ws : List Rat),
    (∀ j (h : j < ws.length) (h' : j < mask.length), mask[j] = true → ws[j] = 1) → wMask mask ws = 1
  | [], _, _ => by simp [wMask]
  | _ :: _, [], _ => by simp [wMask]
  | m :: ms, w :: ws, h => by
      have ih := wMask_unit ms ws fun j hj hj' hmj => h (j + 1) (by simpa using hj) (by simpa using hj') (by simpa using hmj)
      simp only [wMask, ih]
      cases m
      · simp [Rat.mul_one]
      · have := h 0 (by simp) (by simp) (by simp)
        simp at this; simp [this, Rat.mul_one]

/-- delta_subset_reduce: `(Delta + f).reduce(logaddexp, S)` for a Delta whose reduced variables have
    unit mass: Σ_{x_S} δ_p(x)·f(x) = δ_{p_{¬S}}(x_{¬S}) · f(p_S, x_{¬S}). -/
theorem delta_subset_reduce (sizes : List Nat) (mask : List Bool) (pt : List Nat) (ws : List Rat)
    (f : List Nat → Rat) (x : List Nat) (hr : InRange sizes pt) (hm : mask.length = sizes.length)
    (hw : ws.length = sizes.length) (hx : x.length = sizes.length)
    (hunit : ∀ j (h : j < ws.length) (h' : j < mask.length), mask[j] = true → ws[j] = 1) :
    sumMask sizes mask (fun t => deltaProd pt ws t * f t) x = deltaReduceSubset mask pt ws f x := by
  rw [delta_subset_integrate sizes mask pt ws f x hr hm hw hx]
  simp only [deltaIntegrateSubset, deltaReduceSubset, wMask_unit mask ws hunit, Rat.one_mul]

example : InRange [2, 3] [1, 2] ∧ [true, false].length = [2, 3].length := by simp [InRange]

end FV.Props.C14
