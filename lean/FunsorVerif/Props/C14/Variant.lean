/-
  Props/C14/Variant.lean — the draw statement of Tensor._sample as funsor/tensor.py reads NOW.

  fv/harness/c14.py `extract` regenerates Gen/C14Variant.lean from the source on every run
  (comparison operator, whether the last prefix sum is dropped, whether the rounding guard is
  present).  `gen_variant_proven` is the obligation over that generated constant; with it,
  `sample_row_support_current` gives "the picked cell is a valid assignment and has positive
  probability" for every uniform 0 ≤ r < 1 — the full range of numpy.random.rand — for any number of
  sampled variables and any sizes.  If the source goes back to `np.sum(s < r)` the obligation fails
  to elaborate (the statement is then false at r = 0, see `sample_zero_uniform_witness`).
-/
import FunsorVerif.Props.C14
import FunsorVerif.Gen.C14Variant
namespace FV.Props.C14
open FV FV.C14

/-! ## The `s[..., :-1] <= r` variant (and the clamp) -/

theorem cumsumFrom_ge (r : Rat) : ∀ (ps : List Rat) (acc : Rat), r < acc → (∀ x ∈ ps, 0 ≤ x) →
    ∀ y ∈ cumsumFrom acc ps, r < y
  | [], _, _, _ => by simp [cumsumFrom]
  | p :: ps, acc, h, hp => by
      have hp0 : 0 ≤ p := hp p (by simp)
      have h' : r < acc + p := by grind
      intro y hy
      simp only [cumsumFrom, List.mem_cons] at hy
      rcases hy with rfl | hy
      · exact h'
      · exact cumsumFrom_ge r ps (acc + p) h' (fun x hx => hp x (by simp [hx])) y hy

theorem countLe_zero (r : Rat) : ∀ l : List Rat, (∀ y ∈ l, r < y) → countLe r l = 0
  | [], _ => rfl
  | a :: l, h => by
      have ha : r < a := h a (by simp)
      have : ¬ a ≤ r := by grind
      simp [countLe, this, countLe_zero r l fun y hy => h y (by simp [hy])]

/-- Core of the inverse-CDF argument for `np.sum(s[..., :-1] <= r)`: with `acc ≤ r < acc + Σ ps` the
    count is a valid index and the entry there is positive.  `r = acc` (a uniform of exactly 0) is allowed. -/
theorem countLe_spec (r : Rat) : ∀ (ps : List Rat) (acc : Rat), acc ≤ r → r < acc + sumList ps →
    (∀ x ∈ ps, 0 ≤ x) →
    ∃ h : countLe r (cumsumFrom acc ps).dropLast < ps.length,
      0 < ps[countLe r (cumsumFrom acc ps).dropLast]
  | [], acc, h1, h2, _ => by simp [sumList] at h2; grind
  | [p], acc, h1, h2, _ => by
      simp only [sumList] at h2
      simp only [cumsumFrom, List.dropLast_singleton, countLe]
      refine ⟨by simp, ?_⟩
      simp only [List.getElem_cons_zero]
      grind
  | p :: q :: rest, acc, h1, h2, hp => by
      have hp0 : 0 ≤ p := hp p (by simp)
      have hps : ∀ x ∈ q :: rest, 0 ≤ x := fun x hx => hp x (by simp [hx])
      have hdl : (cumsumFrom acc (p :: q :: rest)).dropLast
          = (acc + p) :: (cumsumFrom (acc + p) (q :: rest)).dropLast := by
        simp [cumsumFrom]
      rw [hdl]
      by_cases hle : acc + p ≤ r
      · have h2' : r < acc + p + sumList (q :: rest) := by simp only [sumList] at h2 ⊢; grind
        obtain ⟨hi, hv⟩ := countLe_spec r (q :: rest) (acc + p) hle h2' hps
        simp only [countLe, hle, if_true]
        refine ⟨by simp at hi ⊢; omega, ?_⟩
        have e : 1 + countLe r (cumsumFrom (acc + p) (q :: rest)).dropLast
            = countLe r (cumsumFrom (acc + p) (q :: rest)).dropLast + 1 := by omega
        simp only [e, List.getElem_cons_succ]
        exact hv
      · have hgt : r < acc + p := by grind
        have hz : countLe r (cumsumFrom (acc + p) (q :: rest)).dropLast = 0 :=
          countLe_zero r _ fun y hy =>
            cumsumFrom_ge r (q :: rest) (acc + p) hgt hps y (List.dropLast_subset _ hy)
        simp only [countLe, hle, if_false, hz]
        refine ⟨by simp, ?_⟩
        simp only [Nat.add_zero, List.getElem_cons_zero]
        grind

theorem lastPosFrom_ge : ∀ (xs : List Rat) (i best j : Nat) (h : j < xs.length), 0 < xs[j] →
    i + j ≤ lastPosFrom xs i best
  | [], _, _, _, h, _ => by simp at h
  | x :: xs, i, best, 0, _, hv => by
      simp only [List.getElem_cons_zero] at hv
      simp only [lastPosFrom, hv, if_true, Nat.add_zero]
      -- every later update only increases the candidate
      have mono : ∀ (ys : List Rat) (k b : Nat), b ≤ k → b ≤ lastPosFrom ys k b := by
        intro ys
        induction ys with
        | nil => intro k b _; simp [lastPosFrom]
        | cons y ys ih =>
          intro k b hb
          simp only [lastPosFrom]
          by_cases hy : 0 < y
          · simp only [hy, if_true]; exact Nat.le_trans hb (ih (k + 1) k (by omega))
          · simp only [hy, if_false]; exact ih (k + 1) b (by omega)
      exact mono xs (i + 1) i (by omega)
  | x :: xs, i, best, j + 1, h, hv => by
      simp only [List.getElem_cons_succ] at hv
      simp only [lastPosFrom]
      have := lastPosFrom_ge xs (i + 1) (if 0 < x then i else best) j (by simpa using h) hv
      omega

/-- The rounding guard is the identity in exact arithmetic: a cell of positive mass is never beyond
    the last cell of positive mass. -/
theorem clamp_noop (p : List Rat) (k : Nat) (h : k < p.length) (hv : 0 < p[k]) :
    min k (lastPos p) = k := by
  have := lastPosFrom_ge p 0 (p.length - 1) k h hv
  unfold lastPos
  omega

/-- Variants of the draw for which `inverse_cdf_index` holds for every `0 ≤ r < 1` (the range of
    `np.random.rand`). -/
def ProvenVariant (v : Variant) : Prop :=
  v.recognised = true ∧ v.cmp = Cmp.le ∧ v.dropLast = true

instance (v : Variant) : Decidable (ProvenVariant v) := by unfold ProvenVariant; infer_instance

/-- inverse_cdf_index for the variants `np.sum(s[..., :-1] <= r)` with or without the clamp:
    for `0 ≤ r < 1` and a normalised non-negative `p` the picked index is in range and has `p idx > 0`. -/
theorem inverse_cdf_index_variant (v : Variant) (hv : ProvenVariant v) (p : List Rat) (r : Rat)
    (hr0 : 0 ≤ r) (hr1 : r < 1) (hp : ∀ x ∈ p, 0 ≤ x) (hsum : sumList p = 1) :
    ∃ h : pickV v p r < p.length, 0 < p[pickV v p r] := by
  obtain ⟨_, hc, hd⟩ := hv
  obtain ⟨hi, hpos⟩ := countLe_spec r p 0 hr0 (by grind) hp
  have hk : pickV v p r = countLe r (cumsumFrom 0 p).dropLast := by
    unfold pickV cumsum
    simp only [hc, hd, if_true]
    by_cases hcl : v.clamp = true
    · simp only [hcl, if_true]; exact clamp_noop p _ hi hpos
    · simp [hcl]
  rw [hk]
  exact ⟨hi, hpos⟩

/-- Obligation over the generated constant: the statement funsor/tensor.py contains *now* is one of
    the proven variants. -/
theorem gen_variant_proven : ProvenVariant FV.Gen.C14.variant := by decide

/-- sample_in_support for the source's current variant: for every uniform `0 ≤ r < 1`. -/
theorem sample_in_support_variant (v : Variant) (hv : ProvenVariant v) (w : List Rat) (r : Rat)
    (hr0 : 0 ≤ r) (hr1 : r < 1) (hw : ∀ x ∈ w, 0 ≤ x) (hpos : 0 < sumList w) :
    ∃ h : pickCellV v w r < w.length, 0 < w[pickCellV v w r] := by
  have hp : ∀ x ∈ w.map (· / sumList w), 0 ≤ x := by
    intro x hx
    obtain ⟨y, hy, rfl⟩ := List.mem_map.mp hx
    exact rat_div_nonneg _ _ (hw y hy) hpos
  obtain ⟨hi, hval⟩ := inverse_cdf_index_variant v hv _ r hr0 hr1 hp (probs_sum w hpos)
  simp only [pickCellV, probs_eq w hpos]
  simp only [List.length_map] at hi
  refine ⟨hi, ?_⟩
  simp only [List.getElem_map] at hval
  by_cases h0 : 0 < w[pickV v (w.map (· / sumList w)) r]
  · exact h0
  · have hz : w[pickV v (w.map (· / sumList w)) r] = 0 := by
      have := hw _ (List.getElem_mem hi)
      grind
    rw [hz] at hval
    grind

/-- sample_row_support for the source's current variant (`Gen.C14.variant`). -/
theorem sample_row_support_current (esizes : List Nat) (cell : List Nat → Rat) (r : Rat)
    (hs : ∀ s ∈ esizes, 0 < s) (hr0 : 0 ≤ r) (hr1 : r < 1)
    (hw : ∀ e ∈ allIdx esizes, 0 ≤ cell e) (hpos : 0 < sumOver esizes cell) :
    InRange esizes (sampleRowV FV.Gen.C14.variant esizes ((allIdx esizes).map cell) r).1 ∧
      0 < cell (sampleRowV FV.Gen.C14.variant esizes ((allIdx esizes).map cell) r).1 := by
  refine ⟨sample_point_in_range _ _ hs, ?_⟩
  have hw' : ∀ x ∈ (allIdx esizes).map cell, 0 ≤ x := by
    intro x hx; obtain ⟨e, he, rfl⟩ := List.mem_map.mp hx; exact hw e he
  rw [sumOver_eq_flat] at hpos
  obtain ⟨hi, hv⟩ := sample_in_support_variant _ gen_variant_proven _ r hr0 hr1 hw' hpos
  simp only [List.length_map] at hi
  simp only [List.getElem_map] at hv
  rw [allIdx_getElem _ _ hi] at hv
  exact hv

/-- sample_mass for the source's current variant: any `r`, any variant — the normaliser does not
    depend on the draw, only on the point being a valid assignment. -/
theorem sample_mass_current (v : Variant) (esizes : List Nat) (cell : List Nat → Rat) (r : Rat)
    (hs : ∀ s ∈ esizes, 0 < s) :
    sumOver esizes (sampleVal (sampleRowV v esizes ((allIdx esizes).map cell) r).1
        (sampleRowV v esizes ((allIdx esizes).map cell) r).2) = sumOver esizes cell := by
  simp only [sampleRowV]
  rw [sumOver_sampleVal _ _ _ (sample_point_in_range _ _ hs), sumOver_eq_flat]

end FV.Props.C14
