/-
  Props/C15/Distributive.lean — obligation over the GENERATED table `Gen.distributive`
  (= funsor.ops.DISTRIBUTIVE_OPS): for every published pair `(⊕, ⊗)`, `⊗` distributes over `⊕`
  on the stated carrier ((max|min, mul): non-negative multiplier; (sample, add): numeric
  denotation of logaddexp only — see `DistribLaw`).
-/
import FunsorVerif.Props.C15.Laws
import FunsorVerif.Gen.C15OpTables
namespace FV.Props.C15
open FV.C15

theorem table_distributive_ok : ∀ e ∈ Gen.distributive, DistribLaw e := by
  intro e he
  apply distribOk_sound
  have h : Gen.distributive.all distribOk = true := by decide
  exact List.all_eq_true.mp h e he

example : (Op.logaddexp, Op.add) ∈ Gen.distributive := by decide

end FV.Props.C15
