/-
  Props/C15/Dtype.lean — mixed (Python scalar, array) calls across array dtypes.

  Obligation "the mixed variant is the lift of the scalar default", now quantified over the dtype of
  the array element: the registered `np.clip` forms of max/min compare the scalar with the
  value-preserving embedding of the element (ℤ, Bool ↪ extended rationals), so they ARE the scalar
  op on every dtype, and the declared units −∞ / +∞ are neutral on every dtype.
  Lifting the scalar through a cast into the array's dtype instead is NOT the scalar op — witnesses
  — and coincides with it exactly when the scalar is representable in that dtype.
-/
import FunsorVerif.Model.C15
import Mathlib.Algebra.Order.Ring.Rat
import Mathlib.Data.Rat.Cast.Order
namespace FV.Props.C15.Dt
open FV FV.C15

/-- the scalar default on two Python numbers, on the exact carrier -/
def scalarMax (s x : XR) : XR := XR.max s x
def scalarMin (s x : XR) : XR := XR.min s x

/-- The registered mixed variants are the lift of the scalar default through the embedding, for
    every element dtype and every scalar. -/
theorem mixed_is_lift (s : XR) (e : Elem) :
    mixedMax s e = scalarMax s (embed e) ∧ mixedMin s e = scalarMin s (embed e) := ⟨rfl, rfl⟩

theorem embed_not_nan_int (n : Int) : embed (.i n) ≠ XR.nan := by simp [embed, XR.ofInt]
theorem embed_not_nan_bool (v : Bool) : embed (.b v) ≠ XR.nan := by cases v <;> decide

/-- UNITS neutrality on every dtype: `max(−∞, e) = e` and `min(+∞, e) = e` for int and bool
    elements (and for every non-NaN float element). -/
theorem mixed_units_neutral (e : Elem) (h : embed e ≠ XR.nan) :
    mixedMax XR.ninf e = embed e ∧ mixedMin XR.pinf e = embed e := by
  unfold mixedMax mixedMin
  generalize embed e = x at h
  cases x <;> simp_all [XR.max, XR.min, XR.le]

theorem mixed_units_neutral_int (n : Int) :
    mixedMax XR.ninf (.i n) = XR.ofInt n ∧ mixedMin XR.pinf (.i n) = XR.ofInt n :=
  mixed_units_neutral _ (embed_not_nan_int n)

theorem mixed_units_neutral_bool (v : Bool) :
    mixedMax XR.ninf (.b v) = boolXR v ∧ mixedMin XR.pinf (.b v) = boolXR v :=
  mixed_units_neutral _ (embed_not_nan_bool v)

/-- Witnesses: lifting the scalar through a cast to the array's dtype is not the scalar op. -/
theorem cast_lift_is_not_scalar_op_witness :
    -- max(0.5, int 0) = 0.5, the cast variant gives 0
    mixedMax (XR.fin (1/2)) (.i 0) = XR.fin (1/2) ∧ mixedMaxCast (XR.fin (1/2)) (.i 0) = XR.fin 0 ∧
    -- min(int 2, 1.5) = 1.5, the cast variant gives 1
    mixedMin (XR.fin (3/2)) (.i 2) = XR.fin (3/2) ∧ mixedMinCast (XR.fin (3/2)) (.i 2) = XR.fin 1 ∧
    -- min(+∞, int 5) = 5 (unit), the cast variant gives INT64_MIN
    mixedMin XR.pinf (.i 5) = XR.fin 5 ∧ mixedMinCast XR.pinf (.i 5) = XR.ofInt int64Min ∧
    -- max(−∞, False) = False (unit), the cast variant gives True
    mixedMax XR.ninf (.b false) = XR.fin 0 ∧ mixedMaxCast XR.ninf (.b false) = XR.fin 1 := by
  decide +kernel

theorem castInt_intCast (n : Int) : castInt (XR.fin (n : Rat)) = n := by
  simp [castInt]

/-- On scalars that ARE representable in the dtype (an integer against an int array) the two
    compositions coincide — the cast is harmless exactly there. -/
theorem cast_lift_ok_on_representable (n m : Int) :
    mixedMaxCast (XR.ofInt n) (.i m) = mixedMax (XR.ofInt n) (.i m) ∧
    mixedMinCast (XR.ofInt n) (.i m) = mixedMin (XR.ofInt n) (.i m) := by
  unfold mixedMaxCast mixedMinCast mixedMax mixedMin castLike elemMax elemMin embed XR.ofInt
  rw [castInt_intCast]
  simp only [XR.max, XR.min, XR.le, decide_eq_true_eq, Int.cast_le]
  constructor <;> split <;> rfl

/-- float elements: both compositions are the same function -/
theorem cast_lift_ok_on_float (s x : XR) :
    mixedMaxCast s (.f x) = mixedMax s (.f x) ∧ mixedMinCast s (.f x) = mixedMin s (.f x) :=
  ⟨rfl, rfl⟩

/-! ## helpers are pure functions of the dtype tag -/

/-- `ops.finfo` answers for the dtype it is asked about, after any history of earlier requests. -/
theorem finfo_pure (h₁ h₂ : List FloatTy) (dt : FloatTy) :
    finfoAfter h₁ dt = finfoAfter h₂ dt ∧ finfoAfter h₁ dt = finfoOf dt := ⟨rfl, rfl⟩

/-- A cache keyed by the dtype kind is NOT that function: after one float32 request, float64 is
    reported with float32's limits (max 2^128 ≈ 3.4e38 instead of 2^1024 ≈ 1.8e308). -/
theorem finfo_kind_cache_witness :
    finfoKindCached [.f32] .f64 = finfoOf .f32 ∧ finfoKindCached [.f32] .f64 ≠ finfoOf .f64 ∧
    (finfoKindCached [.f32] .f64).maxExp = 128 ∧ (finfoOf .f64).maxExp = 1024 := by decide

/-- … and it is right exactly when nothing was asked before, or the first request had the same type. -/
theorem finfo_kind_cache_ok_iff (h : List FloatTy) (dt : FloatTy) :
    finfoKindCached h dt = finfoOf dt ↔ (h = [] ∨ h.head? = some dt) := by
  cases h with
  | nil => simp [finfoKindCached]
  | cons a t =>
    simp only [finfoKindCached, List.head?_cons, Option.some.injEq, reduceCtorEq, false_or]
    constructor
    · intro hh; revert hh; cases a <;> cases dt <;> decide
    · intro hh; rw [hh]

example : embed (.i 3) ≠ XR.nan := embed_not_nan_int 3

end FV.Props.C15.Dt
