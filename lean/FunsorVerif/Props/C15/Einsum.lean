/-
  Props/C15/Einsum.lean — the log-space inner product of funsor/einsum/numpy_log.py
  (`einsum("a,a->", x, y)`, arrays of ANY length) over the abstract domain of Model/C15.

  Stated domain: both operands log-space values (no NaN, no +∞) and a representable sum of the two
  shifts (`ovf = false`).  Outside it the real code does produce NaN — `logEinsumDot_overflow_witness`
  (observed on /repo: `einsum("a,a->", [9e307,-inf], [-inf,9e307]) = nan`, exact value −∞).
-/
import FunsorVerif.Props.C15.Special
namespace FV.Props.C15
open FV.C15

/-- finite and ≥ 0 : the class of `exp(entry − shift)`, of their products and sums -/
def unitC (c : Cls) : Bool := c == .pzero || c == .pos || c == .one
/-- the range of `log` on finite non-negative values: no NaN, no +∞ -/
def logRangeC (c : Cls) : Bool := !c.isNan && c != Cls.pinf

theorem all_filter (P : Cls → Bool) (q : Cls → Bool) (s : CSet) (h : s.all P = true) :
    (s.filter q).all P = true := by
  rw [List.all_eq_true] at h ⊢
  intro c hc
  exact h c (List.mem_filter.mp hc).1

theorem mem_zipWith {α β γ : Type} (f : α → β → γ) (xs : List α) (ys : List β) (z : γ)
    (h : z ∈ List.zipWith f xs ys) : ∃ a ∈ xs, ∃ b ∈ ys, z = f a b := by
  induction xs generalizing ys with
  | nil => simp at h
  | cons x xs ih =>
    cases ys with
    | nil => simp at h
    | cons y ys =>
      simp only [List.zipWith_cons_cons, List.mem_cons] at h
      rcases h with h | h
      · exact ⟨x, by simp, y, by simp, h⟩
      · obtain ⟨a, ha, b, hb, hz⟩ := ih ys h
        exact ⟨a, by simp [ha], b, by simp [hb], hz⟩

theorem sumSetsNoOvf_all (P : Cls → Bool) (hzero : P .pzero = true)
    (hP : ∀ x y, P x = true → P y = true → (addNoOvfC x y).all P = true)
    (ss : List CSet) (h : ∀ s ∈ ss, s.all P = true) : (sumSetsNoOvf ss).all P = true := by
  induction ss with
  | nil => simp [sumSetsNoOvf, hzero]
  | cons s rest ih =>
    cases rest with
    | nil => exact all_norm P s (h s (by simp))
    | cons t ts =>
      show (lift2 addNoOvfC s (sumSetsNoOvf (t :: ts))).all P = true
      exact all_lift2 P P P addNoOvfC hP s _ (h s (by simp)) (ih (fun u hu => h u (by simp [hu])))

/-- the shift of an operand of log-space values is finite -/
theorem shift_finite (xs : List Cls) (h : xs.all logDom = true) :
    (norm ((amaxC xs).map clipLoC)).all Cls.isFinite = true :=
  all_norm _ _ (all_map logDom Cls.isFinite clipLoC (by decide) _ (amax_all logDom (by decide) xs h))

/-- `exp(entry − shift)` is a finite non-negative value -/
theorem expLeShift_unit (shift : CSet) (hs : shift.all Cls.isFinite = true) (c : Cls)
    (hc : logDom c = true) : (expLeShift shift c).all unitC = true := by
  unfold expLeShift
  apply all_norm
  apply all_map nonnegC unitC _ (by decide)
  apply all_lift1 nonNan nonnegC expC (by decide)
  exact all_lift2 logDom Cls.isFinite nonNan subC (by decide) [c] shift (by simp [hc]) hs

/-- On its domain the log-space inner product never produces NaN, for arrays of any length. -/
theorem logEinsumDot_never_nan (xs ys : List Cls) (hx : xs.all logDom = true)
    (hy : ys.all logDom = true) : (logEinsumDot false xs ys).all nonNan = true := by
  unfold logEinsumDot
  dsimp only
  have hsx := shift_finite xs hx
  have hsy := shift_finite ys hy
  have hprods : ∀ s ∈ List.zipWith (fun a b => lift2 mulUnitC
      (expLeShift (norm ((amaxC xs).map clipLoC)) a) (expLeShift (norm ((amaxC ys).map clipLoC)) b)) xs ys,
      s.all unitC = true := by
    intro s hs
    obtain ⟨a, ha, b, hb, rfl⟩ := mem_zipWith _ _ _ _ hs
    exact all_lift2 unitC unitC unitC mulUnitC (by decide) _ _
      (expLeShift_unit _ hsx a ((List.all_eq_true.mp hx) a ha))
      (expLeShift_unit _ hsy b ((List.all_eq_true.mp hy) b hb))
  have hsum := sumSetsNoOvf_all unitC (by decide) (by decide) _ hprods
  have hlog := all_lift1 unitC logRangeC logNpC (by decide) _ hsum
  have hshifts : (lift2 addNoOvfC (norm ((amaxC xs).map clipLoC))
      (norm ((amaxC ys).map clipLoC))).all Cls.isFinite = true :=
    all_lift2 Cls.isFinite Cls.isFinite Cls.isFinite addNoOvfC (by decide) _ _ hsx hsy
  simp only [Bool.false_eq_true, if_false]
  exact all_lift2 Cls.isFinite logRangeC nonNan addC (by decide) _ _ hshifts hlog

/-- Outside the domain (the sum of the shifts overflows while every product is 0) NaN is possible:
    the model exhibits what the real code does on `[9e307, -inf] · [-inf, 9e307]`. -/
theorem logEinsumDot_overflow_witness :
    Cls.nan ∈ logEinsumDot true [.pos, .ninf] [.ninf, .pos] ∧
    logEinsumDot false [.pos, .ninf] [.ninf, .pos] = [Cls.ninf] := by decide

/-- max-plus inner product (numpy_map): never NaN on max-plus values (no +∞), −∞ absorbing -/
theorem maxEinsumDot_small :
    maxEinsumDot [.ninf, .ninf] [.neg, .pos] = [Cls.ninf] ∧
    Cls.nan ∈ maxEinsumDot [.ninf] [.pinf] := by decide

/-! ## limits at −∞, arrays of any length -/

def isNinfC (c : Cls) : Bool := c == .ninf
def isPzeroC (c : Cls) : Bool := c == .pzero

theorem mem_zipWith_zip {α β γ : Type} (f : α → β → γ) (xs : List α) (ys : List β) (z : γ)
    (h : z ∈ List.zipWith f xs ys) : ∃ p ∈ List.zip xs ys, z = f p.1 p.2 := by
  induction xs generalizing ys with
  | nil => simp at h
  | cons x xs ih =>
    cases ys with
    | nil => simp at h
    | cons y ys =>
      simp only [List.zipWith_cons_cons, List.mem_cons] at h
      rcases h with h | h
      · exact ⟨(x, y), by simp, h⟩
      · obtain ⟨p, hp, hz⟩ := ih ys h
        exact ⟨p, by simp [hp], hz⟩

/-- `exp(−∞ − shift) = +0` exactly -/
theorem expLeShift_ninf (shift : CSet) (hs : shift.all Cls.isFinite = true) :
    (expLeShift shift .ninf).all isPzeroC = true := by
  unfold expLeShift
  apply all_norm
  apply all_map isPzeroC isPzeroC _ (by decide)
  apply all_lift1 isNinfC isPzeroC expC (by decide)
  exact all_lift2 isNinfC Cls.isFinite isNinfC subC (by decide) [.ninf] shift (by decide) hs

/-- If every term of the inner product has a −∞ factor (in particular: an operand is all −∞, or the
    supports are disjoint), every possible result of the log-space einsum is −∞ — for operands of
    any length, on the stated domain. -/
theorem logEinsumDot_zero_terms (xs ys : List Cls) (hx : xs.all logDom = true)
    (hy : ys.all logDom = true)
    (hz : ∀ p ∈ List.zip xs ys, p.1 = Cls.ninf ∨ p.2 = Cls.ninf) :
    (logEinsumDot false xs ys).all isNinfC = true := by
  unfold logEinsumDot
  dsimp only
  have hsx := shift_finite xs hx
  have hsy := shift_finite ys hy
  have hprods : ∀ s ∈ List.zipWith (fun a b => lift2 mulUnitC
      (expLeShift (norm ((amaxC xs).map clipLoC)) a) (expLeShift (norm ((amaxC ys).map clipLoC)) b)) xs ys,
      s.all isPzeroC = true := by
    intro s hs
    obtain ⟨p, hp, rfl⟩ := mem_zipWith_zip _ _ _ _ hs
    have hpx : logDom p.1 = true := (List.all_eq_true.mp hx) p.1 (List.of_mem_zip hp).1
    have hpy : logDom p.2 = true := (List.all_eq_true.mp hy) p.2 (List.of_mem_zip hp).2
    rcases hz p hp with h | h
    · rw [h]
      exact all_lift2 isPzeroC unitC isPzeroC mulUnitC (by decide) _ _
        (expLeShift_ninf _ hsx) (expLeShift_unit _ hsy p.2 hpy)
    · rw [h]
      exact all_lift2 unitC isPzeroC isPzeroC mulUnitC (by decide) _ _
        (expLeShift_unit _ hsx p.1 hpx) (expLeShift_ninf _ hsy)
  have hsum := sumSetsNoOvf_all isPzeroC (by decide) (by decide) _ hprods
  have hlog := all_lift1 isPzeroC isNinfC logNpC (by decide) _ hsum
  have hshifts : (lift2 addNoOvfC (norm ((amaxC xs).map clipLoC))
      (norm ((amaxC ys).map clipLoC))).all Cls.isFinite = true :=
    all_lift2 Cls.isFinite Cls.isFinite Cls.isFinite addNoOvfC (by decide) _ _ hsx hsy
  simp only [Bool.false_eq_true, if_false]
  exact all_lift2 Cls.isFinite isNinfC isNinfC addC (by decide) _ _ hshifts hlog

theorem zipWith_replicate' {α β γ : Type} (f : α → β → γ) (a : α) (b : β) (n : Nat) :
    List.zipWith f (List.replicate n a) (List.replicate n b) = List.replicate n (f a b) := by
  induction n with
  | zero => rfl
  | succ n ih => simp only [List.replicate_succ, List.zipWith_cons_cons, ih]

theorem sumSetsNoOvf_replicate_pzero (n : Nat) :
    sumSetsNoOvf (List.replicate (n + 1) [Cls.pzero]) = [Cls.pzero] := by
  induction n with
  | zero => decide
  | succ n ih =>
    rw [List.replicate_succ]
    show lift2 addNoOvfC [Cls.pzero] (sumSetsNoOvf (List.replicate (n + 1) [Cls.pzero])) = [Cls.pzero]
    rw [ih]; decide

/-- The log-space inner product of two all-−∞ arrays of length `n + 1` is exactly −∞
    (general length; replaces the small instances). -/
theorem logEinsumDot_all_ninf (n : Nat) :
    logEinsumDot false (List.replicate (n + 1) Cls.ninf) (List.replicate (n + 1) Cls.ninf)
      = [Cls.ninf] := by
  unfold logEinsumDot
  dsimp only
  rw [amax_replicate_ninf, zipWith_replicate']
  have h1 : norm ([Cls.ninf].map clipLoC) = [Cls.neg] := by decide
  rw [h1]
  have h2 : lift2 mulUnitC (expLeShift [Cls.neg] Cls.ninf) (expLeShift [Cls.neg] Cls.ninf) = [Cls.pzero] := by
    decide
  rw [h2, sumSetsNoOvf_replicate_pzero]
  decide

/-- … and −∞ against any log-space operand of the same length: exactly −∞ as well
    (`all` form from `logEinsumDot_zero_terms`). -/
theorem logEinsumDot_ninf_operand (ys : List Cls) (hy : ys.all logDom = true) :
    (logEinsumDot false (List.replicate ys.length Cls.ninf) ys).all isNinfC = true := by
  apply logEinsumDot_zero_terms _ _ _ hy
  · intro p hp
    left
    exact List.eq_of_mem_replicate (List.of_mem_zip hp).1
  · rw [List.all_eq_true]
    intro c hc
    rw [List.eq_of_mem_replicate hc]; decide

/-! ## the accumulation order: the code's, and the suggested one -/

/-- the repair of KF-logeinsum-shift-overflow, `sum([result] + shifts)` — start from the log term
    (shift sum may overflow: plain `addC`).  /repo adopted this order (fix commit after 86a8617), so
    THIS is the composition the code now performs; `logEinsumDot true` is the pre-fix order, kept
    for the witness theorem. -/
def logEinsumDotFixed (xs ys : List Cls) : CSet :=
  let sx := norm ((amaxC xs).map clipLoC)
  let sy := norm ((amaxC ys).map clipLoC)
  let prods := List.zipWith (fun a b => lift2 mulUnitC (expLeShift sx a) (expLeShift sy b)) xs ys
  lift2 addC (lift2 addC (lift1 logNpC (sumSetsNoOvf prods)) sx) sy

/-- With the log term first the inner product is NaN-free for ALL log-space operands of any length,
    overflowing shift sums included (no `ovf = false` hypothesis). -/
theorem logEinsumDotFixed_never_nan (xs ys : List Cls) (hx : xs.all logDom = true)
    (hy : ys.all logDom = true) : (logEinsumDotFixed xs ys).all nonNan = true := by
  unfold logEinsumDotFixed
  dsimp only
  have hsx := shift_finite xs hx
  have hsy := shift_finite ys hy
  have hprods : ∀ s ∈ List.zipWith (fun a b => lift2 mulUnitC
      (expLeShift (norm ((amaxC xs).map clipLoC)) a) (expLeShift (norm ((amaxC ys).map clipLoC)) b)) xs ys,
      s.all unitC = true := by
    intro s hs
    obtain ⟨a, ha, b, hb, rfl⟩ := mem_zipWith _ _ _ _ hs
    exact all_lift2 unitC unitC unitC mulUnitC (by decide) _ _
      (expLeShift_unit _ hsx a ((List.all_eq_true.mp hx) a ha))
      (expLeShift_unit _ hsy b ((List.all_eq_true.mp hy) b hb))
  have hsum := sumSetsNoOvf_all unitC (by decide) (by decide) _ hprods
  have hlog := all_lift1 unitC nonNan logNpC (by decide) _ hsum
  have h1 := all_lift2 nonNan Cls.isFinite nonNan addC (by decide) _ _ hlog hsx
  exact all_lift2 nonNan Cls.isFinite nonNan addC (by decide) _ _ h1 hsy

/-- and it returns −∞ where the code's order returns NaN -/
theorem logEinsumDotFixed_at_witness :
    logEinsumDotFixed [.pos, .ninf] [.ninf, .pos] = [Cls.ninf] := by decide

/-! ## the band: spread of one operand below 745 -/

/-- Outside the stated band the model — like the code on `[800, 0] · [-800, 5]` (exact value
    5.0067, returned −∞) — admits −∞ for operands that are all finite: `exp(entry − shift)` of a
    finite entry may underflow to 0. -/
theorem logEinsumDot_underflow_witness :
    Cls.ninf ∈ logEinsumDot false [.pos, .pzero] [.neg, .pos] ∧
    ([Cls.pos, Cls.pzero] ++ [Cls.neg, Cls.pos]).all Cls.isFinite = true := by decide

/-- inside the band `exp(entry − shift)` of a finite entry is positive -/
def expBand (shift : CSet) (c : Cls) : CSet :=
  (expLeShift shift c).filter fun r => !(r == Cls.pzero && c.isFinite)

/-- the log term under the band assumption -/
def logTermBand (xs ys : List Cls) : CSet :=
  let sx := norm ((amaxC xs).map clipLoC)
  let sy := norm ((amaxC ys).map clipLoC)
  lift1 logNpC (sumSetsNoOvf
    (List.zipWith (fun a b => lift2 mulUnitC (expBand sx a) (expBand sy b)) xs ys))

def posUnitC (c : Cls) : Bool := c == .pos || c == .one

theorem expBand_pos (shift : CSet) (hs : shift.all Cls.isFinite = true) (c : Cls)
    (hc : c.isFinite = true) : (expBand shift c).all posUnitC = true := by
  have hu := expLeShift_unit shift hs c (by revert hc; cases c <;> decide)
  unfold expBand
  rw [List.all_eq_true] at hu ⊢
  intro r hr
  have hm := List.mem_filter.mp hr
  have h1 := hu r hm.1
  have h2 := hm.2
  rw [hc] at h2
  revert h1 h2
  cases r <;> decide

/-- partial (the band itself — spread < 745 — is not expressible in the class abstraction and is
    an explicit assumption, measured by the harness): inside the band, with all entries finite
    and products that do not underflow, the log term of the inner product is never −∞ or NaN. -/
theorem logEinsumDot_band_never_ninf_partial (xs ys : List Cls) (hx : xs.all Cls.isFinite = true)
    (hy : ys.all Cls.isFinite = true) (hne : List.zip xs ys ≠ [])
    (hnounder : ∀ p ∈ List.zip xs ys, ∀ r ∈ lift2 mulUnitC
        (expBand (norm ((amaxC xs).map clipLoC)) p.1) (expBand (norm ((amaxC ys).map clipLoC)) p.2),
        posUnitC r = true) :
    (logTermBand xs ys).all Cls.isFinite = true := by
  unfold logTermBand
  dsimp only
  have hprods : ∀ s ∈ List.zipWith (fun a b => lift2 mulUnitC
      (expBand (norm ((amaxC xs).map clipLoC)) a) (expBand (norm ((amaxC ys).map clipLoC)) b)) xs ys,
      s.all posUnitC = true := by
    intro s hs
    obtain ⟨p, hp, rfl⟩ := mem_zipWith_zip _ _ _ _ hs
    rw [List.all_eq_true]
    exact hnounder p hp
  cases hzs : List.zipWith (fun a b => lift2 mulUnitC
      (expBand (norm ((amaxC xs).map clipLoC)) a) (expBand (norm ((amaxC ys).map clipLoC)) b)) xs ys with
  | nil =>
    exfalso
    apply hne
    cases xs with
    | nil => rfl
    | cons x xs' =>
      cases ys with
      | nil => rfl
      | cons y ys' => simp at hzs
  | cons s ss =>
    rw [hzs] at hprods
    have hsum : (sumSetsNoOvf (s :: ss)).all posUnitC = true := by
      clear hzs
      induction ss generalizing s with
      | nil => exact all_norm _ _ (hprods s (by simp))
      | cons t ts ih =>
        show (lift2 addNoOvfC s (sumSetsNoOvf (t :: ts))).all posUnitC = true
        exact all_lift2 posUnitC posUnitC posUnitC addNoOvfC (by decide) _ _ (hprods s (by simp))
          (ih t (fun u hu => hprods u (by simp [hu])))
    exact all_lift1 posUnitC Cls.isFinite logNpC (by decide) _ hsum

/-! ## max-plus inner product (einsum/numpy_map.py), arrays of any length -/

theorem foldl_maxNp_all (P : Cls → Bool)
    (hP : ∀ x y, P x = true → P y = true → (maxNpC x y).all P = true)
    (ss : List CSet) (acc : CSet) (hacc : acc.all P = true) (h : ∀ s ∈ ss, s.all P = true) :
    (ss.foldl (fun a t => lift2 maxNpC a t) acc).all P = true := by
  induction ss generalizing acc with
  | nil => exact hacc
  | cons s rest ih =>
    simp only [List.foldl_cons]
    exact ih _ (all_lift2 P P P maxNpC hP acc s hacc (h s (by simp))) (fun u hu => h u (by simp [hu]))

theorem maxEinsumDot_all (Q : Cls → Bool) (hadd : ∀ p ∈ List.zip xs ys, (addC p.1 p.2).all Q = true)
    (hQ : ∀ x y, Q x = true → Q y = true → (maxNpC x y).all Q = true) :
    (maxEinsumDot xs ys).all Q = true := by
  unfold maxEinsumDot
  have hall : ∀ s ∈ List.zipWith (fun a b => addC a b) xs ys, s.all Q = true := by
    intro s hs
    obtain ⟨p, hp, rfl⟩ := mem_zipWith_zip _ _ _ _ hs
    exact hadd p hp
  cases hzs : List.zipWith (fun a b => addC a b) xs ys with
  | nil => rfl
  | cons s ss =>
    rw [hzs] at hall
    exact foldl_maxNp_all Q hQ (s :: ss) s (hall s (by simp)) hall

/-- On max-plus values (no NaN, no +∞) the max-plus inner product never produces NaN. -/
theorem maxEinsumDot_never_nan (xs ys : List Cls) (hx : xs.all logDom = true)
    (hy : ys.all logDom = true) : (maxEinsumDot xs ys).all nonNan = true := by
  apply maxEinsumDot_all nonNan
  · intro p hp
    have hpx : logDom p.1 = true := (List.all_eq_true.mp hx) p.1 (List.of_mem_zip hp).1
    have hpy : logDom p.2 = true := (List.all_eq_true.mp hy) p.2 (List.of_mem_zip hp).2
    revert hpx hpy
    generalize p.1 = a; generalize p.2 = b
    revert a b; decide
  · decide

/-- If every term has a −∞ summand, every possible result is −∞ (−∞ absorbs `+`, is neutral for max). -/
theorem maxEinsumDot_ninf_terms (xs ys : List Cls) (hx : xs.all logDom = true)
    (hy : ys.all logDom = true) (hz : ∀ p ∈ List.zip xs ys, p.1 = Cls.ninf ∨ p.2 = Cls.ninf) :
    (maxEinsumDot xs ys).all isNinfC = true := by
  apply maxEinsumDot_all isNinfC
  · intro p hp
    have hpx : logDom p.1 = true := (List.all_eq_true.mp hx) p.1 (List.of_mem_zip hp).1
    have hpy : logDom p.2 = true := (List.all_eq_true.mp hy) p.2 (List.of_mem_zip hp).2
    have h := hz p hp
    revert hpx hpy h
    generalize p.1 = a; generalize p.2 = b
    revert a b; decide
  · decide

/-- the max-plus inner product of two all-−∞ arrays of length `n + 1` is exactly −∞ -/
theorem maxEinsumDot_all_ninf (n : Nat) :
    maxEinsumDot (List.replicate (n + 1) Cls.ninf) (List.replicate (n + 1) Cls.ninf) = [Cls.ninf] := by
  unfold maxEinsumDot
  rw [zipWith_replicate']
  have h : addC Cls.ninf Cls.ninf = [Cls.ninf] := by decide
  rw [h, List.replicate_succ]
  simp only [List.foldl_cons]
  have h2 : lift2 maxNpC [Cls.ninf] [Cls.ninf] = [Cls.ninf] := by decide
  rw [h2]
  induction n with
  | zero => rfl
  | succ n ih => rw [List.replicate_succ, List.foldl_cons, h2]; exact ih

example : [Cls.ninf, Cls.neg].all logDom = true := by decide
example : ∃ xs ys : List Cls, xs.all logDom = true ∧ ys.all logDom = true ∧
    (∀ p ∈ List.zip xs ys, p.1 = Cls.ninf ∨ p.2 = Cls.ninf) ∧ List.zip xs ys ≠ [] :=
  ⟨[.pos, .ninf], [.ninf, .pos], by decide, by decide, by decide, by decide⟩

end FV.Props.C15
