/-
  Props/C15/Einsum.lean — the log-space inner product of funsor/einsum/numpy_log.py
  (`einsum("a,a->", x, y)`, arrays of ANY length) over the abstract domain of Model/C15.

  Stated domain: both operands log-space values (no NaN, no +∞) and a representable sum of the two
  shifts (`ovf = false`).  Outside it the real code does produce NaN — `logEinsumDot_overflow_witness`
  (observed on /repo: `einsum("a,a->", [9e307,-inf], [-inf,9e307]) = nan`, exact value −∞).
-/
import FunsorVerif.Props.C15.Special
namespace FV.Props.C15
open FV.C15

/-- finite and ≥ 0 : the class of `exp(entry − shift)`, of their products and sums -/
def unitC (c : Cls) : Bool := c == .pzero || c == .pos || c == .one
/-- the range of `log` on finite non-negative values: no NaN, no +∞ -/
def logRangeC (c : Cls) : Bool := !c.isNan && c != Cls.pinf

theorem all_filter (P : Cls → Bool) (q : Cls → Bool) (s : CSet) (h : s.all P = true) :
    (s.filter q).all P = true := by
  rw [List.all_eq_true] at h ⊢
  intro c hc
  exact h c (List.mem_filter.mp hc).1

theorem mem_zipWith {α β γ : Type} (f : α → β → γ) (xs : List α) (ys : List β) (z : γ)
    (h : z ∈ List.zipWith f xs ys) : ∃ a ∈ xs, ∃ b ∈ ys, z = f a b := by
  induction xs generalizing ys with
  | nil => simp at h
  | cons x xs ih =>
    cases ys with
    | nil => simp at h
    | cons y ys =>
      simp only [List.zipWith_cons_cons, List.mem_cons] at h
      rcases h with h | h
      · exact ⟨x, by simp, y, by simp, h⟩
      · obtain ⟨a, ha, b, hb, hz⟩ := ih ys h
        exact ⟨a, by simp [ha], b, by simp [hb], hz⟩

theorem sumSetsNoOvf_all (P : Cls → Bool) (hzero : P .pzero = true)
    (hP : ∀ x y, P x = true → P y = true → (addNoOvfC x y).all P = true)
    (ss : List CSet) (h : ∀ s ∈ ss, s.all P = true) : (sumSetsNoOvf ss).all P = true := by
  induction ss with
  | nil => simp [sumSetsNoOvf, hzero]
  | cons s rest ih =>
    cases rest with
    | nil => exact all_norm P s (h s (by simp))
    | cons t ts =>
      show (lift2 addNoOvfC s (sumSetsNoOvf (t :: ts))).all P = true
      exact all_lift2 P P P addNoOvfC hP s _ (h s (by simp)) (ih (fun u hu => h u (by simp [hu])))

/-- the shift of an operand of log-space values is finite -/
theorem shift_finite (xs : List Cls) (h : xs.all logDom = true) :
    (norm ((amaxC xs).map clipLoC)).all Cls.isFinite = true :=
  all_norm _ _ (all_map logDom Cls.isFinite clipLoC (by decide) _ (amax_all logDom (by decide) xs h))

/-- `exp(entry − shift)` is a finite non-negative value -/
theorem expLeShift_unit (shift : CSet) (hs : shift.all Cls.isFinite = true) (c : Cls)
    (hc : logDom c = true) : (expLeShift shift c).all unitC = true := by
  unfold expLeShift
  apply all_norm
  apply all_map nonnegC unitC _ (by decide)
  apply all_lift1 nonNan nonnegC expC (by decide)
  exact all_lift2 logDom Cls.isFinite nonNan subC (by decide) [c] shift (by simp [hc]) hs

/-- On its domain the log-space inner product never produces NaN, for arrays of any length. -/
theorem logEinsumDot_never_nan (xs ys : List Cls) (hx : xs.all logDom = true)
    (hy : ys.all logDom = true) : (logEinsumDot false xs ys).all nonNan = true := by
  unfold logEinsumDot
  dsimp only
  have hsx := shift_finite xs hx
  have hsy := shift_finite ys hy
  have hprods : ∀ s ∈ List.zipWith (fun a b => lift2 mulUnitC
      (expLeShift (norm ((amaxC xs).map clipLoC)) a) (expLeShift (norm ((amaxC ys).map clipLoC)) b)) xs ys,
      s.all unitC = true := by
    intro s hs
    obtain ⟨a, ha, b, hb, rfl⟩ := mem_zipWith _ _ _ _ hs
    exact all_lift2 unitC unitC unitC mulUnitC (by decide) _ _
      (expLeShift_unit _ hsx a ((List.all_eq_true.mp hx) a ha))
      (expLeShift_unit _ hsy b ((List.all_eq_true.mp hy) b hb))
  have hsum := sumSetsNoOvf_all unitC (by decide) (by decide) _ hprods
  have hlog := all_lift1 unitC logRangeC logNpC (by decide) _ hsum
  have hshifts : (lift2 addNoOvfC (norm ((amaxC xs).map clipLoC))
      (norm ((amaxC ys).map clipLoC))).all Cls.isFinite = true :=
    all_lift2 Cls.isFinite Cls.isFinite Cls.isFinite addNoOvfC (by decide) _ _ hsx hsy
  simp only [Bool.false_eq_true, if_false]
  exact all_lift2 Cls.isFinite logRangeC nonNan addC (by decide) _ _ hshifts hlog

/-- Outside the domain (the sum of the shifts overflows while every product is 0) NaN is possible:
    the model exhibits what the real code does on `[9e307, -inf] · [-inf, 9e307]`. -/
theorem logEinsumDot_overflow_witness :
    Cls.nan ∈ logEinsumDot true [.pos, .ninf] [.ninf, .pos] ∧
    logEinsumDot false [.pos, .ninf] [.ninf, .pos] = [Cls.ninf] := by decide

/-- the all-−∞ inner product is exactly −∞ (small instances; the general length is covered by
    `logEinsumDot_never_nan` + the harness) -/
theorem logEinsumDot_all_ninf_partial :
    logEinsumDot false [.ninf] [.ninf] = [Cls.ninf] ∧
    logEinsumDot false [.ninf, .ninf] [.ninf, .ninf] = [Cls.ninf] ∧
    logEinsumDot false [.ninf, .ninf, .ninf] [.ninf, .neg, .pos] = [Cls.ninf] := by decide

/-- max-plus inner product (numpy_map): never NaN on max-plus values (no +∞), −∞ absorbing -/
theorem maxEinsumDot_small :
    maxEinsumDot [.ninf, .ninf] [.neg, .pos] = [Cls.ninf] ∧
    Cls.nan ∈ maxEinsumDot [.ninf] [.pinf] := by decide

example : [Cls.ninf, Cls.neg].all logDom = true := by decide

end FV.Props.C15
