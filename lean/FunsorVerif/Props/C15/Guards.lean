/-
  Props/C15/Guards.lean — obligation over the GENERATED table of dtype special-case guards.

  * `_log` may take the mask branch `np.where(x, 0.0, -inf)` for BOOL arrays only: the branch returns
    log(x) exactly when the stored value is 0 or 1 (`maskLog_eq_log_iff`), which only the bool dtype
    guarantees; widening the guard to integer kinds makes `log(2) = 0`.
  * `_safediv` converts exactly the non-float kinds (i, u, b) to float64 before the reciprocal — a
    value-preserving embedding (Props/C15/Dtype.lean).
  Any other guard (a new one, or a widened one) fails closed.
-/
import FunsorVerif.Model.C15
import FunsorVerif.Gen.C15DtypeGuards
namespace FV.Props.C15.Guards
open FV.C15

def guardOk : GuardFn × List Kind → Bool
  | (.log, [.b]) => true
  | (.safediv, [.i, .u, .b]) | (.safediv, [.i, .b, .u]) | (.safediv, [.b, .i, .u]) | (.safediv, [.b, .u, .i])
  | (.safediv, [.u, .i, .b]) | (.safediv, [.u, .b, .i]) => true
  | _ => false

theorem table_dtype_guards_ok : Gen.dtypeGuards.all guardOk = true := by decide

/-- the class of `log n` for a stored natural number: −∞ at 0, 0 at 1, positive from 2 on -/
def logNatC (n : Nat) : Cls := if n = 0 then .ninf else if n = 1 then .pzero else .pos

/-- the mask branch is `log` exactly on {0, 1} -/
theorem maskLog_eq_log_iff (n : Nat) : maskLog n = logNatC n ↔ n ≤ 1 := by
  unfold maskLog logNatC
  by_cases h0 : n = 0
  · simp [h0]
  · by_cases h1 : n = 1
    · simp [h1]
    · simp only [h0, h1, if_false]
      constructor
      · intro h; cases h
      · intro h; omega

/-- a bool array stores only 0 / 1, so the guard `dtype == bool` is sound … -/
theorem maskLog_sound_on_bool (v : Bool) : maskLog (if v then 1 else 0) = logBool v := by
  cases v <;> rfl

/-- … and an integer array does not: `log(2)` through the mask branch is 0 (witness) -/
theorem maskLog_int_witness : maskLog 2 = Cls.pzero ∧ logNatC 2 = Cls.pos := by decide

example : (GuardFn.log, [Kind.b]) ∈ Gen.dtypeGuards := by decide

end FV.Props.C15.Guards
