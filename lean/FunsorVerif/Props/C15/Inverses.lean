/-
  Props/C15/Inverses.lean — obligations over the GENERATED tables `Gen.binaryInverses`,
  `Gen.safeBinaryInverses`, `Gen.unaryInverses` (= funsor.ops.BINARY_INVERSES,
  SAFE_BINARY_INVERSES, UNARY_INVERSES): sub inverts add, truediv inverts mul away from 0,
  xor is self-inverse, neg / reciprocal are the unary inverses.
-/
import FunsorVerif.Props.C15.Laws
import FunsorVerif.Gen.C15OpTables
namespace FV.Props.C15
open FV.C15

theorem table_inverses_ok : ∀ e ∈ Gen.binaryInverses, BinInvLaw e := by
  intro e he
  apply binInvOk_sound
  have h : Gen.binaryInverses.all binInvOk = true := by decide
  exact List.all_eq_true.mp h e he

theorem table_safe_inverses_ok : ∀ e ∈ Gen.safeBinaryInverses, SafeInvLaw e := by
  intro e he
  apply safeInvOk_sound
  have h : Gen.safeBinaryInverses.all safeInvOk = true := by decide
  exact List.all_eq_true.mp h e he

theorem table_unary_inverses_ok : ∀ e ∈ Gen.unaryInverses, UnInvLaw e := by
  intro e he
  apply unInvOk_sound
  have h : Gen.unaryInverses.all unInvOk = true := by decide
  exact List.all_eq_true.mp h e he

/-- the safe table inverts exactly the ops the plain table inverts by sub / truediv -/
theorem table_safe_keys_subset :
    ∀ e ∈ Gen.safeBinaryInverses, (Gen.binaryInverses.map (fun p => p.1.name)).contains e.1.name = true := by
  decide

example : (Op.add, Op.sub) ∈ Gen.binaryInverses := by decide

end FV.Props.C15
