/-
  Props/C15/Laws.lean — the proved catalogue behind the table obligations of C15.

  For each kind of published table (`UNITS`, `DISTRIBUTIVE_OPS`, `BINARY_INVERSES`,
  `SAFE_BINARY_INVERSES`, `UNARY_INVERSES`, `PRODUCT_TO_POWER`) this file gives

    * `…Law : entry → Prop`   the algebraic statement an entry asserts, on the op's ideal carrier
                              (any commutative semiring / ring / field; `WithBot ℚ`, `WithTop ℚ`
                              for max/min with their ∓∞ units; ℚ with a non-negative multiplier for
                              (max|min, mul); `Bool`; `WithBot ℝ` through the exp isomorphism for
                              logaddexp).  Entries about which nothing is proved denote `False`.
    * `…Ok  : entry → Bool`   the decidable catalogue membership test, and
    * `…Ok_sound`             `…Ok e = true → …Law e`   (∀, by the lemmas below).

  The obligations over the *generated* tables (`Props/C15/{Units,Distributive,Inverses,Power}.lean`)
  are `∀ e ∈ Gen.table, …Law e`, proved by `decide`-ing `…Ok` on every entry and `…Ok_sound`.
  They survive true additions among the known ops (the catalogue lists more pairs than funsor
  currently publishes) and fail closed on everything else: e.g. re-introducing the swapped
  `UNITS[and_] = False` of the pinned tree makes `table_units_ok` fail to elaborate.
-/
import FunsorVerif.Model.C15
import Mathlib.Analysis.SpecialFunctions.Log.Basic
import Mathlib.Tactic.Ring
namespace FV.Props.C15
open FV.C15

/-! ## logaddexp on its ideal carrier: `WithBot ℝ`, through `exp : (WithBot ℝ, lae, +) ≃ (ℝ≥0, +, ·)` -/

open NNReal in
/-- `exp` extended by `exp ⊥ = 0` -/
noncomputable def expB : WithBot ℝ → ℝ≥0
  | none => 0
  | some x => ⟨Real.exp x, (Real.exp_pos x).le⟩

open NNReal in
/-- `log` extended by `log 0 = ⊥` -/
noncomputable def logB (r : ℝ≥0) : WithBot ℝ :=
  if r = 0 then ⊥ else ((Real.log (r : ℝ) : ℝ) : WithBot ℝ)

/-- log-space addition: `lae x y = log (exp x + exp y)` -/
noncomputable def lae (x y : WithBot ℝ) : WithBot ℝ := logB (expB x + expB y)

@[simp] theorem expB_bot : expB ⊥ = 0 := rfl
@[simp] theorem expB_coe (x : ℝ) : ((expB (x : WithBot ℝ) : NNReal) : ℝ) = Real.exp x := rfl

theorem expB_coe_ne_zero (x : ℝ) : expB (x : WithBot ℝ) ≠ 0 := by
  intro h
  have h2 : ((expB (x : WithBot ℝ) : NNReal) : ℝ) = 0 := by rw [h]; rfl
  rw [expB_coe] at h2
  exact (Real.exp_pos x).ne' h2

theorem logB_expB (x : WithBot ℝ) : logB (expB x) = x := by
  induction x using WithBot.recBotCoe with
  | bot => simp [logB]
  | coe x =>
    unfold logB
    rw [if_neg (expB_coe_ne_zero x), expB_coe, Real.log_exp]

theorem expB_logB (r : NNReal) : expB (logB r) = r := by
  unfold logB
  by_cases h : r = 0
  · simp [h]
  · rw [if_neg h]
    apply NNReal.eq
    rw [expB_coe]
    exact Real.exp_log (lt_of_le_of_ne r.2 (fun h' => h (NNReal.eq h'.symm)))

theorem expB_injective : Function.Injective expB :=
  Function.LeftInverse.injective logB_expB

theorem expB_add (x y : WithBot ℝ) : expB (x + y) = expB x * expB y := by
  induction x using WithBot.recBotCoe with
  | bot => simp
  | coe x =>
    induction y using WithBot.recBotCoe with
    | bot => simp
    | coe y =>
      apply NNReal.eq
      rw [← WithBot.coe_add, NNReal.coe_mul, expB_coe, expB_coe, expB_coe, Real.exp_add]

theorem expB_lae (x y : WithBot ℝ) : expB (lae x y) = expB x + expB y := expB_logB _

/-- `lae` *is* the function the code computes on finite values. -/
theorem lae_coe (x y : ℝ) :
    lae (x : WithBot ℝ) (y : WithBot ℝ) = ((Real.log (Real.exp x + Real.exp y) : ℝ) : WithBot ℝ) := by
  unfold lae logB
  have hpos : 0 < Real.exp x + Real.exp y := add_pos (Real.exp_pos x) (Real.exp_pos y)
  have hne : expB (x : WithBot ℝ) + expB (y : WithBot ℝ) ≠ 0 := by
    intro h
    have h2 : ((expB (x : WithBot ℝ) + expB (y : WithBot ℝ) : NNReal) : ℝ) = 0 := by rw [h]; rfl
    rw [NNReal.coe_add, expB_coe, expB_coe] at h2
    exact hpos.ne' h2
  rw [if_neg hne, NNReal.coe_add, expB_coe, expB_coe]

/-- The stabilised formula every variant uses, `log(exp(x−s) + exp(y−s)) + s`, equals the
    unshifted `log(exp x + exp y)` for *every* shift `s` (over ℝ). -/
theorem logaddexp_shift_invariant (x y s : ℝ) :
    Real.log (Real.exp (x - s) + Real.exp (y - s)) + s = Real.log (Real.exp x + Real.exp y) := by
  have hs : Real.exp (x - s) + Real.exp (y - s) = (Real.exp x + Real.exp y) * Real.exp (-s) := by
    rw [sub_eq_add_neg, sub_eq_add_neg, Real.exp_add, Real.exp_add]; ring
  have hpos : 0 < Real.exp x + Real.exp y := add_pos (Real.exp_pos x) (Real.exp_pos y)
  rw [hs, Real.log_mul hpos.ne' (Real.exp_pos _).ne', Real.log_exp]
  ring

theorem lae_unit (x : WithBot ℝ) : lae x ⊥ = x ∧ lae ⊥ x = x := by
  constructor <;> (unfold lae; simp [logB_expB])

theorem lae_comm (x y : WithBot ℝ) : lae x y = lae y x := by
  unfold lae; rw [add_comm]

theorem lae_assoc (x y z : WithBot ℝ) : lae (lae x y) z = lae x (lae y z) := by
  apply expB_injective
  simp only [expB_lae, add_assoc]

theorem add_lae_distrib (x y z : WithBot ℝ) : lae x y + z = lae (x + z) (y + z) := by
  apply expB_injective
  rw [expB_add, expB_lae, expB_lae, expB_add, expB_add, add_mul]

/-! ## UNITS -/

/-- what `UNITS[op] = u` asserts -/
def UnitLaw : Op × UVal → Prop
  | (.add, .zero) => ∀ (R : Type) [CommSemiring R] (x : R), x + 0 = x ∧ 0 + x = x
  | (.mul, .one) => ∀ (R : Type) [CommSemiring R] (x : R), x * 1 = x ∧ 1 * x = x
  | (.max, .ninf) => ∀ x : WithBot ℚ, max x ⊥ = x ∧ max ⊥ x = x
  | (.min, .pinf) => ∀ x : WithTop ℚ, min x ⊤ = x ∧ min ⊤ x = x
  | (.and_, .tt) => ∀ b : Bool, (b && true) = b ∧ (true && b) = b
  | (.or_, .ff) => ∀ b : Bool, (b || false) = b ∧ (false || b) = b
  | (.xor, .ff) => ∀ b : Bool, (b ^^ false) = b ∧ (false ^^ b) = b
  | (.logaddexp, .ninf) => ∀ x : WithBot ℝ, lae x ⊥ = x ∧ lae ⊥ x = x
  | (.sample, .ninf) => ∀ x : WithBot ℝ, lae x ⊥ = x ∧ lae ⊥ x = x
  | _ => False

def unitOk : Op × UVal → Bool
  | (.add, .zero) | (.mul, .one) | (.max, .ninf) | (.min, .pinf) | (.and_, .tt) | (.or_, .ff)
  | (.xor, .ff) | (.logaddexp, .ninf) | (.sample, .ninf) => true
  | _ => false

theorem unit_add : UnitLaw (.add, .zero) := fun _ _ x => ⟨add_zero x, zero_add x⟩
theorem unit_mul : UnitLaw (.mul, .one) := fun _ _ x => ⟨mul_one x, one_mul x⟩
theorem unit_max : UnitLaw (.max, .ninf) := fun x => ⟨max_bot_right x, max_bot_left x⟩
theorem unit_min : UnitLaw (.min, .pinf) := fun x => ⟨min_top_right x, min_top_left x⟩
theorem unit_and : UnitLaw (.and_, .tt) := by unfold UnitLaw; decide
theorem unit_or : UnitLaw (.or_, .ff) := by unfold UnitLaw; decide
theorem unit_xor : UnitLaw (.xor, .ff) := by unfold UnitLaw; decide
theorem unit_logaddexp : UnitLaw (.logaddexp, .ninf) := lae_unit
theorem unit_sample : UnitLaw (.sample, .ninf) := lae_unit

theorem unitOk_sound (e : Op × UVal) (h : unitOk e = true) : UnitLaw e := by
  obtain ⟨op, u⟩ := e
  cases op <;> cases u <;> first
    | (simp [unitOk] at h; done)
    | exact unit_add | exact unit_mul | exact unit_max | exact unit_min | exact unit_and
    | exact unit_or | exact unit_xor | exact unit_logaddexp

/-- The pinned tree's entries `UNITS[and_] = False`, `UNITS[or_] = True` are not units. -/
theorem and_false_not_unit : ¬ (∀ b : Bool, (b && false) = b) := by decide
theorem or_true_not_unit : ¬ (∀ b : Bool, (b || true) = b) := by decide

/-! ## DISTRIBUTIVE_OPS: `(⊕, ⊗)` with `(a ⊕ b) ⊗ c = (a ⊗ c) ⊕ (b ⊗ c)` (and the mirrored form) -/

def DistribLaw : Op × Op → Prop
  | (.add, .mul) => ∀ (R : Type) [CommSemiring R] (a b c : R),
      (a + b) * c = a * c + b * c ∧ c * (a + b) = c * a + c * b
  | (.max, .add) => ∀ a b c : WithBot ℚ,
      max a b + c = max (a + c) (b + c) ∧ c + max a b = max (c + a) (c + b)
  | (.min, .add) => ∀ a b c : WithTop ℚ,
      min a b + c = min (a + c) (b + c) ∧ c + min a b = min (c + a) (c + b)
  -- (max|min, mul): on the NON-NEGATIVE carrier (the multiplier must be ≥ 0)
  | (.max, .mul) => ∀ a b c : ℚ, 0 ≤ c →
      max a b * c = max (a * c) (b * c) ∧ c * max a b = max (c * a) (c * b)
  | (.min, .mul) => ∀ a b c : ℚ, 0 ≤ c →
      min a b * c = min (a * c) (b * c) ∧ c * min a b = min (c * a) (c * b)
  | (.or_, .and_) => ∀ a b c : Bool,
      ((a || b) && c) = ((a && c) || (b && c)) ∧ (c && (a || b)) = ((c && a) || (c && b))
  | (.and_, .or_) => ∀ a b c : Bool,
      ((a && b) || c) = ((a || c) && (b || c)) ∧ (c || (a && b)) = ((c || a) && (c || b))
  | (.xor, .and_) => ∀ a b c : Bool,
      ((a ^^ b) && c) = ((a && c) ^^ (b && c)) ∧ (c && (a ^^ b)) = ((c && a) ^^ (c && b))
  | (.max, .min) => ∀ a b c : ℚ,
      min (max a b) c = max (min a c) (min b c) ∧ min c (max a b) = max (min c a) (min c b)
  | (.min, .max) => ∀ a b c : ℚ,
      max (min a b) c = min (max a c) (max b c) ∧ max c (min a b) = min (max c a) (max c b)
  | (.logaddexp, .add) => ∀ a b c : WithBot ℝ,
      lae a b + c = lae (a + c) (b + c) ∧ c + lae a b = lae (c + a) (c + b)
  -- `ops.sample` is `logaddexp.make(logaddexp.default, name="sample")`: numerically the very same
  -- function (the harness checks `ops.sample.default is ops.logaddexp.default`); what it adds —
  -- "draw a sample instead of summing" in adjoint/Approximate — is not a semiring law and is
  -- declared unmodelled here.  The entry is accepted for the numeric denotation only.
  | (.sample, .add) => ∀ a b c : WithBot ℝ,
      lae a b + c = lae (a + c) (b + c) ∧ c + lae a b = lae (c + a) (c + b)
  | _ => False

def distribOk : Op × Op → Bool
  | (.add, .mul) | (.max, .add) | (.min, .add) | (.max, .mul) | (.min, .mul) | (.or_, .and_)
  | (.and_, .or_) | (.xor, .and_) | (.max, .min) | (.min, .max) | (.logaddexp, .add)
  | (.sample, .add) => true
  | _ => false

theorem distrib_add_mul : DistribLaw (.add, .mul) := fun _ _ a b c => ⟨add_mul a b c, mul_add c a b⟩
theorem distrib_max_add : DistribLaw (.max, .add) := fun a b c =>
  ⟨(max_add_add_right a b c).symm, (max_add_add_left c a b).symm⟩
theorem distrib_min_add : DistribLaw (.min, .add) := fun a b c =>
  ⟨(min_add_add_right a b c).symm, (min_add_add_left c a b).symm⟩
theorem distrib_max_mul : DistribLaw (.max, .mul) := fun a b _ hc =>
  ⟨max_mul_of_nonneg a b hc, mul_max_of_nonneg a b hc⟩
theorem distrib_min_mul : DistribLaw (.min, .mul) := fun a b _ hc =>
  ⟨min_mul_of_nonneg a b hc, mul_min_of_nonneg a b hc⟩
theorem distrib_or_and : DistribLaw (.or_, .and_) := by unfold DistribLaw; decide
theorem distrib_and_or : DistribLaw (.and_, .or_) := by unfold DistribLaw; decide
theorem distrib_xor_and : DistribLaw (.xor, .and_) := by unfold DistribLaw; decide
theorem distrib_max_min : DistribLaw (.max, .min) := fun a b c =>
  ⟨by rw [min_comm, min_max_distrib_left, min_comm c a, min_comm c b], min_max_distrib_left c a b⟩
theorem distrib_min_max : DistribLaw (.min, .max) := fun a b c =>
  ⟨by rw [max_comm, max_min_distrib_left, max_comm c a, max_comm c b], max_min_distrib_left c a b⟩
theorem distrib_logaddexp_add : DistribLaw (.logaddexp, .add) := fun a b c =>
  ⟨add_lae_distrib a b c, by rw [add_comm c, add_lae_distrib, add_comm a c, add_comm b c]⟩
theorem distrib_sample_add : DistribLaw (.sample, .add) := distrib_logaddexp_add

theorem distribOk_sound (e : Op × Op) (h : distribOk e = true) : DistribLaw e := by
  obtain ⟨s, p⟩ := e
  cases s <;> cases p <;> first
    | (simp [distribOk] at h; done)
    | exact distrib_add_mul | exact distrib_max_add | exact distrib_min_add
    | exact distrib_max_mul | exact distrib_min_mul | exact distrib_or_and | exact distrib_and_or
    | exact distrib_xor_and | exact distrib_max_min | exact distrib_min_max
    | exact distrib_logaddexp_add

/-- why the carrier of (max, mul) must be non-negative -/
theorem max_mul_fails_for_negative_multiplier :
    ¬ (∀ a b c : ℚ, max a b * c = max (a * c) (b * c)) := by
  intro h
  have := h 0 1 (-1)
  norm_num at this

/-- `(add, max)` is not distributive (a pair that must never enter the table) -/
theorem add_max_not_distributive : ¬ (∀ a b c : ℚ, max (a + b) c = max a c + max b c) := by
  intro h
  have := h 0 0 1
  norm_num at this

/-! ## BINARY_INVERSES / SAFE_BINARY_INVERSES / UNARY_INVERSES -/

/-- `BINARY_INVERSES[op] = inv` asserts `inv (op x y) y = x` (away from the zero divisor). -/
def BinInvLaw : Op × Op → Prop
  | (.add, .sub) => ∀ (R : Type) [CommRing R] (x y : R), (x + y) - y = x
  | (.mul, .truediv) => ∀ (K : Type) [Field K] (x y : K), y ≠ 0 → (x * y) / y = x
  | (.xor, .xor) => ∀ a b : Bool, ((a ^^ b) ^^ b) = a
  | _ => False

def binInvOk : Op × Op → Bool
  | (.add, .sub) | (.mul, .truediv) | (.xor, .xor) => true
  | _ => false

theorem bininv_add : BinInvLaw (.add, .sub) := fun _ _ x y => add_sub_cancel_right x y
theorem bininv_mul : BinInvLaw (.mul, .truediv) := fun _ _ x _ hy => mul_div_cancel_right₀ x hy
theorem bininv_xor : BinInvLaw (.xor, .xor) := by unfold BinInvLaw; decide

theorem binInvOk_sound (e : Op × Op) (h : binInvOk e = true) : BinInvLaw e := by
  obtain ⟨s, p⟩ := e
  cases s <;> cases p <;> first
    | (simp [binInvOk] at h; done) | exact bininv_add | exact bininv_mul | exact bininv_xor

/-- The safe inverses denote the same functions as the plain ones on finite values (`clip` is the
    identity there; tied by the harness) — the special-value behaviour is `Props/C15/Special`. -/
def SafeInvLaw : Op × Op → Prop
  | (.add, .safesub) => ∀ (R : Type) [CommRing R] (x y : R), (x + y) - y = x
  | (.mul, .safediv) => ∀ (K : Type) [Field K] (x y : K), y ≠ 0 → (x * y) / y = x
  | _ => False

def safeInvOk : Op × Op → Bool
  | (.add, .safesub) | (.mul, .safediv) => true
  | _ => false

theorem safeInvOk_sound (e : Op × Op) (h : safeInvOk e = true) : SafeInvLaw e := by
  obtain ⟨s, p⟩ := e
  cases s <;> cases p <;> first
    | (simp [safeInvOk] at h; done) | exact bininv_add | exact bininv_mul

/-- `UNARY_INVERSES[op] = inv` asserts `op x (inv x) = UNITS[op]` (away from zero for mul). -/
def UnInvLaw : Op × Op → Prop
  | (.add, .neg) => ∀ (R : Type) [CommRing R] (x : R), x + (-x) = 0
  | (.mul, .reciprocal) => ∀ (K : Type) [Field K] (x : K), x ≠ 0 → x * x⁻¹ = 1
  | _ => False

def unInvOk : Op × Op → Bool
  | (.add, .neg) | (.mul, .reciprocal) => true
  | _ => false

theorem uninv_add : UnInvLaw (.add, .neg) := fun _ _ x => add_neg_cancel x
theorem uninv_mul : UnInvLaw (.mul, .reciprocal) := fun _ _ _ hx => mul_inv_cancel₀ hx

theorem unInvOk_sound (e : Op × Op) (h : unInvOk e = true) : UnInvLaw e := by
  obtain ⟨s, p⟩ := e
  cases s <;> cases p <;> first
    | (simp [unInvOk] at h; done) | exact uninv_add | exact uninv_mul

/-! ## PRODUCT_TO_POWER: the power op equals the repeated product -/

/-- `op`-fold of `n` copies of `x`, starting from the op's unit — what reducing over a variable
    of size `n` that the argument does not mention computes. -/
def rep {α : Type} (op : α → α → α) (unit : α) (x : α) (n : Nat) : α :=
  (List.replicate n x).foldl op unit

theorem rep_succ {α : Type} (op : α → α → α) (unit x : α) (n : Nat) :
    rep op unit x (n + 1) = op (rep op unit x n) x := by
  unfold rep
  rw [List.replicate_succ', List.foldl_append]
  rfl

def PowerLaw : Op × Op → Prop
  | (.add, .mul) => ∀ (R : Type) [CommSemiring R] (x : R) (n : Nat),
      rep (· + ·) 0 x n = x * (n : R)
  | (.mul, .pow) => ∀ (R : Type) [CommSemiring R] (x : R) (n : Nat),
      rep (· * ·) 1 x n = x ^ n
  | _ => False

def powerOk : Op × Op → Bool
  | (.add, .mul) | (.mul, .pow) => true
  | _ => false

theorem power_add : PowerLaw (.add, .mul) := by
  intro R _ x n
  induction n with
  | zero => simp [rep]
  | succ n ih =>
    rw [rep_succ, ih]
    push_cast
    ring

theorem power_mul : PowerLaw (.mul, .pow) := by
  intro R _ x n
  induction n with
  | zero => simp [rep]
  | succ n ih =>
    rw [rep_succ, ih, pow_succ]

theorem powerOk_sound (e : Op × Op) (h : powerOk e = true) : PowerLaw e := by
  obtain ⟨s, p⟩ := e
  cases s <;> cases p <;> first
    | (simp [powerOk] at h; done) | exact power_add | exact power_mul

/-- the idempotent ops need no power op: `n ≥ 1` copies fold to `x` -/
theorem rep_idempotent {α : Type} (op : α → α → α) (unit x : α) (n : Nat)
    (hunit : op unit x = x) (hidem : op x x = x) : rep op unit x (n + 1) = x := by
  unfold rep
  rw [List.replicate_succ, List.foldl_cons, hunit]
  induction n with
  | zero => rfl
  | succ n ih => rw [List.replicate_succ, List.foldl_cons, hidem]; exact ih

/-! ## non-vacuity: the catalogue accepts the currently published entries -/
example : unitOk (.and_, .tt) = true ∧ unitOk (.and_, .ff) = false := by decide
example : distribOk (.max, .mul) = true ∧ distribOk (.add, .max) = false := by decide
example : rep (· + ·) 0 (3 : Nat) 4 = 12 := by decide

end FV.Props.C15
