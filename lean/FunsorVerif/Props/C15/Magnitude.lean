/-
  Props/C15/Magnitude.lean — overflow-freedom of logaddexp (and of the stabilised safesub) on the
  magnitude-refined domain of Model/C15/Mag.lean: for FINITE operands of any magnitude — the float
  range boundary included — every variant of logaddexp returns a finite value (never ±∞, never NaN).
  The whole input space (11 classes × 11 classes × order × 4 variants) is decided; nothing is sampled.
-/
import FunsorVerif.Model.C15.Mag
namespace FV.Props.C15.Magn
open FV.C15.Mag

theorem M.forall_iff (p : M → Prop) :
    (∀ c, p c) ↔ p .nan ∧ p .ninf ∧ p .nH ∧ p .nM ∧ p .nS ∧ p .nz ∧ p .pz ∧ p .pS ∧ p .pM ∧ p .pH ∧ p .pinf :=
  ⟨fun h => ⟨h _, h _, h _, h _, h _, h _, h _, h _, h _, h _, h _⟩,
   fun ⟨h1, h2, h3, h4, h5, h6, h7, h8, h9, h10, h11⟩ c => by cases c <;> assumption⟩

instance (p : M → Prop) [DecidablePred p] : Decidable (∀ c, p c) :=
  decidable_of_iff _ (M.forall_iff p).symm

theorem Ordering.forall_iff (p : Ordering → Prop) : (∀ o, p o) ↔ p .lt ∧ p .eq ∧ p .gt :=
  ⟨fun h => ⟨h _, h _, h _⟩, fun ⟨h1, h2, h3⟩ o => by cases o <;> assumption⟩

instance (p : Ordering → Prop) [DecidablePred p] : Decidable (∀ o, p o) :=
  decidable_of_iff _ (Ordering.forall_iff p).symm

theorem Variant.forall_iff (p : Variant → Prop) :
    (∀ v, p v) ↔ p .scalar ∧ p .arr ∧ p .numArr ∧ p .arrNum :=
  ⟨fun h => ⟨h _, h _, h _, h _⟩, fun ⟨h1, h2, h3, h4⟩ v => by cases v <;> assumption⟩

instance (p : Variant → Prop) [DecidablePred p] : Decidable (∀ v, p v) :=
  decidable_of_iff _ (Variant.forall_iff p).symm

/-- log-space value: not NaN, not +∞ -/
def logDom (c : M) : Bool := !c.isNan && c != M.pinf

/-- Overflow-freedom: for finite operands of ANY magnitude every variant of logaddexp returns a
    finite value. -/
theorem logaddexp_finite_of_finite :
    ∀ (v : Variant) (cx cy : M) (o : Ordering), (In.mk cx cy o).ok = true →
      cx.isFinite = true → cy.isFinite = true →
      (logaddexpV v ⟨cx, cy, o⟩).cs.all M.isFinite = true := by decide

theorem logaddexp_never_nan_mag :
    ∀ (v : Variant) (cx cy : M) (o : Ordering), (In.mk cx cy o).ok = true →
      logDom cx = true → logDom cy = true → (logaddexpV v ⟨cx, cy, o⟩).hasNan = false := by decide

/-- near the upper range boundary the result stays huge-and-finite: no spurious +∞ -/
theorem logaddexp_huge_stays_finite :
    ∀ (v : Variant) (o : Ordering), (In.mk .pH .pH o).ok = true →
      M.pinf ∉ (logaddexpV v ⟨.pH, .pH, o⟩).cs ∧ M.nan ∉ (logaddexpV v ⟨.pH, .pH, o⟩).cs := by decide

/-- stabilised safesub: `x − (−∞)` is finite for finite `x` up to moderate magnitude (the clip
    makes `−y = finfo.max`); a huge `x` may overflow (`x + finfo.max`), which is the honest limit. -/
theorem safesub_clip_finite :
    ∀ c : M, c.isFinite = true → c.level ≤ 1 ∨ c.sgnNeg = true →
      (safesubArr ⟨c, .ninf, .gt⟩).cs.all M.isFinite = true := by decide

example : (In.mk .pH .nH .gt).ok = true ∧ M.pH.isFinite = true := by decide

end FV.Props.C15.Magn
