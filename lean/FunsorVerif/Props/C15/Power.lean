/-
  Props/C15/Power.lean — obligation over the GENERATED table `Gen.productToPower`
  (= funsor.ops.PRODUCT_TO_POWER): the declared power op equals the repeated product,
  `rep (+) 0 x n = x * n` and `rep (*) 1 x n = x ^ n`, for every `n` (induction in Laws.lean).
-/
import FunsorVerif.Props.C15.Laws
import FunsorVerif.Gen.C15OpTables
namespace FV.Props.C15
open FV.C15

theorem table_power_ok : ∀ e ∈ Gen.productToPower, PowerLaw e := by
  intro e he
  apply powerOk_sound
  have h : Gen.productToPower.all powerOk = true := by decide
  exact List.all_eq_true.mp h e he

example : (Op.mul, Op.pow) ∈ Gen.productToPower := by decide

end FV.Props.C15
