/-
  Props/C15/Special.lean — special-value theorems of C15 over the abstract domain of Model/C15.

  Binary/unary op variants: the input space (8 classes × 8 classes × order, 4 variants) is finite
  and the theorems quantify over ALL of it (the `Decidable (∀ …)` instances below enumerate it;
  nothing is sampled).  Reductions (`logsumexp`, the log-space inner product) take arrays of
  arbitrary length: those theorems are by induction with class-level closure facts.

  Domains, stated in the theorems:
    * logaddexp / logsumexp / log-einsum: log-space values, i.e. anything but NaN and +∞;
    * safesub: everything but NaN and the genuinely indeterminate (+∞) − (+∞);
    * safediv: divisor `+0`, positive or +∞; not both operands infinite;
    * reciprocal: everything but NaN.
  Finding KF-safesub-inf (open): the scalar default and the (array, Number) fall-through of
  safesub / safediv / reciprocal are NOT stabilised — witness theorems `…_witness` below; the
  full-strength "never NaN on the domain" theorems hold for the (array, array) / (Number, array)
  registrations.
-/
import FunsorVerif.Model.C15
namespace FV.Props.C15
open FV.C15

/-! ## finite quantification -/

theorem Cls.forall_iff (p : Cls → Prop) :
    (∀ c, p c) ↔ p .nan ∧ p .ninf ∧ p .neg ∧ p .nzero ∧ p .pzero ∧ p .pos ∧ p .one ∧ p .pinf :=
  ⟨fun h => ⟨h _, h _, h _, h _, h _, h _, h _, h _⟩,
   fun ⟨h1, h2, h3, h4, h5, h6, h7, h8⟩ c => by cases c <;> assumption⟩

instance (p : Cls → Prop) [DecidablePred p] : Decidable (∀ c, p c) :=
  decidable_of_iff _ (Cls.forall_iff p).symm

theorem Ordering.forall_iff (p : Ordering → Prop) : (∀ o, p o) ↔ p .lt ∧ p .eq ∧ p .gt :=
  ⟨fun h => ⟨h _, h _, h _⟩, fun ⟨h1, h2, h3⟩ o => by cases o <;> assumption⟩

instance (p : Ordering → Prop) [DecidablePred p] : Decidable (∀ o, p o) :=
  decidable_of_iff _ (Ordering.forall_iff p).symm

theorem Variant.forall_iff (p : Variant → Prop) :
    (∀ v, p v) ↔ p .scalar ∧ p .arr ∧ p .numArr ∧ p .arrNum :=
  ⟨fun h => ⟨h _, h _, h _, h _⟩, fun ⟨h1, h2, h3, h4⟩ v => by cases v <;> assumption⟩

instance (p : Variant → Prop) [DecidablePred p] : Decidable (∀ v, p v) :=
  decidable_of_iff _ (Variant.forall_iff p).symm

theorem In.forall_iff (p : In → Prop) : (∀ i, p i) ↔ ∀ cx cy ord, p ⟨cx, cy, ord⟩ :=
  ⟨fun h _ _ _ => h _, fun h i => by cases i; exact h _ _ _⟩

instance (p : In → Prop) [DecidablePred p] : Decidable (∀ i, p i) :=
  decidable_of_iff _ (In.forall_iff p).symm

/-! ## domains -/

/-- a log-space value: anything except NaN and +∞ (−∞ = log 0 is a value) -/
def logDom (c : Cls) : Bool := !c.isNan && c != Cls.pinf
def nonNan (c : Cls) : Bool := !c.isNan
/-- valid abstract input without NaN operands -/
def validIn (i : In) : Bool := i.ok && nonNan i.cx && nonNan i.cy
/-- the stabilised registrations of the binary ops -/
def stab : Variant → Bool
  | .arr => true | .numArr => true | _ => false

/-- same value: identical, or both are copies of inputs that compare equal -/
def sameVal (i : In) (a b : AV) : Bool :=
  a == b || (i.ord == .eq && a.tag != .none && b.tag != .none)

/-! ## logaddexp -/

/-- Inside its domain (both operands log-space values) no variant of logaddexp produces NaN. -/
theorem logaddexp_never_nan :
    ∀ (v : Variant) (i : In), i.ok = true → logDom i.cx = true → logDom i.cy = true →
      (logaddexpV v i).hasNan = false := by decide

/-- `logaddexp(−∞, −∞) = −∞` exactly, in every variant. -/
theorem logaddexp_limit_both :
    ∀ v : Variant, logaddexpV v ⟨.ninf, .ninf, .eq⟩ = ⟨[Cls.ninf], .none⟩ := by decide

/-- `logaddexp(−∞, y) = y` and `logaddexp(x, −∞) = x` for finite operands: the result *is* the
    finite operand (provenance tag), up to the sign of a zero (`−0` comes back as `+0`). -/
theorem logaddexp_limit_one_side :
    ∀ (v : Variant) (c : Cls), c.isFinite = true →
      ((logaddexpV v ⟨.ninf, c, .lt⟩).tag = .y ∨
        (c.isZero = true ∧ (logaddexpV v ⟨.ninf, c, .lt⟩).cs = [Cls.pzero])) ∧
      ((logaddexpV v ⟨c, .ninf, .gt⟩).tag = .x ∨
        (c.isZero = true ∧ (logaddexpV v ⟨c, .ninf, .gt⟩).cs = [Cls.pzero])) := by decide

/-- The four variants (scalar default, (array,array), (Number,array), (array,Number)) agree on
    every valid input without NaN operands — +∞ included. -/
theorem logaddexp_variants_agree :
    ∀ (v : Variant) (i : In), validIn i = true → logaddexpV v i = logaddexpV .arr i := by decide

/-- +∞ is outside the domain: every variant gives NaN there. -/
theorem logaddexp_pinf_outside_domain :
    ∀ (v : Variant) (c : Cls), nonNan c = true → c != Cls.pinf →
      (logaddexpV v ⟨.pinf, c, .gt⟩).hasNan = true := by decide

/-- The scalar default reaches the right limit at (−∞, −∞) only through the `x > 0` guard of the
    scalar `log`: with `np.log` in its place (no guard) the same composition yields NaN.  This is
    exactly `ops.sample` on two arrays (default body, array `log`, no clipping). -/
def logaddexpScalarUnguarded (i : In) : AV :=
  let shift := maxPyA i i.X i.Y
  addA (logNpA (addA (expA (subA i i.X shift)) (expA (subA i i.Y shift)))) shift

theorem logaddexp_scalar_relies_on_log_guard :
    (logaddexpScalarUnguarded ⟨.ninf, .ninf, .eq⟩).hasNan = true ∧
    (logaddexpScalar ⟨.ninf, .ninf, .eq⟩).hasNan = false := by decide

theorem sample_on_arrays_nan_at_ninf : (sampleArr ⟨.ninf, .ninf, .eq⟩).hasNan = true := by decide

/-! ## safesub -/

/-- The stabilised safesub (`x + clip(−y, max)`) is NaN exactly at (+∞) − (+∞). -/
theorem safesub_nan_iff :
    ∀ (v : Variant) (i : In), stab v = true → validIn i = true →
      ((safesubV v i).hasNan = true ↔ (i.cx = .pinf ∧ i.cy = .pinf)) := by decide

/-- … hence never NaN on log-space values. -/
theorem safesub_never_nan :
    ∀ (v : Variant) (i : In), stab v = true → i.ok = true → logDom i.cx = true →
      logDom i.cy = true → (safesubV v i).hasNan = false := by decide

/-- `(−∞) − (−∞) = −∞` (log of `0/0 := 0`) and `x − (−∞)` is finite (clipped), for finite `x`. -/
theorem safesub_limit :
    ∀ v : Variant, stab v = true →
      safesubV v ⟨.ninf, .ninf, .eq⟩ = ⟨[Cls.ninf], .none⟩ ∧
      ∀ c : Cls, c.isFinite = true → ∀ r ∈ (safesubV v ⟨c, .ninf, .gt⟩).cs, r.isNan = false := by
  decide

/-- KF-safesub-inf witness: the scalar default and the (array, Number) fall-through compute a plain
    `x − y`, which is NaN at (−∞, −∞) — inside the domain. -/
theorem safesub_unstabilised_witness :
    (safesubV .scalar ⟨.ninf, .ninf, .eq⟩).hasNan = true ∧
    (safesubV .arrNum ⟨.ninf, .ninf, .eq⟩).hasNan = true := by decide

/-- partial (full statement: `safesub_never_nan` for every variant): the unstabilised variants are
    NaN exactly when both operands are the same infinity. -/
theorem safesub_unstabilised_nan_iff_partial :
    ∀ (v : Variant) (i : In), stab v = false → validIn i = true →
      ((safesubV v i).hasNan = true ↔ (i.cx = i.cy ∧ i.cx.isInf = true)) := by decide

/-- away from `y = −∞` (where the clip acts) every result class of the plain subtraction is a
    result class of the stabilised one: the variants agree. -/
theorem safesub_variants_agree_away_from_clip :
    ∀ (v w : Variant) (i : In), validIn i = true → i.cy != Cls.ninf →
      stab v = false → stab w = true →
      ∀ r ∈ (safesubV v i).cs, r ∈ (safesubV w i).cs := by decide

/-! ## safediv -/

/-- divisor of a linear-space quotient: `+0`, positive, or +∞ -/
def divisorDom (c : Cls) : Bool := c == .pzero || c == .pos || c == .one || c == .pinf

/-- The stabilised safediv (`x * clip(1/y, max)`) never produces NaN for a non-negative divisor
    unless both operands are infinite. -/
theorem safediv_never_nan :
    ∀ (v : Variant) (i : In), stab v = true → validIn i = true → divisorDom i.cy = true →
      !(i.cx.isInf && i.cy.isInf) →
      ∃ r, safedivV v i = some r ∧ r.hasNan = false := by decide

/-- `0 / 0 = 0` and `x / 0 = x · finfo.max` (never NaN; it may overflow to ±∞) for finite `x`. -/
theorem safediv_limit :
    ∀ v : Variant, stab v = true →
      safedivV v ⟨.pzero, .pzero, .eq⟩ = some ⟨[Cls.pzero], .none⟩ ∧
      ∀ c : Cls, c.isFinite = true → ∃ r, safedivV v ⟨c, .pzero, compare c.rank 2⟩ = some r ∧
        ∀ k ∈ r.cs, k.isNan = false := by decide

/-- where exactly the stabilised safediv is NaN (NaN operands aside): both infinite, or a zero
    numerator with a divisor whose reciprocal is −∞ (−0, or a negative subnormal). -/
theorem safediv_nan_iff :
    ∀ (v : Variant) (i : In), stab v = true → validIn i = true →
      ((∃ r, safedivV v i = some r ∧ r.hasNan = true) ↔
        ((i.cx.isInf = true ∧ i.cy.isInf = true) ∨
         (i.cx.isZero = true ∧ (i.cy = .nzero ∨ i.cy = .neg)))) := by decide

/-- clamp-then-multiply is SAFE: on finite operands with a non-negative divisor — the zero divisor
    included, whatever dtype held it before the conversion to float — the stabilised safediv never
    returns NaN; a zero numerator gives exactly 0, and `x / 0 = x · finfo.max` keeps the sign class
    of `x` (it may overflow to ±∞ for large `x`, never NaN). -/
theorem safediv_finite_never_nan :
    ∀ (v : Variant) (i : In), stab v = true → validIn i = true → i.cx.isFinite = true →
      (i.cy = .pzero ∨ i.cy = .pos ∨ i.cy = .one) →
      (safedivV v i).any (fun r => !r.hasNan && (!i.cx.isZero || r.cs.all Cls.isZero)) = true := by
  decide

/-- the composition a "simplification" to plain `np.true_divide(x, y)` performs is NOT safe:
    `0 / 0 = NaN` and `x / 0 = ±∞` for every finite non-zero `x` (never `x · finfo.max`). -/
theorem true_divide_not_safe_witness :
    (divNpA ⟨[Cls.pzero], .x⟩ ⟨[Cls.pzero], .y⟩).hasNan = true ∧
    (divNpA ⟨[Cls.pos], .x⟩ ⟨[Cls.pzero], .y⟩).cs = [Cls.pinf] ∧
    (divNpA ⟨[Cls.neg], .x⟩ ⟨[Cls.pzero], .y⟩).cs = [Cls.ninf] ∧
    safedivV .arr ⟨.pzero, .pzero, .eq⟩ = some ⟨[Cls.pzero], .none⟩ ∧
    (safedivV .arr ⟨.pos, .pzero, .gt⟩).any (fun r => r.cs.contains Cls.pos && !r.hasNan) = true := by
  decide

/-- KF-safesub-inf witness: (array, Number) divides plainly, `0/0 = NaN`; two Python numbers raise. -/
theorem safediv_unstabilised_witness :
    (∃ r, safedivV .arrNum ⟨.pzero, .pzero, .eq⟩ = some r ∧ r.hasNan = true) ∧
    safedivV .scalar ⟨.pzero, .pzero, .eq⟩ = none := by decide

/-! ## reciprocal -/

/-- the array reciprocal never produces NaN and never +∞ -/
theorem reciprocal_never_nan :
    ∀ (v : Variant) (c : Cls), v != .scalar → nonNan c = true →
      ∃ r, reciprocalV v c = some r ∧ r.hasNan = false ∧ r.cs.contains Cls.pinf = false := by decide

theorem reciprocal_limit : ∀ v : Variant, v != .scalar →
    reciprocalV v .pzero = some ⟨[Cls.pos], .none⟩ := by decide

/-- KF-safesub-inf witness: the scalar default raises at 0 and overflows to +∞ on subnormals. -/
theorem reciprocal_scalar_witness :
    reciprocalV .scalar .pzero = none ∧
    (∃ r, reciprocalV .scalar .pos = some r ∧ r.cs.contains Cls.pinf = true) := by decide

/-- partial: away from 0 the scalar reciprocal never produces NaN -/
theorem reciprocal_scalar_never_nan_partial :
    ∀ c : Cls, nonNan c = true → c.isZero = false →
      ∃ r, reciprocalV .scalar c = some r ∧ r.hasNan = false := by decide

/-! ## log, max, min -/

/-- on its domain `x ≥ 0` the guarded scalar log and `np.log` agree; they differ below 0
    (−∞ against NaN), which is outside the domain. -/
theorem log_variants_agree :
    ∀ (v : Variant) (c : Cls), nonNan c = true → c.sgnNeg = false ∨ c = .nzero →
      logV v c = logV .arr c := by decide

theorem log_differs_below_zero :
    (logV .scalar .neg).cs = [Cls.ninf] ∧ (logV .arr .neg).hasNan = true := by decide

theorem log_zero_is_ninf : ∀ v : Variant, (logV v .pzero).cs = [Cls.ninf] ∧ logBool false = .ninf := by
  decide

/-- Python `max`/`min`, `np.maximum`/`np.minimum` and the `np.clip` forms used for
    number×array return the same value on every valid input without NaN. -/
theorem max_min_variants_agree :
    ∀ (v : Variant) (i : In), validIn i = true →
      sameVal i (maxV v i) (maxV .arr i) = true ∧ sameVal i (minV v i) (minV .arr i) = true := by
  decide

/-- −∞ / +∞ are neutral for max / min in every variant: the result *is* the other operand. -/
theorem max_min_unit :
    ∀ (v : Variant) (c : Cls), nonNan c = true → c != .ninf → c != .pinf →
      (maxV v ⟨c, .ninf, .gt⟩).tag = .x ∧ (maxV v ⟨.ninf, c, .lt⟩).tag = .y ∧
      (minV v ⟨c, .pinf, .lt⟩).tag = .x ∧ (minV v ⟨.pinf, c, .gt⟩).tag = .y := by decide

/-! ## logsumexp over arrays of any length -/

def nonnegC (c : Cls) : Bool := c == .pzero || c == .pos || c == .one || c == .pinf

theorem all_norm (P : Cls → Bool) (s : CSet) (h : s.all P = true) : (norm s).all P = true := by
  unfold norm
  rw [List.all_eq_true] at h ⊢
  intro c hc
  have hc2 := (List.mem_filter.mp hc).2
  simp only [Bool.and_eq_true] at hc2
  exact h c (List.contains_iff_mem.mp hc2.1)

theorem all_lift1 (P Q : Cls → Bool) (f : Cls → CSet)
    (hf : ∀ x, P x = true → (f x).all Q = true) (a : CSet) (ha : a.all P = true) :
    (lift1 f a).all Q = true := by
  apply all_norm
  rw [List.all_eq_true] at ha ⊢
  intro c hc
  obtain ⟨x, hx, hcx⟩ := List.mem_flatMap.mp hc
  exact (List.all_eq_true.mp (hf x (ha x hx))) c hcx

theorem all_lift2 (P1 P2 Q : Cls → Bool) (f : Cls → Cls → CSet)
    (hf : ∀ x y, P1 x = true → P2 y = true → (f x y).all Q = true) (a b : CSet)
    (ha : a.all P1 = true) (hb : b.all P2 = true) : (lift2 f a b).all Q = true := by
  apply all_norm
  rw [List.all_eq_true] at ha hb ⊢
  intro c hc
  obtain ⟨x, hx, hc2⟩ := List.mem_flatMap.mp hc
  obtain ⟨y, hy, hcy⟩ := List.mem_flatMap.mp hc2
  exact (List.all_eq_true.mp (hf x y (ha x hx) (hb y hy))) c hcy

theorem all_map (P Q : Cls → Bool) (f : Cls → Cls) (hf : ∀ x, P x = true → Q (f x) = true)
    (a : CSet) (ha : a.all P = true) : (a.map f).all Q = true := by
  rw [List.all_eq_true] at ha ⊢
  intro c hc
  obtain ⟨x, hx, rfl⟩ := List.mem_map.mp hc
  exact hf x (ha x hx)

theorem amax_all (P : Cls → Bool) (hP : ∀ x y, P x = true → P y = true → (maxNpC x y).all P = true)
    (xs : List Cls) (h : xs.all P = true) : (amaxC xs).all P = true := by
  induction xs with
  | nil => rfl
  | cons c cs ih =>
    cases cs with
    | nil => simpa [amaxC] using h
    | cons d ds =>
      have hc : P c = true := by simp [List.all_cons] at h; exact h.1
      have hrest : (d :: ds).all P = true := by simp [List.all_cons] at h ⊢; exact h.2
      show (lift2 maxNpC [c] (amaxC (d :: ds))).all P = true
      exact all_lift2 P P P maxNpC hP [c] _ (by simp [hc]) (ih hrest)

theorem sumSets_all (P : Cls → Bool) (hzero : P .pzero = true)
    (hP : ∀ x y, P x = true → P y = true → (addC x y).all P = true)
    (ss : List CSet) (h : ∀ s ∈ ss, s.all P = true) : (sumSets ss).all P = true := by
  induction ss with
  | nil => simp [sumSets, hzero]
  | cons s rest ih =>
    cases rest with
    | nil => exact all_norm P s (h s (by simp))
    | cons t ts =>
      show (lift2 addC s (sumSets (t :: ts))).all P = true
      exact all_lift2 P P P addC hP s _ (h s (by simp)) (ih (fun u hu => h u (by simp [hu])))

/-- `ops.logsumexp` never produces NaN on a non-empty array without NaN entries — of any length,
    +∞ entries included (the `np.where(np.isfinite(amax), amax, 0)` line is what makes this true). -/
theorem logsumexp_never_nan (xs : List Cls) (h : xs.all nonNan = true) :
    (logsumexpA xs).all nonNan = true := by
  unfold logsumexpA
  dsimp only
  have hamax : (amaxC xs).all nonNan = true := amax_all nonNan (by decide) xs h
  have hfin : (norm ((amaxC xs).map finiteOrZeroC)).all Cls.isFinite = true :=
    all_norm _ _ (all_map nonNan Cls.isFinite finiteOrZeroC (by decide) _ hamax)
  have hterms : ∀ s ∈ xs.map (fun c => lift1 expC (lift2 subC [c]
      (norm ((amaxC xs).map finiteOrZeroC)))), s.all nonnegC = true := by
    intro s hs
    obtain ⟨c, hc, rfl⟩ := List.mem_map.mp hs
    have hcn : nonNan c = true := (List.all_eq_true.mp h) c hc
    apply all_lift1 nonNan nonnegC expC (by decide)
    exact all_lift2 nonNan Cls.isFinite nonNan subC (by decide) [c] _ (by simp [hcn]) hfin
  have hsum := sumSets_all nonnegC (by decide) (by decide) _ hterms
  have hlog := all_lift1 nonnegC nonNan logNpC (by decide) _ hsum
  exact all_lift2 nonNan Cls.isFinite nonNan addC (by decide) _ _ hlog hfin

theorem amax_replicate_ninf (n : Nat) : amaxC (List.replicate (n + 1) Cls.ninf) = [Cls.ninf] := by
  induction n with
  | zero => rfl
  | succ n ih =>
    rw [List.replicate_succ]
    show lift2 maxNpC [Cls.ninf] (amaxC (List.replicate (n + 1) Cls.ninf)) = [Cls.ninf]
    rw [ih]; decide

theorem sumSets_replicate_pzero (n : Nat) :
    sumSets (List.replicate (n + 1) [Cls.pzero]) = [Cls.pzero] := by
  induction n with
  | zero => decide
  | succ n ih =>
    rw [List.replicate_succ]
    show lift2 addC [Cls.pzero] (sumSets (List.replicate (n + 1) [Cls.pzero])) = [Cls.pzero]
    rw [ih]; decide

/-- `logsumexp` of an array of `n ≥ 1` copies of −∞ is exactly −∞. -/
theorem logsumexp_all_ninf (n : Nat) :
    logsumexpA (List.replicate (n + 1) Cls.ninf) = [Cls.ninf] := by
  unfold logsumexpA
  dsimp only
  rw [amax_replicate_ninf]
  have h1 : norm ([Cls.ninf].map finiteOrZeroC) = [Cls.pzero] := by decide
  rw [h1]
  have h2 : (List.replicate (n + 1) Cls.ninf).map
      (fun c => lift1 expC (lift2 subC [c] [Cls.pzero])) = List.replicate (n + 1) [Cls.pzero] := by
    rw [List.map_replicate]
    congr 1
  rw [h2, sumSets_replicate_pzero]
  decide

/-- without the `isfinite` line (amax used as is) the all-−∞ array gives NaN: the line is needed. -/
theorem logsumexp_needs_isfinite_guard :
    Cls.nan ∈ lift2 addC (lift1 logNpC (lift1 expC (lift2 subC [Cls.ninf] [Cls.ninf]))) [Cls.ninf] := by
  decide

/-! ## non-vacuity -/
example : validIn ⟨.neg, .pos, .lt⟩ = true ∧ logDom .ninf = true ∧ divisorDom .pzero = true := by decide
example : (logsumexpA [.ninf, .neg, .pos]).all nonNan = true := by decide
example : ∃ i : In, validIn i = true ∧ i.cx = .ninf ∧ i.cy = .ninf := ⟨⟨.ninf, .ninf, .eq⟩, by decide⟩

end FV.Props.C15
