/-
  Props/C15/Transform.lean — the transform tables of funsor/ops/builtin.py are truthful on ℝ.

  `Model/C15Transform.lean` transcribes the scalar bodies of the `TransformOp`s
  (exp, log, tanh, atanh, sigmoid, sigmoid_inv, softplus) and the two published tables
  `t.set_inv(u)` and `t.set_log_abs_det_jacobian(fn)`.  Here the expressions are read in ℝ
  (`den`) together with a definedness predicate (`Def`: every `log` gets a positive argument,
  every `log1p` an argument > -1, every `atanh` an argument in (-1, 1), no division by zero), and
  the obligations over the tables are proved for all real inputs of each transform's domain:

    * `body_defined_iff`              the body of `t` is defined at `x` exactly on `t.dom x`;
    * `table_transform_inverses_ok`   every `(t, u) ∈ invTable`: `t x ∈ dom u` and `u (t x) = x`;
    * `sigmoid_sigmoidInv`            the converse direction for the anonymous `sigmoid_inv`;
    * `table_transform_ladj_ok`       every `ladj t = some e`: at every `x ∈ dom t`, `e` is defined at
                                      `(x, t x)`, `t` is differentiable at `x`, and
                                      `e(x, t x) = log |t'(x)|`  (`.sum()` on a scalar is the identity).
-/
import FunsorVerif.Model.C15Transform
import Mathlib.Analysis.SpecialFunctions.Sigmoid
import Mathlib.Analysis.SpecialFunctions.Artanh
import Mathlib.Analysis.SpecialFunctions.Trigonometric.DerivHyp
import Mathlib.Analysis.SpecialFunctions.Log.Deriv
import Mathlib.Tactic.Ring
import Mathlib.Tactic.Positivity
namespace FV.Props.C15.Transform
open FV.C15.Transform

/-- real-number reading of an expression at `(x, y) = (vx, vy)` -/
noncomputable def den (vx vy : ℝ) : E → ℝ
  | .x => vx
  | .y => vy
  | .lit n => (n : ℝ)
  | .neg a => - den vx vy a
  | .add a b => den vx vy a + den vx vy b
  | .sub a b => den vx vy a - den vx vy b
  | .mul a b => den vx vy a * den vx vy b
  | .div a b => den vx vy a / den vx vy b
  | .prim .exp a => Real.exp (den vx vy a)
  | .prim .log a => Real.log (den vx vy a)
  | .prim .log1p a => Real.log (1 + den vx vy a)
  | .prim .tanh a => Real.tanh (den vx vy a)
  | .prim .atanh a => Real.artanh (den vx vy a)

/-- the expression is evaluated inside the real domain of every primitive it calls -/
def Def (vx vy : ℝ) : E → Prop
  | .x => True
  | .y => True
  | .lit _ => True
  | .neg a => Def vx vy a
  | .add a b => Def vx vy a ∧ Def vx vy b
  | .sub a b => Def vx vy a ∧ Def vx vy b
  | .mul a b => Def vx vy a ∧ Def vx vy b
  | .div a b => Def vx vy a ∧ Def vx vy b ∧ den vx vy b ≠ 0
  | .prim .exp a => Def vx vy a
  | .prim .tanh a => Def vx vy a
  | .prim .log a => Def vx vy a ∧ 0 < den vx vy a
  | .prim .log1p a => Def vx vy a ∧ -1 < den vx vy a
  | .prim .atanh a => Def vx vy a ∧ -1 < den vx vy a ∧ den vx vy a < 1

/-- calling a body on argument expressions is composition of the readings -/
theorem den_subst (vx vy : ℝ) (ax ay e : E) :
    den vx vy (e.subst ax ay) = den (den vx vy ax) (den vx vy ay) e := by
  induction e with
  | prim p a ih => cases p <;> simp [E.subst, den, ih]
  | _ => simp_all [E.subst, den]

theorem def_subst (vx vy : ℝ) (ax ay e : E) (hx : Def vx vy ax) (hy : Def vx vy ay) :
    Def vx vy (e.subst ax ay) ↔ Def (den vx vy ax) (den vx vy ay) e := by
  induction e with
  | prim p a ih => cases p <;> simp [E.subst, Def, ih, den_subst]
  | _ => simp_all [E.subst, Def, den_subst]

/-- the real domain of each transform -/
def dom : T → ℝ → Prop
  | .exp, _ => True
  | .log, x => 0 < x
  | .tanh, _ => True
  | .atanh, x => -1 < x ∧ x < 1
  | .sigmoid, _ => True
  | .sigmoidInv, x => 0 < x ∧ x < 1

/-- value of the transform's body at `x` -/
noncomputable def val (t : T) (x : ℝ) : ℝ := den x 0 t.body

theorem val_sigmoid (x : ℝ) : val .sigmoid x = Real.sigmoid x := by
  simp [val, T.body, den, Real.sigmoid_def]

theorem body_defined_iff (t : T) (x : ℝ) : Def x 0 t.body ↔ dom t x := by
  cases t <;> simp [T.body, Def, dom, den]
  · exact (by positivity : (0 : ℝ) < 1 + Real.exp (-x)).ne'

/-! ## `set_inv` entries -/

/-- `t.set_inv(u)`: on `t`'s domain, `t x` lies in `u`'s domain and `u (t x) = x`. -/
def InvLaw (e : T × T) : Prop :=
  ∀ x : ℝ, dom e.1 x → dom e.2 (val e.1 x) ∧ val e.2 (val e.1 x) = x

theorem inv_exp_log : InvLaw (.exp, .log) := fun x _ => by
  simp [val, T.body, den, dom, Real.exp_pos]

theorem inv_log_exp : InvLaw (.log, .exp) := fun x hx => by
  simp only [dom] at hx
  simp [val, T.body, den, dom, Real.exp_log hx]

theorem inv_tanh_atanh : InvLaw (.tanh, .atanh) := fun x _ => by
  simp [val, T.body, den, dom, Real.artanh_tanh, Real.neg_one_lt_tanh, Real.tanh_lt_one]

theorem inv_atanh_tanh : InvLaw (.atanh, .tanh) := fun x hx => by
  simp only [dom] at hx
  simp [val, T.body, den, dom, Real.tanh_artanh (show x ∈ Set.Ioo (-1 : ℝ) 1 from hx)]

theorem log_sigmoid_neg (x : ℝ) : Real.log (Real.sigmoid (-x)) = Real.log (Real.sigmoid x) - x := by
  rw [← Real.sigmoid_mul_rexp_neg, Real.log_mul (Real.sigmoid_pos x).ne' (Real.exp_pos _).ne',
    Real.log_exp]
  ring

theorem inv_sigmoid_sigmoidInv : InvLaw (.sigmoid, .sigmoidInv) := fun x _ => by
  refine ⟨?_, ?_⟩
  · rw [val_sigmoid]; exact ⟨Real.sigmoid_pos x, Real.sigmoid_lt_one x⟩
  · rw [val_sigmoid]
    simp only [val, T.body, den]
    rw [← sub_eq_add_neg, ← Real.sigmoid_neg, log_sigmoid_neg]
    ring

/-- converse direction for the anonymous inverse: `sigmoid (sigmoid_inv y) = y` on (0, 1) -/
theorem sigmoid_sigmoidInv : InvLaw (.sigmoidInv, .sigmoid) := fun y hy => by
  simp only [dom] at hy
  refine ⟨trivial, ?_⟩
  rw [val_sigmoid]
  simp only [val, T.body, den, Real.sigmoid_def]
  have h1 : (0 : ℝ) < 1 + -y := by linarith [hy.2]
  rw [neg_sub, Real.exp_sub, Real.exp_log h1, Real.exp_log hy.1]
  have hy0 : y ≠ 0 := hy.1.ne'
  have h2 : 1 + (1 + -y) / y = y⁻¹ := by
    rw [inv_eq_one_div, eq_div_iff hy0, add_mul, div_mul_cancel₀ _ hy0]; ring
  rw [h2, inv_inv]

def invOk : T × T → Bool
  | (.exp, .log) | (.log, .exp) | (.tanh, .atanh) | (.atanh, .tanh)
  | (.sigmoid, .sigmoidInv) | (.sigmoidInv, .sigmoid) => true
  | _ => false

theorem invOk_sound (e : T × T) (h : invOk e = true) : InvLaw e := by
  rcases e with ⟨a, b⟩
  cases a <;> cases b <;> simp [invOk] at h
  exacts [inv_exp_log, inv_log_exp, inv_tanh_atanh, inv_atanh_tanh, inv_sigmoid_sigmoidInv,
    sigmoid_sigmoidInv]

/-- every `set_inv` entry of builtin.py is a true left inverse on the transform's real domain -/
theorem table_transform_inverses_ok : ∀ e ∈ invTable, InvLaw e := by
  intro e he
  apply invOk_sound
  revert e
  decide

example : ∃ x, dom .atanh x := ⟨0, by norm_num [dom]⟩
example : ∃ x, dom .sigmoidInv x := ⟨1 / 2, by norm_num [dom]⟩

/-! ## `set_log_abs_det_jacobian` entries -/

/-- `t.set_log_abs_det_jacobian(e)`: at every `x` of the domain `e` is defined at `(x, t x)`,
    `t` has a derivative `d` at `x`, and `e(x, t x) = log |d|`. -/
def LadjLaw (t : T) : Prop :=
  ∀ e, ladj t = some e → ∀ x : ℝ, dom t x →
    Def x (val t x) e ∧ ∃ d : ℝ, HasDerivAt (val t) d x ∧ den x (val t x) e = Real.log |d|

theorem def_softplus (vx vy : ℝ) (a : E) (h : Def vx vy a) : Def vx vy (softplus a) := by
  simp only [softplus, Def, den]
  exact ⟨⟨trivial, h⟩, by positivity⟩

theorem den_softplus (vx vy : ℝ) (a : E) :
    den vx vy (softplus a) = Real.log (1 + Real.exp (den vx vy a)) := by
  simp [softplus, den]

theorem def_ladjTanh (vx vy : ℝ) : Def vx vy ladjTanh := by
  simp only [ladjTanh, Def, den, true_and, and_true]
  exact ⟨by norm_num, def_softplus _ _ _ (by simp [Def])⟩

/-- the tanh jacobian formula is `log (1 / cosh² x)` -/
theorem den_ladjTanh (vx vy : ℝ) : den vx vy ladjTanh = Real.log (1 / Real.cosh vx ^ 2) := by
  have hc : Real.cosh vx = Real.exp vx * (1 + Real.exp (-(2 * vx))) / 2 := by
    rw [Real.cosh_eq, mul_add, ← Real.exp_add]
    congr 2
    · ring
    · congr 1; ring
  have hp : (0 : ℝ) < 1 + Real.exp (-(2 * vx)) := by positivity
  simp only [ladjTanh, den_softplus, den]
  rw [one_div, Real.log_inv, Real.log_pow, hc,
    Real.log_div (mul_pos (Real.exp_pos _) hp).ne' (by norm_num),
    Real.log_mul (Real.exp_pos _).ne' hp.ne', Real.log_exp]
  push_cast
  rw [neg_mul]
  ring

theorem hasDerivAt_tanh (x : ℝ) : HasDerivAt Real.tanh (1 / Real.cosh x ^ 2) x := by
  have h := (Real.hasDerivAt_sinh x).div (Real.hasDerivAt_cosh x) (Real.cosh_pos x).ne'
  have he : Real.tanh = fun y => Real.sinh y / Real.cosh y := funext Real.tanh_eq_sinh_div_cosh
  have hd : (Real.cosh x * Real.cosh x - Real.sinh x * Real.sinh x) / Real.cosh x ^ 2
      = 1 / Real.cosh x ^ 2 := by
    congr 1; nlinarith [Real.cosh_sq x]
  rw [he, ← hd]; exact h

theorem ladj_exp : LadjLaw .exp := by
  intro e he x _
  simp only [ladj, Option.some.injEq] at he
  subst he
  refine ⟨trivial, Real.exp x, ?_, ?_⟩
  · have : val .exp = Real.exp := by funext y; simp [val, T.body, den]
    rw [this]; exact Real.hasDerivAt_exp x
  · simp [den, abs_of_pos (Real.exp_pos x)]

theorem ladj_log : LadjLaw .log := by
  intro e he x hx
  simp only [ladj, Option.some.injEq] at he
  subst he
  simp only [dom] at hx
  refine ⟨trivial, x⁻¹, ?_, ?_⟩
  · have : val .log = Real.log := by funext y; simp [val, T.body, den]
    rw [this]; exact Real.hasDerivAt_log hx.ne'
  · simp [den, val, T.body, abs_inv, Real.log_inv]

theorem ladj_tanh : LadjLaw .tanh := by
  intro e he x _
  simp only [ladj, Option.some.injEq] at he
  subst he
  refine ⟨def_ladjTanh _ _, 1 / Real.cosh x ^ 2, ?_, ?_⟩
  · have : val .tanh = Real.tanh := by funext y; simp [val, T.body, den]
    rw [this]; exact hasDerivAt_tanh x
  · rw [den_ladjTanh, abs_of_pos (by positivity)]

theorem ladj_sigmoid : LadjLaw .sigmoid := by
  intro e he x _
  simp only [ladj, Option.some.injEq] at he
  subst he
  refine ⟨?_, Real.sigmoid x * (1 - Real.sigmoid x), ?_, ?_⟩
  · exact ⟨def_softplus _ _ _ (by simp [Def]), def_softplus _ _ _ (by simp [Def])⟩
  · have : val .sigmoid = Real.sigmoid := funext val_sigmoid
    rw [this]; exact Real.hasDerivAt_sigmoid x
  · have h1 : (0 : ℝ) < 1 + Real.exp (-x) := by positivity
    have h2 : (0 : ℝ) < 1 + Real.exp x := by positivity
    rw [← Real.sigmoid_neg, abs_of_pos (mul_pos (Real.sigmoid_pos _) (Real.sigmoid_pos _)),
      Real.log_mul (Real.sigmoid_pos _).ne' (Real.sigmoid_pos _).ne']
    simp only [den, den_softplus, Real.sigmoid_def, neg_neg, Real.log_inv]
    ring

/-- derivative of `artanh` on (-1, 1) (not in this Mathlib): `1 / (1 - x²)` -/
theorem hasDerivAt_artanh (x : ℝ) (h1 : -1 < x) (h2 : x < 1) :
    HasDerivAt Real.artanh (1 / (1 - x ^ 2)) x := by
  have ha : (0 : ℝ) < 1 + x := by linarith
  have hb : (0 : ℝ) < 1 - x := by linarith
  have hg : HasDerivAt (fun y : ℝ => 1 / 2 * (Real.log (1 + y) - Real.log (1 - y)))
      (1 / 2 * (1 / (1 + x) - (-1) / (1 - x))) x := by
    have d1 : HasDerivAt (fun y : ℝ => 1 + y) 1 x := by
      simpa using (hasDerivAt_id x).const_add 1
    have d2 : HasDerivAt (fun y : ℝ => 1 - y) (-1) x := by
      simpa using (hasDerivAt_id x).const_sub 1
    exact ((d1.log ha.ne').sub (d2.log hb.ne')).const_mul _
  have hd : (1 / 2 * (1 / (1 + x) - (-1) / (1 - x)) : ℝ) = 1 / (1 - x ^ 2) := by
    have : (1 - x ^ 2 : ℝ) = (1 + x) * (1 - x) := by ring
    rw [this]; field_simp; ring
  rw [hd] at hg
  refine hg.congr_of_eventuallyEq ?_
  have hopen : Set.Ioo (-1 : ℝ) 1 ∈ nhds x := Ioo_mem_nhds h1 h2
  filter_upwards [hopen] with y hy
  have hy1 : (0 : ℝ) < 1 + y := by linarith [hy.1]
  have hy2 : (0 : ℝ) < 1 - y := by linarith [hy.2]
  rw [Real.artanh_eq_half_log ⟨hy.1.le, hy.2.le⟩, Real.log_div hy1.ne' hy2.ne']

theorem ladj_atanh : LadjLaw .atanh := by
  intro e he x hx
  simp only [ladj, Option.some.injEq] at he
  subst he
  simp only [dom] at hx
  have hv : val .atanh = Real.artanh := by funext y; simp [val, T.body, den]
  have hq : (0 : ℝ) < 1 - x ^ 2 := by nlinarith [hx.1, hx.2]
  refine ⟨?_, 1 / (1 - x ^ 2), ?_, ?_⟩
  · show Def _ _ (ladjTanh.subst .y .x)
    rw [def_subst x (val .atanh x) .y .x ladjTanh (by simp [Def]) (by simp [Def])]; exact def_ladjTanh _ _
  · rw [hv]; exact hasDerivAt_artanh x hx.1 hx.2
  · simp only [den, den_subst, den_ladjTanh, hv]
    rw [Real.cosh_artanh (show x ∈ Set.Ioo (-1 : ℝ) 1 from hx), abs_of_pos (by positivity),
      div_pow, one_pow, Real.sq_sqrt hq.le, one_div_one_div, one_div, Real.log_inv]

/-- every `set_log_abs_det_jacobian` entry of builtin.py is `log |dt/dx|` on the transform's domain -/
theorem table_transform_ladj_ok : ∀ t : T, LadjLaw t := by
  intro t
  cases t
  exacts [ladj_exp, ladj_log, ladj_tanh, ladj_atanh, ladj_sigmoid, fun e he => by simp [ladj] at he]

/-- the law is not vacuous: each transform with a jacobian has a non-empty domain -/
example : ∀ t : T, ∃ x, dom t x := fun t => by
  cases t
  exacts [⟨0, trivial⟩, ⟨1, by norm_num [dom]⟩, ⟨0, trivial⟩, ⟨0, by norm_num [dom]⟩, ⟨0, trivial⟩,
    ⟨1 / 2, by norm_num [dom]⟩]

end FV.Props.C15.Transform
