/-
  Props/C15/Units.lean — obligation over the GENERATED table `Gen.units` (= funsor.ops.UNITS):
  every published unit is a two-sided neutral element of its op on the op's ideal carrier.
  Fails to elaborate as soon as /repo publishes an entry outside the proved catalogue
  (e.g. the pinned tree's `UNITS[and_] = False`).
-/
import FunsorVerif.Props.C15.Laws
import FunsorVerif.Gen.C15OpTables
namespace FV.Props.C15
open FV.C15

theorem table_units_ok : ∀ e ∈ Gen.units, UnitLaw e := by
  intro e he
  apply unitOk_sound
  have h : Gen.units.all unitOk = true := by decide
  exact List.all_eq_true.mp h e he

/-- every op has at most one published unit (the generated list has no duplicate key) -/
theorem table_units_functional : (Gen.units.map (fun e => e.1.name)).Nodup := by decide

example : (Op.and_, UVal.tt) ∈ Gen.units := by decide

end FV.Props.C15
