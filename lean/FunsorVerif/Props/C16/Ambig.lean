/-
  Props/C16/Ambig.lean — ambiguity-freedom of every generated dispatcher table, fail-closed.

  `hiddenAmbiguities` finds every pair of registered signatures that may accept a common tuple of
  argument types (`sigOverlap`, conservative) while neither supercedes the other and no third
  signature refines both — including the pairs multipledispatch's own check misses because its
  `consistent` only looks at slot-wise subclass comparability.  For such a pair no matching rule is
  "at least as specific as every other matching pattern", so the property fails on the overlap.

  The obligation: over ALL live registries there is no such pair, except pairs carrying the
  fingerprint of the open finding KF-precondition-ambiguous-patterns (dispatcher name and the two rule
  functions).  Any newly registered ambiguous pair anywhere else breaks this theorem.
-/
import FunsorVerif.Model.C16
import FunsorVerif.Gen.C16Table
import FunsorVerif.Gen.C16Reg
import FunsorVerif.Props.C16.Reg
import FunsorVerif.Props.C16.Trans
namespace FV.Props.C16
open FV.C16 FV.Gen.C16

/-- fingerprint of KF-precondition-ambiguous-patterns -/
def listedAmbiguity (d : DTab) (p : Nat × Nat) : Bool :=
  d.name == "funsor.precondition.Precondition[Approximate]" &&
  match d.rules[p.1]?, d.rules[p.2]? with
  | some r1, some r2 =>
    (r1 == "funsor.precondition.precondition_approximate_contraction" &&
      r2 == "funsor.precondition.precondition_approximate_gaussian_mixture") ||
    (r2 == "funsor.precondition.precondition_approximate_contraction" &&
      r1 == "funsor.precondition.precondition_approximate_gaussian_mixture")
  | _, _ => false

theorem reg_no_unlisted_ambiguity :
    dispatchers.all (fun d => (hiddenAmbiguities E₀ d.sigs).all (listedAmbiguity d)) = true := by
  decide +kernel

/-- each table carries one rule name per signature (so the fingerprint above reads the right rows) -/
theorem reg_rules_aligned : dispatchers.all (fun d => d.rules.length == d.sigs.length) = true := by
  decide +kernel

/-- the overlap test is not vacuous: it flags a textbook ambiguous pair `(A, object)` / `(object, A)`
    and is silenced by the refinement `(A, A)`. -/
example :
    hiddenAmbiguities Eex [[.one ⟨true, .cls 3⟩, .one ⟨true, .any⟩], [.one ⟨true, .any⟩, .one ⟨true, .cls 3⟩]] = [(0, 1)] ∧
    hiddenAmbiguities Eex [[.one ⟨true, .cls 3⟩, .one ⟨true, .any⟩], [.one ⟨true, .any⟩, .one ⟨true, .cls 3⟩],
      [.one ⟨true, .cls 3⟩, .one ⟨true, .cls 3⟩]] = [] := by decide

/-- leaf 0 = object, 3 = an op class, 10 = Funsor, 11 = Number, 12 = Tensor (funsor classes below Funsor) -/
def Eex2 : Env :=
  { L := fun a b => a == b || b == 0 || (b == 10 && (a == 11 || a == 12)), kTuple := 1, kFs := 2,
    isFn := fun k => k ≥ 10, raisesNonClass := fun _ => true, kVar := 99 }

/-- The observation of the C16_2 seeding agent, in the model: a *top-level* `Union[Number, Tensor]`
    pattern is wrapped by `typing_wrap`, and `issubclass(typing_wrap[Union[..]], Funsor)` is False although
    `Union[Number, Tensor] ≤ Funsor` in `deep_issubclass`; so `(Op, Union[Number,Tensor], Funsor)` and
    `(Op, Funsor, Funsor)` are mutually non-superseding.  No live registry contains such an element
    (`reg_no_toplevel_union`); if one is registered next to a bare-class pattern, `hiddenAmbiguities`
    reports the pair and `reg_no_unlisted_ambiguity` breaks. -/
theorem toplevel_union_pattern_is_flagged :
    sub Eex2 true (.union [.fn 11 [], .fn 12 []]) (.fn 10 []) = true ∧
    supercedes Eex2 [.one ⟨true, .cls 3⟩, .one ⟨true, .union [.fn 11 [], .fn 12 []]⟩, .one ⟨false, .fn 10 []⟩]
                    [.one ⟨true, .cls 3⟩, .one ⟨false, .fn 10 []⟩, .one ⟨false, .fn 10 []⟩] = false ∧
    hiddenAmbiguities Eex2
      [[.one ⟨true, .cls 3⟩, .one ⟨true, .union [.fn 11 [], .fn 12 []]⟩, .one ⟨false, .fn 10 []⟩],
       [.one ⟨true, .cls 3⟩, .one ⟨false, .fn 10 []⟩, .one ⟨false, .fn 10 []⟩]] = [(0, 1)] := by decide

end FV.Props.C16
