/-
  Props/C16/Basic.lean — structural equality on type expressions is equality (`cls is subcls`),
  and equality of dispatch keys.
-/
import FunsorVerif.Model.C16
namespace FV.Props.C16
open FV.C16

mutual
theorem beq_eq : ∀ (a b : Ty), a.beq b = true → a = b
  | .any, b => by cases b <;> simp [Ty.beq]
  | .cls k, b => by cases b <;> simp [Ty.beq]
  | .tupB, b => by cases b <;> simp [Ty.beq]
  | .fsB, b => by cases b <;> simp [Ty.beq]
  | .tup xs, b => by
      cases b <;> simp [Ty.beq]
      exact beqL_eq xs _
  | .union xs, b => by
      cases b <;> simp [Ty.beq]
      exact beqL_eq xs _
  | .tupV x, b => by
      cases b <;> simp [Ty.beq]
      exact beq_eq x _
  | .fs x, b => by
      cases b <;> simp [Ty.beq]
      exact beq_eq x _
  | .fn k xs, b => by
      cases b <;> simp [Ty.beq]
      intro h1 h2
      exact ⟨h1, beqL_eq xs _ h2⟩
theorem beqL_eq : ∀ (xs ys : List Ty), Ty.beqL xs ys = true → xs = ys
  | [], ys => by cases ys <;> simp [Ty.beqL]
  | x :: xs, ys => by
      cases ys with
      | nil => simp [Ty.beqL]
      | cons y ys =>
        simp [Ty.beqL]
        intro h1 h2
        exact ⟨beq_eq x y h1, beqL_eq xs ys h2⟩
end

mutual
theorem beq_refl : ∀ (a : Ty), a.beq a = true
  | .any | .tupB | .fsB => by simp [Ty.beq]
  | .cls k => by simp [Ty.beq]
  | .tup xs => by simp [Ty.beq]; exact beqL_refl xs
  | .union xs => by simp [Ty.beq]; exact beqL_refl xs
  | .tupV x => by simp [Ty.beq]; exact beq_refl x
  | .fs x => by simp [Ty.beq]; exact beq_refl x
  | .fn k xs => by simp [Ty.beq]; exact beqL_refl xs
theorem beqL_refl : ∀ (xs : List Ty), Ty.beqL xs xs = true
  | [] => by simp [Ty.beqL]
  | x :: xs => by simp [Ty.beqL]; exact ⟨beq_refl x, beqL_refl xs⟩
end

theorem beq_iff (a b : Ty) : a.beq b = true ↔ a = b :=
  ⟨beq_eq a b, fun h => h ▸ beq_refl a⟩

theorem alt_beq_eq (a b : Alt) : a.beq b = true → a = b := by
  cases a; cases b
  simp [Alt.beq]
  intro h1 h2
  exact ⟨h1, beq_eq _ _ h2⟩

theorem slot_beq_eq (a b : Slot) : a.beq b = true → a = b := by
  cases a <;> cases b <;> simp [Slot.beq]
  exact alt_beq_eq _ _

/-- a cache / `funcs` key hit means the very same tuple of types. -/
theorem sigKeyEq_eq : ∀ (xs ys : List Slot), sigKeyEq xs ys = true → xs = ys
  | [], ys => by cases ys <;> simp [sigKeyEq]
  | x :: xs, ys => by
      cases ys with
      | nil => simp [sigKeyEq]
      | cons y ys =>
        simp [sigKeyEq]
        intro h1 h2
        exact ⟨slot_beq_eq x y h1, sigKeyEq_eq xs ys h2⟩

end FV.Props.C16
