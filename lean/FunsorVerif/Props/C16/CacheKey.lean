/-
  Props/C16/CacheKey.lean — the memo cache of `PartialDispatcher.partial_call` is keyed by an expression
  the source builds from the arguments.  `callK_eq_dispatch`: for ANY key function that determines the
  deep types (injective on type tuples) the cached entry point answers `dispatch`; the key the pinned
  source builds (regenerated into Gen/C16Key.lean from the AST of funsor/registry.py on every run) is
  such a function (`cache_key_determines_types`); the "key frozensets by the bare class" variant is not,
  and a two-call history then returns a stale rule (`cache_key_bare_frozenset_witness`).
-/
import FunsorVerif.Model.C16
import FunsorVerif.Gen.C16Table
import FunsorVerif.Gen.C16Key
import FunsorVerif.Props.C16.Dispatch
import FunsorVerif.Props.C16.Trans
namespace FV.Props.C16
open FV.C16

section
variable (E : Env) (keyf : List Slot → List Slot)

/-- every memoised entry was stored for some type tuple with that key, and is its dispatch -/
def CoherentK (d : Disp) : Prop :=
  ∀ k v, (k, v) ∈ d.cache → ∃ t, keyf t = k ∧ dispatch E d.sigs d.order t = .found v

theorem callK_eq_dispatch (hinj : ∀ t1 t2, keyf t1 = keyf t2 → t1 = t2)
    (d : Disp) (types : List Slot) (h : CoherentK E keyf d) :
    (d.callK E keyf types).1 = dispatch E d.sigs d.order types ∧ CoherentK E keyf (d.callK E keyf types).2 ∧
    (d.callK E keyf types).2.sigs = d.sigs ∧ (d.callK E keyf types).2.order = d.order := by
  unfold Disp.callK
  cases hl : cacheLookup (keyf types) d.cache with
  | some i =>
    simp only
    obtain ⟨t, hk, hd⟩ := h _ _ (cacheLookup_mem _ _ _ hl)
    have := hinj _ _ hk
    subst this
    exact ⟨hd.symm, h, (by first | rfl | trivial), (by first | rfl | trivial)⟩
  | none =>
    simp only
    cases hd : dispatch E d.sigs d.order types with
    | found i =>
      simp only
      refine ⟨(by first | rfl | trivial), ?_, (by first | rfl | trivial), (by first | rfl | trivial)⟩
      intro k v hkv
      simp only at hkv
      rcases List.mem_cons.mp hkv with heq | hkv
      · cases heq; exact ⟨types, rfl, hd⟩
      · exact h k v hkv
    | none => exact ⟨(by first | rfl | trivial), h, (by first | rfl | trivial), (by first | rfl | trivial)⟩
    | raised => exact ⟨(by first | rfl | trivial), h, (by first | rfl | trivial), (by first | rfl | trivial)⟩

/-- a whole history of calls through the keyed cache -/
def runK : Disp → List (List Slot) → List (DRes × List Slot)
  | _, [] => []
  | d, t :: rest => ((d.callK E keyf t).1, t) :: runK (d.callK E keyf t).2 rest

theorem runK_history_free (hinj : ∀ t1 t2, keyf t1 = keyf t2 → t1 = t2) :
    ∀ (ts : List (List Slot)) (d : Disp), CoherentK E keyf d →
      ∀ r ∈ runK E keyf d ts, r.1 = dispatch E d.sigs d.order r.2 := by
  intro ts
  induction ts with
  | nil => intro d _ r hr; simp [runK] at hr
  | cons t rest ih =>
    intro d hd r hr
    simp only [runK] at hr
    obtain ⟨h1, h2, h3, h4⟩ := callK_eq_dispatch E keyf hinj d t hd
    rcases List.mem_cons.mp hr with rfl | hr
    · exact h1
    · have := ih _ h2 r hr
      rw [h3, h4] at this; exact this

theorem map_id_of_forall {α} (f : α → α) : ∀ (l : List α), (∀ x, f x = x) → l.map f = l
  | [], _ => rfl
  | x :: xs, h => by simp [h x, map_id_of_forall f xs h]

/-- the recognised injective forms are the identity on type tuples -/
theorem keyFn_id (form : KeyForm) (h : form.injective = true) (ts : List Slot) : keyFn E form ts = ts := by
  cases form with
  | deepTypes => rfl
  | other => simp [KeyForm.injective] at h
  | perArg cases =>
    simp only [KeyForm.injective, List.isEmpty_iff] at h
    subst h
    simp only [keyFn]
    apply map_id_of_forall
    intro s
    cases s with
    | one a => cases a; simp
    | var _ => rfl

theorem keyFn_injective (form : KeyForm) (h : form.injective = true) :
    ∀ t1 t2, keyFn E form t1 = keyFn E form t2 → t1 = t2 := by
  intro t1 t2 he
  rw [keyFn_id E form h, keyFn_id E form h] at he; exact he

end

open FV.Gen.C16 in
/-- **`cache_key_determines_types`** — obligation over the generated source form of the key: the
    expression `partial_call` uses for `self._cache[...]` (lookup and store alike) determines the deep
    types of the arguments, and a miss is resolved from those deep types. -/
theorem cache_key_determines_types :
    (cacheKeyForm.injective && cacheLookupStoreSameKey && cacheMissUsesDeepTypes) = true := by decide

open FV.Gen.C16 in
theorem live_cache_key_injective :
    ∀ t1 t2, keyFn table.env cacheKeyForm t1 = keyFn table.env cacheKeyForm t2 → t1 = t2 := by
  have h := cache_key_determines_types
  simp only [Bool.and_eq_true] at h
  exact keyFn_injective table.env cacheKeyForm h.1.1

open FV.Gen.C16 in
/-- hence the cached entry point of the live code is history free -/
theorem live_partial_call_history_free (ts : List (List Slot)) (d : Disp)
    (hd : CoherentK table.env (keyFn table.env cacheKeyForm) d) :
    ∀ r ∈ runK table.env (keyFn table.env cacheKeyForm) d ts, r.1 = dispatch table.env d.sigs d.order r.2 :=
  runK_history_free table.env _ live_cache_key_injective ts d hd

/-- **witness**: keying every frozenset argument by the bare class (`Eex`: leaf 2 = frozenset) identifies
    `FrozenSet[A]` and `FrozenSet[B]`; after dispatching the first, the second gets the first one's rule. -/
theorem cache_key_bare_frozenset_witness :
    let keyf := keyFn Eex (.perArg [(2, 2)])
    let sigs : List Sig := [[.var [⟨true, .any⟩]], [.one ⟨true, .fs (.cls 3)⟩], [.one ⟨true, .fs (.cls 4)⟩]]
    let d0 : Disp := { sigs := sigs, order := [1, 2, 0], cache := [] }
    let tA : List Slot := [.one ⟨true, .fs (.cls 3)⟩]
    let tB : List Slot := [.one ⟨true, .fs (.cls 4)⟩]
    sigKeyEq (keyf tA) (keyf tB) = true ∧ sigKeyEq tA tB = false ∧
    (d0.callK Eex keyf tA).1 = .found 1 ∧
    ((d0.callK Eex keyf tA).2.callK Eex keyf tB).1 = .found 1 ∧
    dispatch Eex sigs [1, 2, 0] tB = .found 2 := by decide

/-! ### registrations interleaved with dispatches -/

section
variable (E : Env)

/-- a history of registrations and calls through `addC clears` -/
def runC (clears : Bool) (ord : List Sig → List Nat) : Disp → List Op → List (DRes × List Sig × List Nat × List Slot)
  | _, [] => []
  | d, .call t :: rest => ((d.call E t).1, d.sigs, d.order, t) :: runC clears ord (d.call E t).2 rest
  | d, .add s :: rest => runC clears ord (d.addC clears ord s) rest

theorem addC_coherent (ord : List Sig → List Nat) (d : Disp) (s : Sig) : Coherent E (d.addC true ord s) := by
  intro k v h
  simp [Disp.addC] at h

/-- **dispatch after add = dispatch on the extended table**: when `add` clears the cache, along every
    interleaving of registrations and calls each call answers `dispatch` of the table registered SO FAR
    (for argument types seen before a registration and fresh ones alike). -/
theorem runC_history_free (ord : List Sig → List Nat) :
    ∀ (ops : List Op) (d : Disp), Coherent E d →
      ∀ r ∈ runC E true ord d ops, r.1 = dispatch E r.2.1 r.2.2.1 r.2.2.2 := by
  intro ops
  induction ops with
  | nil => intro d _ r hr; simp [runC] at hr
  | cons op rest ih =>
    intro d hd r hr
    cases op with
    | call t =>
      simp only [runC] at hr
      obtain ⟨h1, h2, _, _⟩ := call_eq_dispatch E d t hd
      rcases List.mem_cons.mp hr with rfl | hr
      · exact h1
      · exact ih _ h2 r hr
    | add s =>
      simp only [runC] at hr
      exact ih _ (addC_coherent E ord d s) r hr

end

open FV.Gen.C16 in
/-- **obligation over the generated source form of `PartialDispatcher.add`**: a registration clears the
    per-dispatcher cache (by delegating to `Dispatcher.add`, which does, or by itself). -/
theorem add_clears_cache : addClearsCache = true := by decide

open FV.Gen.C16 in
/-- hence the live `add`/`partial_call` pair is history free over registrations too -/
theorem live_register_dispatch_history_free (ord : List Sig → List Nat) (ops : List Op) (d : Disp)
    (hd : Coherent table.env d) :
    ∀ r ∈ runC table.env addClearsCache ord d ops, r.1 = dispatch table.env r.2.1 r.2.2.1 r.2.2.2 := by
  rw [add_clears_cache]; exact runC_history_free table.env ord ops d hd

/-- **witness**: an `add` that keeps the cache.  `int` is dispatched (default rule 0), then the pattern
    `int` is registered, then `int` is dispatched again: the stale default is returned although the
    extended table gives the new rule; a type not seen before (`float`, leaf 4) gets the right answer. -/
theorem add_keeping_cache_witness :
    let ord : List Sig → List Nat := fun sigs => (List.range sigs.length).reverse
    let d0 : Disp := { sigs := [[.var [⟨true, .any⟩]]], order := [0], cache := [] }
    let tInt : List Slot := [.one ⟨true, .cls 3⟩]
    let d1 := (d0.call Eex tInt).2
    let d2 := d1.addC false ord [.one ⟨true, .cls 3⟩]
    (d0.call Eex tInt).1 = .found 0 ∧ (d2.call Eex tInt).1 = .found 0 ∧
    dispatch Eex d2.sigs d2.order tInt = .found 1 ∧
    ((d1.addC true ord [.one ⟨true, .cls 3⟩]).call Eex tInt).1 = .found 1 := by decide

/-! ### patterns of an op class created after import -/

/-- patterns copied into a new op class: the `subclass_register`ed patterns (`own k`) of every class of the
    iterated list, bases first -/
def classPatterns (own : Nat → List Sig) (iterated : List Nat) : List Sig := iterated.reverse.flatMap own

/-- iterating the whole MRO, every pattern registered on ANY ancestor reaches the new class -/
theorem classPatterns_complete (own : Nat → List Sig) (mro : List Nat) (k : Nat) (p : Sig)
    (hk : k ∈ mro) (hp : p ∈ own k) : p ∈ classPatterns own mro := by
  simp only [classPatterns, List.mem_flatMap, List.mem_reverse]
  exact ⟨k, hk, hp⟩

open FV.Gen.C16 in
/-- **obligation over the generated source form of `OpMeta.__init__`**: it iterates `inspect.getmro(cls)`
    and reads each class's `_subclass_registry` -/
theorem opmeta_inherits_whole_mro : opMetaIteratesWholeMro = true := by decide

/-- witness: iterating only the direct bases (class 2 ⊂ 1 ⊂ 0, the pattern is registered on 0) loses it -/
theorem classPatterns_bases_only_witness :
    let own : Nat → List Sig := fun k => if k == 0 then [[.one ⟨false, .fn 10 []⟩]] else []
    (classPatterns own [2, 1, 0]).length = 1 ∧ (classPatterns own [1]).length = 0 := by decide

end FV.Props.C16
