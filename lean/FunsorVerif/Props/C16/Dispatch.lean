/-
  Props/C16/Dispatch.lean — order-theoretic part of C16.

  * `first_match_minimal`   for ANY ordering that never places a signature after one that strictly
                            supercedes it (a linear extension of multipledispatch's `edge` relation,
                            whatever the hash tie-breaks were), the first matching signature is not
                            strictly less specific than any other matching signature;
  * `first_match_least_unique`  if the matching signatures have a least element, every such ordering
                            returns a signature equivalent to it (the choice is a function of the
                            signature set and the argument types);
  * `call_eq_dispatch`, `run_history_free`  `partial_call` with its `_cache`, for every history of
                            calls and registrations, answers exactly `dispatch` on the current table.
-/
import FunsorVerif.Model.C16
import FunsorVerif.Props.C16.Basic
namespace FV.Props.C16
open FV.C16

variable (E : Env)

/-- signature `j` accepts the argument types -/
def Matches (sigs : List Sig) (types : List Slot) (j : Nat) : Prop :=
  ∃ s, sigs[j]? = some s ∧ matchSigE E types s = .t

/-- signature `j` is strictly more specific than signature `i` -/
def Strict (sigs : List Sig) (j i : Nat) : Prop :=
  ∃ sj si, sigs[j]? = some sj ∧ sigs[i]? = some si ∧
    supercedes E sj si = true ∧ supercedes E si sj = false

theorem first_match_minimal (sigs : List Sig) (types : List Slot) :
    ∀ (order : List Nat) (i : Nat), isLinExt E sigs order = true →
      firstMatchE E sigs types order = .found i →
      i ∈ order ∧ Matches E sigs types i ∧
      ∀ j, j ∈ order → Matches E sigs types j → ¬ Strict E sigs j i := by
  intro order
  induction order with
  | nil => intro i _ h; simp [firstMatchE] at h
  | cons k rest ih =>
    intro i hlin hfm
    simp only [isLinExt, Bool.and_eq_true, List.all_eq_true] at hlin
    obtain ⟨hk, hrest⟩ := hlin
    have recurse : firstMatchE E sigs types rest = .found i →
        (∀ s, sigs[k]? = some s → matchSigE E types s ≠ .t) →
        i ∈ k :: rest ∧ Matches E sigs types i ∧
          ∀ j, j ∈ k :: rest → Matches E sigs types j → ¬ Strict E sigs j i := by
      intro h hno
      obtain ⟨h1, h2, h3⟩ := ih i hrest h
      refine ⟨List.mem_cons_of_mem _ h1, h2, ?_⟩
      intro j hj hm
      rcases List.mem_cons.mp hj with rfl | hj
      · obtain ⟨s, hs, hms⟩ := hm
        exact absurd hms (hno s hs)
      · exact h3 j hj hm
    unfold firstMatchE at hfm
    cases hsk : sigs[k]? with
    | none =>
      rw [hsk] at hfm
      exact recurse hfm (by intro s hs; rw [hsk] at hs; cases hs)
    | some sk =>
      rw [hsk] at hfm
      simp only at hfm
      cases hm : matchSigE E types sk with
      | e => rw [hm] at hfm; cases hfm
      | f =>
        rw [hm] at hfm
        exact recurse hfm (by intro s hs; rw [hsk] at hs; cases hs; rw [hm]; decide)
      | t =>
        rw [hm] at hfm
        cases hfm
        refine ⟨List.mem_cons_self, ⟨sk, hsk, hm⟩, ?_⟩
        intro j hj _ hstrict
        obtain ⟨sj, si, hsj, hsi, h1, h2⟩ := hstrict
        rw [hsk] at hsi; cases hsi
        rcases List.mem_cons.mp hj with rfl | hj
        · rw [hsk] at hsj; cases hsj; rw [h1] at h2; cases h2
        · have := hk j hj
          rw [hsk, hsj] at this
          simp [h1, h2] at this

/-- non-vacuity of `first_match_minimal`: a two-signature table with `Variadic[Any]` last. -/
example : ∃ E sigs types order i, isLinExt E sigs order = true ∧
    firstMatchE E sigs types order = .found i := by
  refine ⟨{ L := fun a b => a == b, kTuple := 0, kFs := 1, isFn := fun _ => false,
            raisesNonClass := fun _ => true, kVar := 9 },
          [[.var [⟨true, .any⟩]], [.one ⟨true, .cls 2⟩]], [.one ⟨true, .cls 2⟩], [1, 0], 1, ?_, ?_⟩ <;> decide

/-- If some matching signature `m` is at least as specific as every matching signature, any admissible
    ordering picks a signature that is equivalent to `m` (each supercedes the other): the result
    does not depend on the ordering beyond equivalence. -/
theorem first_match_least_unique (sigs : List Sig) (types : List Slot) (order : List Nat) (i m : Nat)
    (hlin : isLinExt E sigs order = true) (hfm : firstMatchE E sigs types order = .found i)
    (hm : m ∈ order) (hmm : Matches E sigs types m)
    (hleast : ∀ j, Matches E sigs types j →
      ∃ sm sj, sigs[m]? = some sm ∧ sigs[j]? = some sj ∧ supercedes E sm sj = true) :
    ∃ sm si, sigs[m]? = some sm ∧ sigs[i]? = some si ∧
      supercedes E sm si = true ∧ supercedes E si sm = true := by
  obtain ⟨_, hmi, hmin⟩ := first_match_minimal E sigs types order i hlin hfm
  obtain ⟨sm, si, h1, h2, h3⟩ := hleast i hmi
  refine ⟨sm, si, h1, h2, h3, ?_⟩
  cases h : supercedes E si sm with
  | true => rfl
  | false => exact absurd ⟨sm, si, h1, h2, h3, h⟩ (hmin m hm hmm)

/-- two admissible orderings (e.g. from two processes with different hashes) give equivalent
    signatures whenever the matching set has a least element. -/
theorem dispatch_order_independent (sigs : List Sig) (types : List Slot) (o1 o2 : List Nat) (i1 i2 m : Nat)
    (h1 : isLinExt E sigs o1 = true) (h2 : isLinExt E sigs o2 = true)
    (f1 : firstMatchE E sigs types o1 = .found i1) (f2 : firstMatchE E sigs types o2 = .found i2)
    (hm1 : m ∈ o1) (hm2 : m ∈ o2) (hmm : Matches E sigs types m)
    (hleast : ∀ j, Matches E sigs types j →
      ∃ sm sj, sigs[m]? = some sm ∧ sigs[j]? = some sj ∧ supercedes E sm sj = true) :
    ∃ sm s1 s2, sigs[m]? = some sm ∧ sigs[i1]? = some s1 ∧ sigs[i2]? = some s2 ∧
      supercedes E s1 sm = true ∧ supercedes E sm s1 = true ∧
      supercedes E s2 sm = true ∧ supercedes E sm s2 = true := by
  obtain ⟨sm, s1, a1, a2, a3, a4⟩ := first_match_least_unique E sigs types o1 i1 m h1 f1 hm1 hmm hleast
  obtain ⟨sm', s2, b1, b2, b3, b4⟩ := first_match_least_unique E sigs types o2 i2 m h2 f2 hm2 hmm hleast
  rw [a1] at b1; cases b1
  exact ⟨sm, s1, s2, a1, a2, b2, a4, a3, b4, b3⟩

/-! ### the memo cache -/

/-- every memoised entry is what `dispatch` answers on the current table -/
def Coherent (d : Disp) : Prop :=
  ∀ k v, (k, v) ∈ d.cache → dispatch E d.sigs d.order k = .found v

theorem cacheLookup_mem : ∀ (c : List (List Slot × Nat)) (types : List Slot) (v : Nat),
    cacheLookup types c = some v → (types, v) ∈ c := by
  intro c
  induction c with
  | nil => intro t v h; simp [cacheLookup] at h
  | cons kv rest ih =>
    intro t v h
    obtain ⟨k, w⟩ := kv
    simp only [cacheLookup] at h
    split at h
    · rename_i hk
      cases h
      have := sigKeyEq_eq _ _ hk
      subst this
      exact List.mem_cons_self
    · exact List.mem_cons_of_mem _ (ih t v h)

/-- `partial_call` returns what `dispatch` returns, and keeps the cache coherent. -/
theorem call_eq_dispatch (d : Disp) (types : List Slot) (h : Coherent E d) :
    (d.call E types).1 = dispatch E d.sigs d.order types ∧ Coherent E (d.call E types).2 ∧
    (d.call E types).2.sigs = d.sigs ∧ (d.call E types).2.order = d.order := by
  unfold Disp.call
  cases hl : cacheLookup types d.cache with
  | some i =>
    simp only
    exact ⟨(h _ _ (cacheLookup_mem _ _ _ hl)).symm, h, (by first | rfl | trivial), (by first | rfl | trivial)⟩
  | none =>
    simp only
    cases hd : dispatch E d.sigs d.order types with
    | found i =>
      simp only
      refine ⟨(by first | rfl | trivial), ?_, (by first | rfl | trivial), (by first | rfl | trivial)⟩
      intro k v hkv
      simp only at hkv
      rcases List.mem_cons.mp hkv with heq | hkv
      · cases heq; exact hd
      · exact h k v hkv
    | none => exact ⟨(by first | rfl | trivial), h, (by first | rfl | trivial), (by first | rfl | trivial)⟩
    | raised => exact ⟨(by first | rfl | trivial), h, (by first | rfl | trivial), (by first | rfl | trivial)⟩

/-- registering a rule clears the cache: coherent whatever the state was. -/
theorem add_coherent (ord : List Sig → List Nat) (d : Disp) (s : Sig) : Coherent E (d.add ord s) := by
  intro k v h
  simp [Disp.add] at h

/-- a history: calls and registrations in any order -/
inductive Op where
  | call (types : List Slot)
  | add (s : Sig)

def run (ord : List Sig → List Nat) : Disp → List Op → List (DRes × List Sig × List Nat × List Slot)
  | _, [] => []
  | d, .call t :: rest => ((d.call E t).1, d.sigs, d.order, t) :: run ord (d.call E t).2 rest
  | d, .add s :: rest => run ord (d.add ord s) rest

/-- `dispatch_history_free`: along every history (starting from any coherent state, e.g. the empty
    cache), each call's answer is `dispatch` of the table at that moment on that call's types —
    independent of earlier dispatches and of the cache contents. -/
theorem run_history_free (ord : List Sig → List Nat) :
    ∀ (ops : List Op) (d : Disp), Coherent E d →
      ∀ r ∈ run E ord d ops, r.1 = dispatch E r.2.1 r.2.2.1 r.2.2.2 := by
  intro ops
  induction ops with
  | nil => intro d _ r hr; simp [run] at hr
  | cons op rest ih =>
    intro d hd r hr
    cases op with
    | call t =>
      simp only [run] at hr
      obtain ⟨h1, h2, _, _⟩ := call_eq_dispatch E d t hd
      rcases List.mem_cons.mp hr with rfl | hr
      · exact h1
      · exact ih _ h2 r hr
    | add s =>
      simp only [run] at hr
      exact ih _ (add_coherent E ord d s) r hr

theorem empty_cache_coherent (sigs : List Sig) (order : List Nat) :
    Coherent E { sigs := sigs, order := order, cache := [] } := by
  intro k v h; simp at h

end FV.Props.C16
