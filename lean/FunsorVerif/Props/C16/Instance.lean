/-
  Props/C16/Instance.lean — agreement with instance membership:
  `deep_isinstance(x, T)` is `deep_issubclass(deep_type(x), T)`; every value is an instance of its own
  precise type, and of every generalisation of a type it is an instance of.
-/
import FunsorVerif.Model.C16
import FunsorVerif.Props.C16.Trans
namespace FV.Props.C16
open FV.C16

variable (E : Env)

/-- `deep_isinstance(v, T)` (when `deep_type(v)` is defined) -/
def isInstance (v : Val) (t : Ty) : Bool :=
  match deepType E v with
  | some d => sub E true d t
  | none => false

/-- `deep_type(v) is t` -/
def deepTypeIs (v : Val) (t : Ty) : Bool :=
  match deepType E v with
  | some d => d.beq t
  | none => false

theorem originTy_uok (t : Ty) : uok (originTy E t) = true := by
  cases t <;> simp [originTy, uok, uokL]

theorem fsetLoop_uok : ∀ (ys : List Ty) (tp r : Ty), uok tp = true → fsetLoop E tp ys = some r → uok r = true
  | [], tp, r, h, hr => by simp [fsetLoop] at hr; rw [← hr]; exact h
  | y :: ys, tp, r, h, hr => by
      simp only [fsetLoop] at hr
      by_cases h1 : sub E true y tp = true
      · simp only [h1, if_true] at hr; exact fsetLoop_uok ys tp r h hr
      · by_cases h2 : sub E true y (originTy E tp) = true
        · simp [h1, h2] at hr; exact fsetLoop_uok ys _ r (originTy_uok E tp) hr
        · simp [h1, h2] at hr

mutual
/-- deep types contain no unions at all, so they are always `uok` -/
theorem deepType_uok : ∀ (v : Val) (t : Ty), deepType E v = some t → uok t = true
  | .obj k, t, h => by simp [deepType] at h; rw [← h]; rfl
  | .term k args, t, h => by
      simp only [deepType, Option.map_eq_some_iff] at h
      obtain ⟨ts, hts, rfl⟩ := h
      simp only [uok]; exact deepTypes_uok args ts hts
  | .tuple [], t, h => by simp [deepType] at h; rw [← h]; rfl
  | .tuple (x :: xs), t, h => by
      simp only [deepType, Option.map_eq_some_iff] at h
      obtain ⟨ts, hts, rfl⟩ := h
      simp only [uok]; exact deepTypes_uok (x :: xs) ts hts
  | .fset [], t, h => by simp [deepType] at h; rw [← h]; rfl
  | .fset (x :: xs), t, h => by
      simp only [deepType] at h
      split at h
      · rename_i t0 ts hts
        simp only [Option.map_eq_some_iff] at h
        obtain ⟨r, hr, rfl⟩ := h
        have hu := deepTypes_uok (x :: xs) (t0 :: ts) hts
        simp only [uokL, Bool.and_eq_true] at hu
        simp only [uok]
        exact fsetLoop_uok E (t0 :: ts) t0 r hu.1 hr
      · cases h
theorem deepTypes_uok : ∀ (vs : List Val) (ts : List Ty), deepTypes E vs = some ts → uokL ts = true
  | [], ts, h => by simp [deepTypes] at h; subst h; rfl
  | v :: vs, ts, h => by
      simp only [deepTypes] at h
      split at h
      · rename_i t ts' ht hts
        cases h
        simp only [uokL, Bool.and_eq_true]
        exact ⟨deepType_uok v t ht, deepTypes_uok vs ts' hts⟩
      · cases h
end

/-- **every value is an instance of its own precise type** -/
theorem instance_of_own_type (T : TableOK E) (v : Val) (t : Ty) (h : deepType E v = some t) :
    isInstance E v t = true := by
  simp only [isInstance, h]
  exact sub_refl E true T t (deepType_uok E v t h)

/-- **instances are upward closed**: an instance of `t` is an instance of every generalisation `u` of
    `t` (away from the corner of KF-tuple-subclass) -/
theorem instance_upward_closed (T : TableOK E) (v : Val) (d t u : Ty) (hd : deepType E v = some d)
    (hwd : wf E d = true) (hwt : wf E t = true) (hwu : wf E u = true)
    (hkt : kfFree t = true) (hku : kfFree u = true)
    (hi : isInstance E v t = true) (htu : sub E true t u = true) : isInstance E v u = true := by
  simp only [isInstance, hd] at hi ⊢
  exact sub_trans E T d t u hwd hwt hwu hkt hku hi htu

/-- KF-tuple-subclass at the level of values: the empty tuple is accepted as a `Tuple[Any]`
    (a 1-tuple type), although it is an instance of `Tuple[int, ...]`'s … no: of nothing of length 1. -/
theorem instance_witness :
    deepTypeIs Eex (.tuple []) .tupB = true ∧ isInstance Eex (.tuple []) (.tup [.any]) = true := by decide

/-- non-vacuity: a frozenset of two tuples of different shapes widens to `FrozenSet[tuple]` -/
example : deepTypeIs Eex (.fset [.tuple [.obj 3], .tuple [.obj 3, .obj 3]]) (.fs (.cls 1)) = true := by decide

end FV.Props.C16
