/-
  Props/C16/Match.lean
  * `exact_key_minimal`  the shortcut `if types in self.funcs` of `Dispatcher.dispatch`: the signature
                         equal to the argument types is not strictly less specific than any matching
                         signature of the same length (fixed or variadic); signatures of other lengths
                         are covered per generated table by `reg_exact_key_minimal` (Props/C16/Reg2.lean);
  * `matches_upward`     matching is upward closed along `supercedes` for fixed-length signatures:
                         if the types match `s` and `s` supercedes `s'`, every argument type is below
                         the corresponding element of `s'` in the Bool relation, and `s'` matches
                         unless a TypeError is raised while comparing.
-/
import FunsorVerif.Model.C16
import FunsorVerif.Props.C16.Trans
import FunsorVerif.Props.C16.Sound
import FunsorVerif.Props.C16.Dispatch
namespace FV.Props.C16
open FV.C16

section
variable (E : Env)

/-! ### the exact-key shortcut -/

/-- only the last element of a signature may be variadic (multipledispatch raises otherwise) -/
def varOnlyLast : List Slot → Bool
  | [] => true
  | [_] => true
  | s :: rest => !s.isVar && varOnlyLast rest

theorem sigKeyEq_nonvar : ∀ (xs ys : List Slot), sigKeyEq xs ys = true → ∀ x ∈ xs, x.isVar = false
  | [], _, _ => by intro x hx; cases hx
  | x :: xs, [], h => by simp [sigKeyEq] at h
  | x :: xs, y :: ys, h => by
      simp only [sigKeyEq, Bool.and_eq_true] at h
      intro z hz
      rcases List.mem_cons.mp hz with rfl | hz
      · cases z <;> cases y <;> simp_all [Slot.beq, Slot.isVar]
      · exact sigKeyEq_nonvar xs ys h.2 z hz

/-- with equal lengths the variadic walk performs exactly the pairwise comparisons -/
theorem vm_allSlots : ∀ (types : List Slot) (cur : Slot) (rest : List Slot),
    varOnlyLast (cur :: rest) = true → types.length = (cur :: rest).length →
    vmWalkE E types cur rest = .t → allSlotsE E types (cur :: rest) = .t
  | [], _, _, _, hl, _ => by simp at hl
  | t :: ts, cur, rest, hv, hl, h => by
      simp only [vmWalkE] at h
      simp only [allSlotsE]
      cases hs : slotSubE E t cur with
      | f => rw [hs] at h; cases h
      | e => rw [hs] at h; cases h
      | t =>
        rw [hs] at h
        simp only at h ⊢
        cases rest with
        | nil =>
          have : ts = [] := by
            cases ts with
            | nil => rfl
            | cons _ _ => simp at hl
          subst this; simp [allSlotsE]
        | cons nxt rest' =>
          have hcv : cur.isVar = false := by
            simp only [varOnlyLast, Bool.and_eq_true, Bool.not_eq_true'] at hv; exact hv.1
          rw [hcv] at h
          simp only [Bool.false_eq_true, if_false] at h
          refine vm_allSlots ts nxt rest' ?_ (by simpa using hl) h
          simp only [varOnlyLast, Bool.and_eq_true] at hv; exact hv.2

theorem exact_key_minimal (sigs : List Sig) (types : List Slot) (i : Nat)
    (hkey : sigs.findIdx? (sigKeyEq types) = some i) :
    (∀ order, dispatch E sigs order types = .found i) ∧
    ∀ j sj, sigs[j]? = some sj → matchSigE E types sj = .t → sj.length = types.length →
      varOnlyLast sj = true → ¬ Strict E sigs j i := by
  refine ⟨fun order => by simp [dispatch, hkey], ?_⟩
  intro j sj hj hm hlen hvl hstrict
  rw [List.findIdx?_eq_some_iff_getElem] at hkey
  obtain ⟨hi, hp, _⟩ := hkey
  have hts : types = sigs[i] := sigKeyEq_eq _ _ hp
  obtain ⟨sj', si, hsj', hsi, _, h2⟩ := hstrict
  rw [hj] at hsj'; cases hsj'
  have : sigs[i]? = some sigs[i] := by simp [hi]
  rw [this] at hsi; cases hsi
  -- the match is the pairwise comparison, which is `supercedes si sj`
  have hall : allSlotsE E types sj = .t := by
    simp only [matchSigE] at hm
    have e : (sj.length == types.length) = true := by simp [hlen]
    rw [e] at hm
    simp only [if_true] at hm
    cases hf : allSlotsE E types sj with
    | t => rfl
    | e => rw [hf] at hm; cases hm
    | f =>
      rw [hf] at hm
      simp only at hm
      split at hm
      · cases sj with
        | nil => simp [vmatchE] at hm
        | cons c r =>
          simp only [vmatchE] at hm
          rw [vm_allSlots E types c r hvl hlen.symm hm] at hf; cases hf
      · cases hm
  have : supercedes E sigs[i] sj = true := by
    simp only [supercedes, supercedesE]
    have l1 : ¬ (sigs[i].length < sj.length) := by rw [← hts, hlen]; omega
    have l2 : (sigs[i].length == sj.length) = true := by rw [← hts]; simp [hlen]
    rw [if_neg l1, if_pos l2, ← hts, hall]; rfl
  rw [this] at h2; cases h2

/-! ### matching is upward closed along `supercedes` -/

/-- `issubclass` between two non-variadic signature elements, in the Bool relation -/
def altSub (a b : Alt) : Bool :=
  if b.wrapped then sub E true a.ty b.ty else (!a.wrapped && sub E true a.ty b.ty)

def notUnion : Ty → Bool
  | .union _ => false
  | _ => true

structure AltOK (a : Alt) : Prop where
  wf : wf E a.ty = true
  kf : kfFree a.ty = true

theorem sub_origin (T : TableOK E) (a : Ty) (h : notUnion a = true) : sub E true a (originTy E a) = true := by
  cases a with
  | union _ => simp [notUnion] at h
  | any => simp [originTy, sub, isAny]
  | cls k => simp [originTy]; rw [sub_cls_right E true _ _ rfl]; exact T.refl k
  | tupB => simp [originTy]; rw [sub_cls_right E true _ _ rfl]; exact T.refl _
  | tup _ => simp [originTy]; rw [sub_cls_right E true _ _ rfl]; exact T.refl _
  | tupV _ => simp [originTy]; rw [sub_cls_right E true _ _ rfl]; exact T.refl _
  | fsB => simp [originTy]; rw [sub_cls_right E true _ _ rfl]; exact T.refl _
  | fs _ => simp [originTy]; rw [sub_cls_right E true _ _ rfl]; exact T.refl _
  | fn k args =>
    cases args with
    | nil => simp [originTy, sub, against, fnCheck, beq_refl]
    | cons x xs => simp [originTy, sub, against, fnCheck, subFns, T.refl]

theorem originTy_wf (T : TableOK E) (a : Ty) (h : wf E a = true) : wf E (originTy E a) = true := by
  cases a <;> simp_all [originTy, wf, wfL, T.tupPlain, T.fsPlain]

theorem originTy_kfFree (a : Ty) : kfFree (originTy E a) = true := by
  cases a <;> simp [originTy, kfFree, kfFreeL]

/-- a `True` from the real `issubclass` between signature elements (wrapper retry included) is a
    `true` of the Bool relation -/
theorem altSubE_sound (T : TableOK E) (R : RaisesOK E) (a b : Alt) (ha : AltOK E a) (hb : AltOK E b)
    (hu : notUnion a.ty = true) (h : altSubE E a b = .t) : altSub E a b = true := by
  unfold altSubE at h
  unfold altSub
  cases hbw : b.wrapped <;> simp only [hbw, Bool.false_eq_true, if_false, if_true] at h ⊢
  · cases haw : a.wrapped <;> simp only [haw, Bool.false_eq_true, if_false, if_true] at h
    · simp [subE_true E R _ _ h]
    · cases h
  · cases haw : a.wrapped <;> simp only [haw, Bool.false_eq_true, if_false, if_true] at h
    · exact subE_true E R _ _ h
    · cases hs : subE E a.ty b.ty with
      | t => exact subE_true E R _ _ hs
      | f => rw [hs] at h; cases h
      | e =>
        rw [hs] at h
        have h1 := subE_true E R _ _ h
        exact sub_trans E T a.ty (originTy E a.ty) b.ty ha.wf (originTy_wf E T _ ha.wf) hb.wf
          (originTy_kfFree E _) hb.kf (sub_origin E T _ hu) h1

theorem altSub_trans (T : TableOK E) (a b c : Alt) (ha : AltOK E a) (hb : AltOK E b) (hc : AltOK E c)
    (hab : altSub E a b = true) (hbc : altSub E b c = true) : altSub E a c = true := by
  unfold altSub at *
  have tr := fun h1 h2 => sub_trans E T a.ty b.ty c.ty ha.wf hb.wf hc.wf hb.kf hc.kf h1 h2
  cases hcw : c.wrapped <;> cases hbw : b.wrapped <;>
    simp only [hcw, hbw, Bool.false_eq_true, if_false, if_true, Bool.and_eq_true, Bool.not_eq_true'] at hab hbc ⊢
  · exact ⟨hab.1, tr hab.2 hbc.2⟩
  · cases hbc.1
  · exact tr hab.2 hbc
  · exact tr hab hbc

/-- fixed-length signatures as lists of alternatives -/
def fixedSig (xs : List Alt) : Sig := xs.map Slot.one

def all2a (r : Alt → Alt → Bool) : List Alt → List Alt → Bool
  | [], [] => true
  | x :: xs, y :: ys => r x y && all2a r xs ys
  | _, _ => false

theorem allSlots_fixed_t : ∀ (xs ys : List Alt), xs.length = ys.length →
    allSlotsE E (fixedSig xs) (fixedSig ys) = .t →
    all2a (fun a b => altSubE E a b == .t) xs ys = true
  | [], [], _, _ => by simp [all2a]
  | [], _ :: _, h, _ => by simp at h
  | _ :: _, [], h, _ => by simp at h
  | x :: xs, y :: ys, hl, h => by
      simp only [fixedSig, List.map_cons, allSlotsE, slotSubE] at h
      simp only [all2a, Bool.and_eq_true, beq_iff_eq]
      cases hs : altSubE E x y with
      | t => rw [hs] at h; exact ⟨rfl, allSlots_fixed_t xs ys (by simpa using hl) h⟩
      | f => rw [hs] at h; cases h
      | e => rw [hs] at h; cases h

theorem all2a_mono {r1 r2 : Alt → Alt → Bool} : ∀ (xs ys : List Alt),
    (∀ x ∈ xs, ∀ y ∈ ys, r1 x y = true → r2 x y = true) → all2a r1 xs ys = true → all2a r2 xs ys = true
  | [], [], _, _ => by simp [all2a]
  | [], _ :: _, _, h => by simp [all2a] at h
  | _ :: _, [], _, h => by simp [all2a] at h
  | x :: xs, y :: ys, hm, h => by
      simp only [all2a, Bool.and_eq_true] at h ⊢
      exact ⟨hm x List.mem_cons_self y List.mem_cons_self h.1,
        all2a_mono xs ys (fun a ha b hb => hm a (List.mem_cons_of_mem _ ha) b (List.mem_cons_of_mem _ hb)) h.2⟩

theorem all2a_trans {r : Alt → Alt → Bool} : ∀ (xs ys zs : List Alt),
    (∀ x ∈ xs, ∀ y ∈ ys, ∀ z ∈ zs, r x y = true → r y z = true → r x z = true) →
    all2a r xs ys = true → all2a r ys zs = true → all2a r xs zs = true
  | [], [], [], _, _, _ => by simp [all2a]
  | [], [], _ :: _, _, _, h => by simp [all2a] at h
  | [], _ :: _, _, _, h, _ => by simp [all2a] at h
  | _ :: _, [], _, _, h, _ => by simp [all2a] at h
  | _ :: _, _ :: _, [], _, _, h => by simp [all2a] at h
  | x :: xs, y :: ys, z :: zs, ih, h1, h2 => by
      simp only [all2a, Bool.and_eq_true] at h1 h2 ⊢
      refine ⟨ih x List.mem_cons_self y List.mem_cons_self z List.mem_cons_self h1.1 h2.1, ?_⟩
      exact all2a_trans xs ys zs (fun a ha b hb c hc =>
        ih a (List.mem_cons_of_mem _ ha) b (List.mem_cons_of_mem _ hb) c (List.mem_cons_of_mem _ hc)) h1.2 h2.2

/-- **`matches_upward`** (fixed-length signatures).  If the argument types match `s` and `s` supercedes
    `s'`, then every argument type is below the corresponding element of `s'` in the Bool relation.
    Hypotheses: well-formed, `kfFree` type expressions; no top-level `Union` among the argument types
    (never produced by `deep_type`) nor in `s` (checked on the generated tables: `reg_no_toplevel_union`),
    because the wrapper's TypeError-retry replaces a Union by the argument-less `typing.Union`. -/
theorem matches_upward (T : TableOK E) (R : RaisesOK E) (types s s' : List Alt)
    (hl1 : types.length = s.length) (hl2 : s.length = s'.length)
    (ht : ∀ a ∈ types, AltOK E a ∧ notUnion a.ty = true)
    (hs : ∀ a ∈ s, AltOK E a ∧ notUnion a.ty = true) (hs' : ∀ a ∈ s', AltOK E a)
    (hmatch : matchSigE E (fixedSig types) (fixedSig s) = .t)
    (hsup : supercedes E (fixedSig s) (fixedSig s') = true) :
    all2a (altSub E) types s' = true := by
  have hvar : ∀ xs : List Alt, lastIsVar (fixedSig xs) = false := by
    intro xs
    simp only [lastIsVar, fixedSig]
    cases h : (xs.map Slot.one).getLast? with
    | none => rfl
    | some x =>
      have := List.mem_of_getLast? h
      simp only [List.mem_map] at this
      obtain ⟨a, _, rfl⟩ := this
      rfl
  have m1 : allSlotsE E (fixedSig types) (fixedSig s) = .t := by
    simp only [matchSigE, hvar] at hmatch
    have e : ((fixedSig s).length == (fixedSig types).length) = true := by simp [fixedSig, hl1]
    rw [e] at hmatch
    simp only [if_true] at hmatch
    cases hf : allSlotsE E (fixedSig types) (fixedSig s) with
    | t => rfl
    | f => rw [hf] at hmatch; simp at hmatch
    | e => rw [hf] at hmatch; cases hmatch
  have m2 : allSlotsE E (fixedSig s) (fixedSig s') = .t := by
    simp only [supercedes, supercedesE, beq_iff_eq] at hsup
    have l1 : ¬ ((fixedSig s).length < (fixedSig s').length) := by simp [fixedSig, hl2]
    have l2 : (fixedSig s).length = (fixedSig s').length := by simp [fixedSig, hl2]
    simp only [l2, Nat.lt_irrefl, if_false, if_true] at hsup
    exact hsup
  have p1 := all2a_mono (r2 := altSub E) types s
    (fun a ha b hb h => altSubE_sound E T R a b (ht a ha).1 (hs b hb).1 (ht a ha).2 (by simpa using h))
    (allSlots_fixed_t E types s hl1 m1)
  have p2 := all2a_mono (r2 := altSub E) s s'
    (fun a ha b hb h => altSubE_sound E T R a b (hs a ha).1 (hs' b hb) (hs a ha).2 (by simpa using h))
    (allSlots_fixed_t E s s' hl2 m2)
  exact all2a_trans types s s'
    (fun a ha b hb c hc => altSub_trans E T a b c (ht a ha).1 (hs b hb).1 (hs' c hc)) p1 p2

/-- … and then `s'` matches, unless comparing raises: the three-valued comparison of an argument type
    with the element of `s'` cannot be `False`. -/
theorem matches_upward_not_false (R : RaisesOK E) (a c : Alt) (h : altSub E a c = true) :
    (c.wrapped = true → subE E a.ty c.ty ≠ .f) ∧
    (c.wrapped = false → a.wrapped = false ∧ subE E a.ty c.ty ≠ .f) := by
  unfold altSub at h
  constructor
  · intro hc hf
    rw [hc] at h; simp only [if_true] at h
    rw [subE_false E R _ _ hf] at h; cases h
  · intro hc
    rw [hc] at h
    simp only [Bool.false_eq_true, if_false, Bool.and_eq_true, Bool.not_eq_true'] at h
    refine ⟨h.1, fun hf => ?_⟩
    rw [subE_false E R _ _ hf] at h; cases h.2

end
end FV.Props.C16
