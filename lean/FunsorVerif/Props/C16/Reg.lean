/-
  Props/C16/Reg.lean — obligations over the GENERATED dispatcher tables (Gen/C16Reg.lean, rewritten
  from the live registries on every run).  For every dispatcher of every interpretation:
    * the ordering multipledispatch computed is a permutation of the signatures and a linear
      extension of the model's `supercedes` (so `first_match_minimal` applies to it);
    * computing `supercedes`/`consistent` never raises;
    * the ambiguous pairs computed by the model are exactly the ones multipledispatch reported
      (none on the pinned tree: every pair of overlapping patterns has a more specific common one).
-/
import FunsorVerif.Model.C16
import FunsorVerif.Gen.C16Table
import FunsorVerif.Gen.C16Reg
namespace FV.Props.C16
open FV.C16 FV.Gen.C16

def E₀ : Env := table.env

def DTab.orderOk (d : DTab) : Bool :=
  isPerm d.sigs.length d.order && isLinExt E₀ d.sigs d.order

def DTab.ambigOk (d : DTab) : Bool :=
  ambiguities E₀ d.sigs == d.ambig

theorem reg_ordering_is_linear_extension : dispatchers.all DTab.orderOk = true := by decide +kernel

theorem reg_no_raise : dispatchers.all (fun d => noRaise E₀ d.sigs) = true := by decide +kernel

theorem reg_ambiguities_as_reported : dispatchers.all DTab.ambigOk = true := by decide +kernel

/-- every dispatcher ends in the catch-all `Variadic[Any]` default, so dispatch never finds nothing. -/
theorem reg_has_default :
    dispatchers.all (fun d => d.sigs.any (fun s => match s with
      | [.var [⟨true, .any⟩]] => true
      | _ => false)) = true := by decide +kernel

end FV.Props.C16
