/-
  Props/C16/Reg2.lean — further obligations over the GENERATED dispatcher tables, which discharge the
  side conditions of `exact_key_minimal` and `matches_upward` for the live registries and show that the
  one unmodelled clause of multipledispatch is irrelevant for them.
-/
import FunsorVerif.Model.C16
import FunsorVerif.Gen.C16Table
import FunsorVerif.Gen.C16Reg
import FunsorVerif.Props.C16.Reg
import FunsorVerif.Props.C16.Match
namespace FV.Props.C16
open FV.C16 FV.Gen.C16

def allAlts (d : DTab) : List Alt := d.sigs.flatMap fun s => s.flatMap Slot.alts

/-- only the last element of a registered signature is variadic -/
theorem reg_var_only_last : dispatchers.all (fun d => d.sigs.all varOnlyLast) = true := by decide +kernel

/-- no registered signature element is a top-level `Union` (funsor expands tuples of classes at
    registration; a `typing.Union[...]` written directly would be wrapped and — as
    `GenericTypeMeta.__subclasscheck__` looks at the wrapper's origin — be incomparable to a bare funsor
    class pattern such as `Funsor`; `reg_no_unlisted_ambiguity` would then flag the pair) -/
theorem reg_no_toplevel_union :
    dispatchers.all (fun d => (allAlts d).all fun a => notUnion a.ty) = true := by decide +kernel

/-- every registered type expression is well formed over the leaf table and outside the corner of
    KF-tuple-subclass, so `matches_upward` applies to every pair of registered fixed-length signatures -/
theorem reg_alts_ok :
    dispatchers.all (fun d => (allAlts d).all fun a => wf E₀ a.ty && kfFree a.ty) = true := by
  decide +kernel

/-- `VariadicSignatureType.__subclasscheck__` answers `subclass is self or all(...)`.  The identity test
    is not modelled; it can only fire between occurrences of the same Variadic object (e.g. the four
    signatures produced by expanding `(LogaddexpOp, NullOp) x (AddOp, NullOp)` in `Elbo[Contraction]`
    share one `Variadic[Funsor]`), i.e. between structurally equal variadic elements — and for every
    variadic element of every live table the `all(...)` it short-cuts is `True` as well. -/
theorem reg_variadic_identity_irrelevant :
    dispatchers.all (fun d => d.sigs.all fun s => s.all fun v =>
      !v.isVar || slotSubE E₀ v v == .t) = true := by decide +kernel

/-- every element multipledispatch holds went through the `typing_wrap` adapter as specified: a
    GenericTypeMeta (funsor) class stays bare, EVERYTHING else — plain classes included — is wrapped, so that
    `issubclass(subject, pattern)` reaches `deep_issubclass` and unpacks wrapped subjects (Union, Tuple,
    FrozenSet).  A bare plain class would send wrapped subjects to `type.__subclasscheck__`: always False. -/
theorem reg_adapter_normal :
    dispatchers.all (fun d => (allAlts d).all fun a =>
      match a.ty with
      | .fn _ _ => !a.wrapped
      | _ => a.wrapped) = true := by decide +kernel

def isKey (s : Sig) : Bool := s.all fun x => !x.isVar

/-- the exact-key shortcut against EVERY matching signature (any length, variadic included), per table:
    if the argument types are literally a registered signature `i`, no matching signature strictly
    supercedes it. -/
theorem reg_exact_key_minimal :
    dispatchers.all (fun d => d.sigs.all fun si => !isKey si || d.sigs.all fun sj =>
      !(matchSigE E₀ si sj == .t) || !(supercedes E₀ sj si && !supercedes E₀ si sj)) = true := by
  decide +kernel

end FV.Props.C16
