/-
  Props/C16/Sound.lean — `subE_sound`: whenever the three-valued model of `deep_issubclass` (the one
  compared with the real function, TypeErrors included) returns a value, it is the value of the Bool
  relation `sub E true` about which reflexivity / transitivity are proved.
-/
import FunsorVerif.Model.C16
import FunsorVerif.Props.C16.SubLemmas
namespace FV.Props.C16
open FV.C16

/-- a returned value is the Bool relation's value; an error promises nothing -/
def RSound (r : Res) (v : Bool) : Prop := (r = .t → v = true) ∧ (r = .f → v = false)

def FSound (g : Ty → Res) (f : Ty → Bool) : Prop := ∀ y, RSound (g y) (f y)

inductive F2 : List (Ty → Res) → List (Ty → Bool) → Prop where
  | nil : F2 [] []
  | cons {g f gs fs} : FSound g f → F2 gs fs → F2 (g :: gs) (f :: fs)

/-- same shape, children pointwise sound -/
inductive KRel : AKind Res → AKind Bool → Prop where
  | plain (k) : KRel (.plain k) (.plain k)
  | tupB : KRel .tupB .tupB
  | fsB : KRel .fsB .fsB
  | tup {gs fs} : F2 gs fs → KRel (.tup gs) (.tup fs)
  | tupV {g f} : FSound g f → KRel (.tupV g) (.tupV f)
  | fs {g f} : FSound g f → KRel (.fs g) (.fs f)
  | fn (k) {gs fs} : F2 gs fs → KRel (.fn k gs) (.fn k fs)

/-- a class whose metaclass answers False (instead of raising) on a typing generic must not be a
    superclass of tuple / frozenset (else the Bool relation, which answers by the origin, would differ) -/
def RaisesOK (E : Env) : Prop :=
  ∀ k, E.raisesNonClass k = false → E.L E.kTuple k = false ∧ E.L E.kFs k = false

theorem rsound_ofBool (b : Bool) : RSound (Res.ofBool b) b := by
  cases b <;> simp [RSound, Res.ofBool]

theorem rsound_f_false : RSound .f false := by simp [RSound]
theorem rsound_t_true : RSound .t true := by simp [RSound]
theorem rsound_e (v : Bool) : RSound .e v := by simp [RSound]

theorem F2_length {gs fs} (h : F2 gs fs) : gs.length = fs.length := by
  induction h with
  | nil => rfl
  | cons _ _ ih => simp [ih]

theorem allE_sound {gs fs} (h : F2 gs fs) (y : Ty) : RSound (allE gs y) (fs.all (fun f => f y)) := by
  induction h with
  | nil => simp [allE, RSound]
  | @cons g f gs fs hgf _ ih =>
    simp only [allE, List.all_cons]
    have hs := hgf y
    cases hg : g y with
    | t => rw [hs.1 hg]; simpa using ih
    | f => rw [hs.2 hg]; simp [RSound]
    | e => exact rsound_e _

theorem allZipE_sound {gs fs} (h : F2 gs fs) : ∀ ys : List Ty, gs.length = ys.length →
    RSound (allZipE gs ys) (all2 fs ys) := by
  induction h with
  | nil => intro ys hl; cases ys <;> simp_all [allZipE, all2, RSound]
  | @cons g f gs fs hgf _ ih =>
    intro ys hl
    cases ys with
    | nil => simp at hl
    | cons y ys =>
      simp only [allZipE, all2]
      have hs := hgf y
      cases hg : g y with
      | t => rw [hs.1 hg]; simpa using ih ys (by simpa using hl)
      | f => rw [hs.2 hg]; simp [RSound]
      | e => exact rsound_e _

theorem all2_length_false {fs : List (Ty → Bool)} : ∀ {ys : List Ty}, fs.length ≠ ys.length → all2 fs ys = false := by
  induction fs with
  | nil => intro ys h; cases ys <;> simp_all [all2]
  | cons f fs ih =>
    intro ys h
    cases ys with
    | nil => simp [all2]
    | cons y ys => simp only [all2]; rw [ih (by simpa using h)]; simp

theorem all2E_sound {gs fs} (h : F2 gs fs) (ys : List Ty) : RSound (all2E gs ys) (all2 fs ys) := by
  unfold all2E
  by_cases hl : gs.length = ys.length
  · have : (gs.length != ys.length) = false := by simp [hl]
    rw [this]; simp only [Bool.false_eq_true, if_false]
    exact allZipE_sound h ys hl
  · have : (gs.length != ys.length) = true := by simp [hl]
    rw [this]; simp only [if_true]
    rw [all2_length_false (by rw [← F2_length h]; exact hl)]
    exact rsound_f_false

section
variable (E : Env)

theorem krel_org {a : AKind Res} {b : AKind Bool} (h : KRel a b) : a.org E = b.org E := by
  cases h <;> rfl

theorem tupleCheck_sound {a : AKind Res} {b : AKind Bool} (h : KRel a b) (c : TArgs) :
    RSound (tupleCheckE E a c) (tupleCheck E true b c) := by
  unfold tupleCheckE tupleCheck
  rw [krel_org E h]
  cases hL : E.L (b.org E) E.kTuple
  · simp [RSound]
  · simp only [Bool.not_true, Bool.false_eq_true, if_false]
    cases c with
    | bare => simpa using rsound_t_true
    | fixed ys =>
      cases h with
      | plain k => simpa [AKind.args] using rsound_ofBool _
      | tupB => simpa [AKind.args] using rsound_ofBool _
      | fsB => simpa [AKind.args] using rsound_ofBool _
      | tupV _ => simpa [AKind.args] using rsound_f_false
      | fs hf => simpa [AKind.args] using all2E_sound (F2.cons hf F2.nil) ys
      | tup hF =>
        cases hF with
        | nil => simpa [AKind.args] using rsound_ofBool _
        | cons hf hF => simpa [AKind.args] using all2E_sound (F2.cons hf hF) ys
      | fn k hF =>
        cases hF with
        | nil => simpa [AKind.args] using rsound_ofBool _
        | cons hf hF => simpa [AKind.args] using all2E_sound (F2.cons hf hF) ys
    | var y =>
      cases h with
      | plain k => simpa [AKind.args] using rsound_ofBool _
      | tupB => simpa [AKind.args] using rsound_ofBool _
      | fsB => simpa [AKind.args] using rsound_ofBool _
      | tupV hf => simpa [AKind.args] using hf y
      | fs hf => simpa [AKind.args] using allE_sound (F2.cons hf F2.nil) y
      | tup hF =>
        cases hF with
        | nil => simpa [AKind.args] using rsound_ofBool _
        | cons hf hF => simpa [AKind.args] using allE_sound (F2.cons hf hF) y
      | fn k hF =>
        cases hF with
        | nil => simpa [AKind.args] using rsound_ofBool _
        | cons hf hF => simpa [AKind.args] using allE_sound (F2.cons hf hF) y

theorem fsCheck_sound {a : AKind Res} {b : AKind Bool} (h : KRel a b) (c : Option Ty) :
    RSound (fsCheckE E a c) (fsCheck E b c) := by
  unfold fsCheckE fsCheck
  rw [krel_org E h]
  cases hL : E.L (b.org E) E.kFs
  · simp [RSound]
  · simp only [Bool.not_true, Bool.false_eq_true, if_false]
    cases c with
    | none => simpa using rsound_t_true
    | some y =>
      cases h with
      | plain k => simpa [AKind.args] using rsound_ofBool _
      | tupB => simpa [AKind.args] using rsound_ofBool _
      | fsB => simpa [AKind.args] using rsound_ofBool _
      | tupV _ => simpa [AKind.args] using rsound_f_false
      | fs hf => simpa [AKind.args] using hf y
      | tup hF =>
        cases hF with
        | nil => simpa [AKind.args] using rsound_ofBool _
        | cons hf hF =>
          cases hF with
          | nil => simpa [AKind.args] using hf y
          | cons _ _ => simpa [AKind.args] using rsound_f_false
      | fn k hF =>
        cases hF with
        | nil => simpa [AKind.args] using rsound_ofBool _
        | cons hf hF =>
          cases hF with
          | nil => simpa [AKind.args] using hf y
          | cons _ _ => simpa [AKind.args] using rsound_f_false

theorem fnCheck_sound {a : AKind Res} {b : AKind Bool} (h : KRel a b) (self : Ty) (kb : Nat) (bargs : List Ty) :
    RSound (fnCheckE E self a kb bargs) (fnCheck E self b kb bargs) := by
  unfold fnCheckE fnCheck
  cases hb : self.beq (.fn kb bargs)
  · simp only [Bool.false_eq_true, if_false]
    cases h with
    | plain k => simpa [AKind.generic, AKind.org] using rsound_ofBool _
    | tupB => simpa [AKind.generic] using rsound_e _
    | fsB => simpa [AKind.generic] using rsound_e _
    | tupV _ => simpa [AKind.generic] using rsound_e _
    | fs _ => simpa [AKind.generic] using rsound_e _
    | tup _ => simpa [AKind.generic] using rsound_e _
    | @fn ka gs fs hF =>
      simp only
      cases hL : E.L ka kb
      · simpa using rsound_f_false
      · simp only [Bool.not_true, Bool.false_eq_true, if_false, Bool.true_and]
        rw [← F2_length hF]
        by_cases hl : gs.length = bargs.length
        · have e : (gs.length != bargs.length) = false := by simp [hl]
          rw [e]; simp only [Bool.false_eq_true, if_false]
          exact allZipE_sound hF bargs hl
        · have e : (gs.length != bargs.length) = true := by simp [hl]
          rw [e]; simp only [if_true]
          exact rsound_ofBool _
  · simpa using rsound_t_true

theorem plainCheck_sound (R : RaisesOK E) {a : AKind Res} {b : AKind Bool} (h : KRel a b) (k : Nat) :
    RSound (plainCheckE E a k) (E.L (b.org E) k) := by
  unfold plainCheckE
  cases h with
  | plain k' => simpa [AKind.generic, AKind.org] using rsound_ofBool _
  | fn k' _ => simpa [AKind.generic, AKind.org] using rsound_ofBool _
  | tupB | tupV _ | tup _ =>
    simp only [AKind.generic, if_true, AKind.org]
    cases hr : E.raisesNonClass k
    · simp only [Bool.false_eq_true, if_false]; rw [(R k hr).1]; exact rsound_f_false
    · exact rsound_e _
  | fsB | fs _ =>
    simp only [AKind.generic, if_true, AKind.org]
    cases hr : E.raisesNonClass k
    · simp only [Bool.false_eq_true, if_false]; rw [(R k hr).2]; exact rsound_f_false
    · exact rsound_e _

theorem tupleCheck_bare (b : AKind Bool) : tupleCheck E true b .bare = E.L (b.org E) E.kTuple := by
  unfold tupleCheck; cases E.L (b.org E) E.kTuple <;> simp

theorem fsCheck_none (b : AKind Bool) : fsCheck E b none = E.L (b.org E) E.kFs := by
  unfold fsCheck; cases E.L (b.org E) E.kFs <;> simp

mutual
theorem against_sound (R : RaisesOK E) {a : AKind Res} {b : AKind Bool} (h : KRel a b) (self : Ty) :
    ∀ c : Ty, RSound (againstE E self a c) (against E true self b c)
  | .any => by simp [againstE, against, RSound]
  | .union ys => by rw [againstE, against]; exact anyAgainst_sound R h self ys
  | .cls k => by
      rw [againstE, against]
      by_cases h1 : (k == E.kTuple) = true
      · rw [if_pos h1]
        have : k = E.kTuple := by simpa using h1
        rw [this, ← tupleCheck_bare]; exact tupleCheck_sound E h .bare
      · rw [if_neg h1]
        by_cases h2 : (k == E.kFs) = true
        · rw [if_pos h2]
          have : k = E.kFs := by simpa using h2
          rw [this, ← fsCheck_none]; exact fsCheck_sound E h none
        · rw [if_neg h2]; exact plainCheck_sound E R h k
  | .tupB => by rw [againstE, against]; exact tupleCheck_sound E h _
  | .tup [] => by rw [againstE, against]; exact tupleCheck_sound E h _
  | .tup (y :: ys) => by rw [againstE, against]; exact tupleCheck_sound E h _
  | .tupV y => by rw [againstE, against]; exact tupleCheck_sound E h _
  | .fsB => by rw [againstE, against]; exact fsCheck_sound E h _
  | .fs y => by rw [againstE, against]; exact fsCheck_sound E h _
  | .fn kb bargs => by rw [againstE, against]; exact fnCheck_sound E h self kb bargs
theorem anyAgainst_sound (R : RaisesOK E) {a : AKind Res} {b : AKind Bool} (h : KRel a b) (self : Ty) :
    ∀ ys : List Ty, RSound (anyAgainstE E self a ys) (anyAgainst E true self b ys)
  | [] => by simp [anyAgainstE, anyAgainst, RSound]
  | y :: ys => by
      rw [anyAgainstE, anyAgainst]
      have hs := against_sound R h self y
      have ih := anyAgainst_sound R h self ys
      cases hg : againstE E self a y with
      | t => rw [hs.1 hg]; simp [RSound]
      | f => rw [hs.2 hg]; simpa using ih
      | e => exact rsound_e _
end

mutual
/-- **`subE_sound`**: a value returned by the three-valued `deep_issubclass` is the value of `sub`. -/
theorem subE_sound (R : RaisesOK E) : ∀ a b : Ty, RSound (subE E a b) (sub E true a b)
  | .any, b => by rw [subE, sub]; exact rsound_ofBool _
  | .union xs, b => by rw [subE, sub]; exact subAllE_sound R xs b
  | .cls k, b => by rw [subE, sub]; exact against_sound E R (KRel.plain k) _ b
  | .tupB, b => by rw [subE, sub]; exact against_sound E R KRel.tupB _ b
  | .fsB, b => by rw [subE, sub]; exact against_sound E R KRel.fsB _ b
  | .tup xs, b => by rw [subE, sub]; exact against_sound E R (KRel.tup (subFns_sound R xs)) _ b
  | .tupV x, b => by rw [subE, sub]; exact against_sound E R (KRel.tupV (fun y => subE_sound R x y)) _ b
  | .fs x, b => by rw [subE, sub]; exact against_sound E R (KRel.fs (fun y => subE_sound R x y)) _ b
  | .fn k xs, b => by rw [subE, sub]; exact against_sound E R (KRel.fn k (subFns_sound R xs)) _ b
theorem subAllE_sound (R : RaisesOK E) : ∀ (xs : List Ty) (b : Ty), RSound (subAllE E xs b) (subAll E true xs b)
  | [], b => by simp [subAllE, subAll, RSound]
  | x :: xs, b => by
      rw [subAllE, subAll]
      have hs := subE_sound R x b
      have ih := subAllE_sound R xs b
      cases hg : subE E x b with
      | t => rw [hs.1 hg]; simpa using ih
      | f => rw [hs.2 hg]; simp [RSound]
      | e => exact rsound_e _
theorem subFns_sound (R : RaisesOK E) : ∀ xs : List Ty, F2 (subFnsE E xs) (subFns E true xs)
  | [] => by rw [subFnsE, subFns]; exact F2.nil
  | x :: xs => by
      rw [subFnsE, subFns]
      exact F2.cons (fun y => subE_sound R x y) (subFns_sound R xs)
end

/-- the two directions spelled out -/
theorem subE_true (R : RaisesOK E) (a b : Ty) (h : subE E a b = .t) : sub E true a b = true :=
  (subE_sound E R a b).1 h
theorem subE_false (R : RaisesOK E) (a b : Ty) (h : subE E a b = .f) : sub E true a b = false :=
  (subE_sound E R a b).2 h

end
end FV.Props.C16
