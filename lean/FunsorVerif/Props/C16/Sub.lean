/-
  Props/C16/Sub.lean — the parametric subtype relation is a preorder (reflexive, transitive away from
  the corner of KF-tuple-subclass), with `Any` on top; witness theorems for the two corners.
-/
import FunsorVerif.Model.C16
import FunsorVerif.Props.C16.SubLemmas
namespace FV.Props.C16
open FV.C16

mutual
/-- unions have proper members (no `Any`, no nested union), recursively -/
def uok : Ty → Bool
  | .union xs => uokL xs && xs.all proper
  | .tup xs => uokL xs
  | .tupV x => uok x
  | .fs x => uok x
  | .fn _ args => uokL args
  | _ => true
def uokL : List Ty → Bool
  | [] => true
  | x :: xs => uok x && uokL xs
end

mutual
/-- no fixed-length tuple type whose first parameter is literally `Any` (the only right-hand sides on
    which the clause of KF-tuple-subclass can answer True) -/
def kfFree : Ty → Bool
  | .tup [] => true
  | .tup (x :: xs) => !isAny x && kfFree x && kfFreeL xs
  | .tupV x => kfFree x
  | .fs x => kfFree x
  | .union xs => kfFreeL xs
  | .fn _ args => kfFreeL args
  | _ => true
def kfFreeL : List Ty → Bool
  | [] => true
  | x :: xs => kfFree x && kfFreeL xs
end

theorem kfFreeL_mem {x : Ty} : ∀ {xs : List Ty}, kfFreeL xs = true → x ∈ xs → kfFree x = true := by
  intro xs
  induction xs with
  | nil => intro _ h; cases h
  | cons y ys ih =>
    intro hw h
    simp only [kfFreeL, Bool.and_eq_true] at hw
    rcases List.mem_cons.mp h with rfl | h
    · exact hw.1
    · exact ih hw.2 h

section
variable (E : Env) (kf : Bool)

/-! ### `Any` is the top element -/
mutual
theorem sub_to_any : ∀ a : Ty, sub E kf a .any = true
  | .any => by simp [sub, isAny]
  | .union xs => by rw [sub_union]; exact subL_to_any xs
  | .cls _ => sub_any_right E kf _ rfl
  | .tupB => sub_any_right E kf _ rfl
  | .tup _ => sub_any_right E kf _ rfl
  | .tupV _ => sub_any_right E kf _ rfl
  | .fsB => sub_any_right E kf _ rfl
  | .fs _ => sub_any_right E kf _ rfl
  | .fn _ _ => sub_any_right E kf _ rfl
theorem subL_to_any : ∀ xs : List Ty, xs.all (fun x => sub E kf x .any) = true
  | [] => by simp
  | x :: xs => by simp [sub_to_any x, subL_to_any xs]
end

theorem sub_any_iff (b : Ty) : sub E kf .any b = true ↔ b = .any := by
  rw [sub_any_left]; cases b <;> simp [isAny]

/-! ### reflexivity -/

theorem all2r_of_mem (r : Ty → Ty → Bool) : ∀ xs : List Ty, (∀ x ∈ xs, r x x = true) → all2r r xs xs = true
  | [], _ => by simp [all2r]
  | x :: xs, h => by
      simp only [all2r, Bool.and_eq_true]
      exact ⟨h x List.mem_cons_self, all2r_of_mem r xs (fun y hy => h y (List.mem_cons_of_mem _ hy))⟩

mutual
theorem sub_refl (T : TableOK E) : ∀ a : Ty, uok a = true → sub E kf a a = true
  | .any, _ => by simp [sub, isAny]
  | .cls k, _ => by rw [sub_cls_right E kf _ _ rfl]; exact T.refl k
  | .tupB, _ => by simp [sub, against, tupleCheck, AKind.org, T.refl]
  | .fsB, _ => by simp [sub, against, fsCheck, AKind.org, T.refl]
  | .tup [], _ => by simp [sub, against, tupleCheck, AKind.org, T.refl]
  | .tup (x :: xs), h => by
      simp only [uok] at h
      have := all2r_of_mem (sub E kf) (x :: xs) (subL_refl T (x :: xs) h)
      simp [sub, against, tupleCheck, AKind.org, AKind.args, subFns, T.refl]
      have h2 := all2_subFns E kf (x :: xs) (x :: xs)
      simp only [subFns] at h2
      rw [h2]; exact this
  | .tupV x, h => by
      simp only [uok] at h
      simp [sub, against, tupleCheck, AKind.org, AKind.args, T.refl, sub_refl T x h]
  | .fs x, h => by
      simp only [uok] at h
      simp [sub, against, fsCheck, AKind.org, AKind.args, T.refl, sub_refl T x h]
  | .fn k args, _ => by
      simp [sub, against, fnCheck, beq_refl]
  | .union xs, h => by
      simp only [uok, Bool.and_eq_true] at h
      rw [sub_union, List.all_eq_true]
      intro x hx
      have hp : proper x = true := (List.all_eq_true.mp h.2) x hx
      rw [sub_union_right E kf x xs hp, List.any_eq_true]
      exact ⟨x, hx, subL_refl T xs h.1 x hx⟩
theorem subL_refl (T : TableOK E) : ∀ xs : List Ty, uokL xs = true → ∀ x ∈ xs, sub E kf x x = true
  | [], _ => by intro x hx; cases hx
  | y :: ys, h => by
      simp only [uokL, Bool.and_eq_true] at h
      intro x hx
      rcases List.mem_cons.mp hx with hxy | hx
      · rw [hxy]; exact sub_refl T y h.1
      · exact subL_refl T ys h.2 x hx
end

end

end FV.Props.C16
