/-
  Props/C16/SubLemmas.lean — unfolding ("characteristic") equations of the structurally recursive
  `sub`, well-formedness of type expressions, the hypotheses on the leaf table.
-/
import FunsorVerif.Model.C16
import FunsorVerif.Props.C16.Basic
namespace FV.Props.C16
open FV.C16

/-- what the theorems need from the generated leaf-class table (discharged for the live table in
    Props/C16/Table.lean) -/
structure TableOK (E : Env) : Prop where
  refl : ∀ k, E.L k k = true
  trans : ∀ a b c, E.L a b = true → E.L b c = true → E.L a c = true
  /-- a plain class is never a subclass of a GenericTypeMeta (funsor) class -/
  sep : ∀ a b, E.isFn b = true → E.isFn a = false → E.L a b = false
  tupPlain : E.isFn E.kTuple = false
  fsPlain : E.isFn E.kFs = false
  /-- no funsor class derives from tuple / frozenset -/
  fnTup : ∀ a, E.isFn a = true → E.L a E.kTuple = false
  fnFs : ∀ a, E.isFn a = true → E.L a E.kFs = false
  fsTup : E.L E.kFs E.kTuple = false
  tupFs : E.L E.kTuple E.kFs = false

def proper : Ty → Bool
  | .any | .union _ => false
  | _ => true

mutual
/-- `cls k` names a plain class, `fn k _` a GenericTypeMeta class, and (as `typing.Union` guarantees
    up to `Any`) the members of a union are neither unions nor `Any`. -/
def wf (E : Env) : Ty → Bool
  | .any | .tupB | .fsB => true
  | .cls k => !E.isFn k
  | .tup xs => wfL E xs
  | .tupV x => wf E x
  | .fs x => wf E x
  | .union xs => wfL E xs && xs.all proper
  | .fn k args => E.isFn k && wfL E args
def wfL (E : Env) : List Ty → Bool
  | [] => true
  | x :: xs => wf E x && wfL E xs
end

mutual
def size : Ty → Nat
  | .any | .tupB | .fsB | .cls _ => 1
  | .tup xs => 1 + sizeL xs
  | .tupV x => 1 + size x
  | .fs x => 1 + size x
  | .union xs => 1 + sizeL xs
  | .fn _ args => 1 + sizeL args
def sizeL : List Ty → Nat
  | [] => 0
  | x :: xs => size x + sizeL xs
end

theorem size_pos : ∀ t : Ty, 0 < size t := by
  intro t; cases t <;> simp [size] <;> omega

theorem size_mem {x : Ty} : ∀ {xs : List Ty}, x ∈ xs → size x ≤ sizeL xs := by
  intro xs
  induction xs with
  | nil => intro h; cases h
  | cons y ys ih =>
    intro h
    simp only [sizeL]
    rcases List.mem_cons.mp h with rfl | h
    · omega
    · have := ih h; omega

theorem wfL_mem {E : Env} {x : Ty} : ∀ {xs : List Ty}, wfL E xs = true → x ∈ xs → wf E x = true := by
  intro xs
  induction xs with
  | nil => intro _ h; cases h
  | cons y ys ih =>
    intro hw h
    simp only [wfL, Bool.and_eq_true] at hw
    rcases List.mem_cons.mp h with rfl | h
    · exact hw.1
    · exact ih hw.2 h

/-- elementwise relation on two lists of equal length -/
def all2r (r : Ty → Ty → Bool) : List Ty → List Ty → Bool
  | [], [] => true
  | x :: xs, y :: ys => r x y && all2r r xs ys
  | _, _ => false

section
variable (E : Env) (kf : Bool)

theorem all2_subFns : ∀ (xs ys : List Ty), all2 (subFns E kf xs) ys = all2r (sub E kf) xs ys
  | [], [] => by simp [subFns, all2, all2r]
  | [], _ :: _ => by simp [subFns, all2, all2r]
  | _ :: _, [] => by simp [subFns, all2, all2r]
  | x :: xs, y :: ys => by simp [subFns, all2, all2r, all2_subFns xs ys]

theorem all_subFns (y : Ty) : ∀ (xs : List Ty),
    (subFns E kf xs).all (fun f => f y) = xs.all (fun x => sub E kf x y)
  | [] => by simp [subFns]
  | x :: xs => by simp [subFns, all_subFns y xs]

theorem subFns_length : ∀ (xs : List Ty), (subFns E kf xs).length = xs.length
  | [] => by simp [subFns]
  | _ :: xs => by simp [subFns, subFns_length xs]

theorem subAll_eq (b : Ty) : ∀ (xs : List Ty), subAll E kf xs b = xs.all (fun x => sub E kf x b)
  | [] => by simp [subAll]
  | x :: xs => by simp [subAll, subAll_eq b xs]

theorem anyAgainst_eq (self : Ty) (a : AKind Bool) : ∀ (ys : List Ty),
    anyAgainst E kf self a ys = ys.any (fun y => against E kf self a y)
  | [] => by simp [anyAgainst]
  | y :: ys => by simp [anyAgainst, anyAgainst_eq self a ys]

theorem all2r_length {r : Ty → Ty → Bool} : ∀ {xs ys : List Ty}, all2r r xs ys = true → xs.length = ys.length
  | [], [] => by simp
  | [], _ :: _ => by simp [all2r]
  | _ :: _, [] => by simp [all2r]
  | _ :: xs, _ :: ys => by
      simp only [all2r, Bool.and_eq_true, List.length_cons]
      intro h; rw [all2r_length h.2]

/-! characteristic equations, one per shape of the left argument -/

theorem sub_union (xs : List Ty) (b : Ty) : sub E kf (.union xs) b = xs.all (fun x => sub E kf x b) := by
  rw [sub, subAll_eq]

theorem sub_any_left (b : Ty) : sub E kf .any b = isAny b := by rw [sub]

/-- the `AKind` view of a proper type -/
def akind : Ty → AKind Bool
  | .cls k => .plain k
  | .tupB => .tupB
  | .tup xs => .tup (subFns E kf xs)
  | .tupV x => .tupV (sub E kf x)
  | .fsB => .fsB
  | .fs x => .fs (sub E kf x)
  | .fn k args => .fn k (subFns E kf args)
  | _ => .tupB

theorem sub_proper (a b : Ty) (h : proper a = true) :
    sub E kf a b = against E kf a (akind E kf a) b := by
  cases a <;> simp [proper] at h <;> simp [sub, akind]

theorem against_union (self : Ty) (a : AKind Bool) (ys : List Ty) :
    against E kf self a (.union ys) = ys.any (fun y => against E kf self a y) := by
  rw [against, anyAgainst_eq]

theorem sub_union_right (a : Ty) (ys : List Ty) (h : proper a = true) :
    sub E kf a (.union ys) = ys.any (fun y => sub E kf a y) := by
  rw [sub_proper E kf a _ h, against_union]
  congr 1
  funext y
  rw [sub_proper E kf a y h]

theorem sub_any_right (a : Ty) (h : proper a = true) : sub E kf a .any = true := by
  rw [sub_proper E kf a _ h, against]

/-- `get_origin` of a proper type as a leaf id -/
def orgT : Ty → Nat
  | .cls k => k
  | .tupB | .tup _ | .tupV _ => E.kTuple
  | .fsB | .fs _ => E.kFs
  | .fn k _ => k
  | _ => 0

theorem akind_org (a : Ty) (h : proper a = true) : (akind E kf a).org E = orgT E a := by
  cases a <;> simp [proper] at h <;> simp [akind, AKind.org, orgT]

theorem sub_cls_right (a : Ty) (k : Nat) (h : proper a = true) :
    sub E kf a (.cls k) = E.L (orgT E a) k := by
  rw [sub_proper E kf a _ h, against, akind_org E kf a h]

end

end FV.Props.C16
