/-
  Props/C16/Table.lean — the GENERATED leaf-class table (Gen/C16Table.lean: the live `issubclass`
  matrix of every class occurring in a registered signature, every funsor term class, every op class
  and the builtins) satisfies the hypotheses `TableOK` of the subtype theorems: decidable checks over
  the table (`decide +kernel`), lifted to all leaf ids by `tableOK_of_checks`.
-/
import FunsorVerif.Model.C16
import FunsorVerif.Props.C16.Trans
import FunsorVerif.Props.C16.Sound
import FunsorVerif.Gen.C16Table
namespace FV.Props.C16
open FV.C16

/-- the superclass lists are transitively closed -/
def transCheckT (T : Table) : Bool :=
  T.sups.all fun row => row.all fun b => (T.row b).all fun c => row.contains c

/-- a plain class has no GenericTypeMeta superclass -/
def sepCheckT (T : Table) : Bool :=
  (List.range T.sups.length).all fun a => T.isFn a || (T.row a).all fun b => !T.isFn b

/-- funsor classes are unrelated to tuple / frozenset -/
def fnCheckT (T : Table) : Bool :=
  (List.range T.fnFlag.length).all fun a => !T.isFn a || (!T.L a T.kTuple && !T.L a T.kFs)

def miscCheckT (T : Table) : Bool :=
  !T.isFn T.kTuple && !T.isFn T.kFs && !T.L T.kFs T.kTuple && !T.L T.kTuple T.kFs &&
  T.sups.length == T.fnFlag.length

theorem row_mem_or_nil (T : Table) (a : Nat) : T.row a ∈ T.sups ∨ T.row a = [] := by
  unfold Table.row
  by_cases h : a < T.sups.length
  · left; simp [List.getD, List.getElem?_eq_getElem h]
  · right; simp [List.getD, List.getElem?_eq_none (Nat.le_of_not_lt h)]

theorem isFn_lt (T : Table) (a : Nat) (h : T.isFn a = true) : a < T.fnFlag.length := by
  unfold Table.isFn at h
  by_cases hl : a < T.fnFlag.length
  · exact hl
  · simp [List.getD, List.getElem?_eq_none (Nat.le_of_not_lt hl)] at h

theorem tableOK_of_checks (T : Table) (h1 : transCheckT T = true) (h2 : sepCheckT T = true)
    (h3 : fnCheckT T = true) (h4 : miscCheckT T = true) : TableOK T.env := by
  simp only [miscCheckT, Bool.and_eq_true, Bool.not_eq_true', beq_iff_eq] at h4
  obtain ⟨⟨⟨⟨m1, m2⟩, m3⟩, m4⟩, m5⟩ := h4
  have trans : ∀ a b c, T.L a b = true → T.L b c = true → T.L a c = true := by
    intro a b c hab hbc
    simp only [Table.L, Bool.or_eq_true, beq_iff_eq, List.contains_eq_mem, decide_eq_true_eq] at *
    rcases hab with rfl | hab
    · exact hbc
    rcases hbc with rfl | hbc
    · exact Or.inr hab
    right
    rcases row_mem_or_nil T a with hr | hr
    · simp only [transCheckT, List.all_eq_true, List.contains_eq_mem, decide_eq_true_eq] at h1
      exact h1 _ hr b hab c hbc
    · rw [hr] at hab; cases hab
  have sep : ∀ a b, T.isFn b = true → T.isFn a = false → T.L a b = false := by
    intro a b hb ha
    simp only [Table.L, Bool.or_eq_false_iff, beq_eq_false_iff_ne, ne_eq]
    refine ⟨fun hab => (by subst hab; rw [hb] at ha; cases ha), ?_⟩
    by_cases hl : a < T.sups.length
    · simp only [sepCheckT, List.all_eq_true, List.mem_range, Bool.or_eq_true, Bool.not_eq_true'] at h2
      rcases h2 a hl with h | h
      · rw [h] at ha; cases ha
      · cases hc : (T.row a).contains b with
        | false => rfl
        | true =>
          simp only [List.contains_eq_mem, decide_eq_true_eq] at hc
          have := h b hc; rw [hb] at this; cases this
    · have : T.row a = [] := by
        unfold Table.row; simp [List.getD, List.getElem?_eq_none (Nat.le_of_not_lt hl)]
      rw [this]; rfl
  have fnBoth : ∀ a, T.isFn a = true → T.L a T.kTuple = false ∧ T.L a T.kFs = false := by
    intro a ha
    simp only [fnCheckT, List.all_eq_true, List.mem_range, Bool.or_eq_true, Bool.not_eq_true',
      Bool.and_eq_true] at h3
    rcases h3 a (isFn_lt T a ha) with h | h
    · rw [h] at ha; cases ha
    · exact h
  exact {
    refl := fun k => by simp [Table.env, Table.L]
    trans := trans
    sep := sep
    tupPlain := m1
    fsPlain := m2
    fnTup := fun a ha => (fnBoth a ha).1
    fnFs := fun a ha => (fnBoth a ha).2
    fsTup := m3
    tupFs := m4 }

open FV.Gen.C16 in
/-- **obligation over the generated table** (re-elaborated whenever /repo's classes change) -/
theorem table_checks :
    (transCheckT table && sepCheckT table && fnCheckT table && miscCheckT table) = true := by
  decide +kernel

open FV.Gen.C16 in
/-- the live leaf-class relation is a preorder with plain and funsor classes separated -/
theorem table_ok : TableOK table.env := by
  have h := table_checks
  simp only [Bool.and_eq_true] at h
  exact tableOK_of_checks table h.1.1.1 h.1.1.2 h.1.2 h.2

open FV.Gen.C16 in
/-- reflexivity on the live table -/
theorem live_sub_refl (a : Ty) (h : uok a = true) : sub table.env true a a = true :=
  sub_refl table.env true table_ok a h

open FV.Gen.C16 in
/-- transitivity on the live table (as coded, away from KF-tuple-subclass) -/
theorem live_sub_trans (a b c : Ty)
    (hwa : wf table.env a = true) (hwb : wf table.env b = true) (hwc : wf table.env c = true)
    (hkb : kfFree b = true) (hkc : kfFree c = true)
    (hab : sub table.env true a b = true) (hbc : sub table.env true b c = true) :
    sub table.env true a c = true :=
  sub_trans table.env table_ok a b c hwa hwb hwc hkb hkc hab hbc

/-- classes whose metaclass answers instead of raising on a typing generic are not above tuple/frozenset -/
def raisesCheckT (T : Table) : Bool :=
  (List.range T.raises.length).all fun k =>
    T.raises.getD k true || (!T.L T.kTuple k && !T.L T.kFs k)

theorem raisesOK_of_check (T : Table) (h : raisesCheckT T = true) : RaisesOK T.env := by
  intro k hk
  simp only [Table.env] at hk
  by_cases hl : k < T.raises.length
  · simp only [raisesCheckT, List.all_eq_true, List.mem_range, Bool.or_eq_true, Bool.and_eq_true,
      Bool.not_eq_true'] at h
    rcases h k hl with h1 | h1
    · rw [h1] at hk; cases hk
    · exact h1
  · simp [List.getD, List.getElem?_eq_none (Nat.le_of_not_lt hl)] at hk

open FV.Gen.C16 in
theorem table_raises_check : raisesCheckT table = true := by decide +kernel

open FV.Gen.C16 in
theorem table_raises_ok : RaisesOK table.env := raisesOK_of_check table table_raises_check

open FV.Gen.C16 in
/-- on the live table: a value returned by the three-valued model (the one compared with the real
    `deep_issubclass` on every pool pair) is the value of the relation the order theorems are about -/
theorem live_subE_sound (a b : Ty) : RSound (subE table.env a b) (sub table.env true a b) :=
  subE_sound table.env table_raises_ok a b

end FV.Props.C16
