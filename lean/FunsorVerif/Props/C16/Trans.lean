/-
  Props/C16/Trans.lean — transitivity of `deep_issubclass`.

  `sub_trans` holds for the relation with the clause of KF-tuple-subclass answering False
  (`kf = false`) unconditionally, and for the relation exactly as coded (`kf = true`) whenever the
  middle and right types contain no fixed-length tuple type starting with a literal `Any`
  (`kfFree`, decidable).  `sub_trans_witness` is the failure outside that hypothesis.
-/
import FunsorVerif.Props.C16.Sub
namespace FV.Props.C16
open FV.C16

section
variable (E : Env) (kf : Bool)

/-- the explicit, decidable hypothesis that keeps a right-hand side out of the finding's corner -/
def Safe (t : Ty) : Prop := kf = true → kfFree t = true

theorem wf_fn_isFn {k : Nat} {args : List Ty} (h : wf E (.fn k args) = true) : E.isFn k = true := by
  simp only [wf, Bool.and_eq_true] at h; exact h.1

theorem all2r_trans {r : Ty → Ty → Bool} : ∀ (xs ys zs : List Ty),
    (∀ x ∈ xs, ∀ y ∈ ys, ∀ z ∈ zs, r x y = true → r y z = true → r x z = true) →
    all2r r xs ys = true → all2r r ys zs = true → all2r r xs zs = true
  | [], [], [], _, _, _ => by simp [all2r]
  | [], [], _ :: _, _, _, h => by simp [all2r] at h
  | [], _ :: _, _, _, h, _ => by simp [all2r] at h
  | _ :: _, [], _, _, h, _ => by simp [all2r] at h
  | _ :: _, _ :: _, [], _, _, h => by simp [all2r] at h
  | x :: xs, y :: ys, z :: zs, ih, h1, h2 => by
      simp only [all2r, Bool.and_eq_true] at h1 h2 ⊢
      refine ⟨ih x List.mem_cons_self y List.mem_cons_self z List.mem_cons_self h1.1 h2.1, ?_⟩
      exact all2r_trans xs ys zs (fun a ha b hb c hc =>
        ih a (List.mem_cons_of_mem _ ha) b (List.mem_cons_of_mem _ hb) c (List.mem_cons_of_mem _ hc)) h1.2 h2.2

theorem all2r_all {r : Ty → Ty → Bool} (z : Ty) : ∀ (xs ys : List Ty),
    all2r r xs ys = true → ∀ x ∈ xs, ∃ y ∈ ys, r x y = true
  | [], _, _ => by intro x hx; cases hx
  | _ :: _, [], h => by simp [all2r] at h
  | x :: xs, y :: ys, h => by
      simp only [all2r, Bool.and_eq_true] at h
      intro a ha
      rcases List.mem_cons.mp ha with rfl | ha
      · exact ⟨y, List.mem_cons_self, h.1⟩
      · obtain ⟨b, hb, hr⟩ := all2r_all z xs ys h.2 a ha
        exact ⟨b, List.mem_cons_of_mem _ hb, hr⟩

/-! ### inversion lemmas: what can be below each shape of right-hand side -/

theorem inv_tup (T : TableOK E) (a z : Ty) (zs : List Ty) (hp : proper a = true) (hw : wf E a = true)
    (hz : kf = true → isAny z = false) (h : sub E kf a (.tup (z :: zs)) = true) :
    ∃ x xs, a = .tup (x :: xs) ∧ all2r (sub E kf) (x :: xs) (z :: zs) = true := by
  cases a with
  | any => simp [proper] at hp
  | union _ => simp [proper] at hp
  | cls k =>
    simp [sub, against, tupleCheck, AKind.org, AKind.args, headIsAny] at h
    cases kf <;> simp_all
  | tupB =>
    simp [sub, against, tupleCheck, AKind.org, AKind.args, headIsAny] at h
    cases kf <;> simp_all
  | tup xs =>
    cases xs with
    | nil =>
      simp [sub, against, tupleCheck, AKind.org, AKind.args, headIsAny, subFns] at h
      cases kf <;> simp_all
    | cons x xs =>
      refine ⟨x, xs, rfl, ?_⟩
      have h2 := all2_subFns E kf (x :: xs) (z :: zs)
      simp only [subFns] at h2
      simp [sub, against, tupleCheck, AKind.org, AKind.args, subFns] at h
      rw [← h2]; exact h.2
  | tupV x => simp [sub, against, tupleCheck, AKind.org, AKind.args] at h
  | fsB => simp [sub, against, tupleCheck, AKind.org, T.fsTup] at h
  | fs x => simp [sub, against, tupleCheck, AKind.org, T.fsTup] at h
  | fn k args =>
    have := T.fnTup k (wf_fn_isFn E hw)
    simp [sub, against, tupleCheck, AKind.org, this] at h

/-- shapes without type arguments on the left of a tuple check -/
def bareTup : Ty → Bool
  | .cls _ | .tupB | .tup [] => true
  | _ => false

theorem inv_tupV (T : TableOK E) (a z : Ty) (hp : proper a = true) (hw : wf E a = true)
    (h : sub E kf a (.tupV z) = true) :
    E.L (orgT E a) E.kTuple = true ∧
    ((bareTup a = true ∧ isAny z = true) ∨
     (∃ x xs, a = .tup (x :: xs) ∧ ∀ x' ∈ x :: xs, sub E kf x' z = true) ∨
     (∃ x, a = .tupV x ∧ sub E kf x z = true)) := by
  cases a with
  | any => simp [proper] at hp
  | union _ => simp [proper] at hp
  | cls k =>
    simp [sub, against, tupleCheck, AKind.org, AKind.args] at h
    exact ⟨by simpa [orgT] using h.1, Or.inl ⟨rfl, h.2⟩⟩
  | tupB =>
    simp [sub, against, tupleCheck, AKind.org, AKind.args] at h
    exact ⟨by simpa [orgT] using h.1, Or.inl ⟨rfl, h.2⟩⟩
  | tup xs =>
    cases xs with
    | nil =>
      simp [sub, against, tupleCheck, AKind.org, AKind.args, subFns] at h
      exact ⟨by simpa [orgT] using h.1, Or.inl ⟨rfl, h.2⟩⟩
    | cons x xs =>
      have h2 := all_subFns E kf z (x :: xs)
      simp only [subFns] at h2
      simp [sub, against, tupleCheck, AKind.org, AKind.args, subFns] at h
      refine ⟨by simpa [orgT] using h.1, Or.inr (Or.inl ⟨x, xs, rfl, ?_⟩)⟩
      have h3 : (sub E kf x :: subFns E kf xs).all (fun f => f z) = true := by
        simp [List.all_cons]; exact h.2
      rw [h2] at h3
      exact List.all_eq_true.mp h3
  | tupV x =>
    simp [sub, against, tupleCheck, AKind.org, AKind.args] at h
    exact ⟨by simpa [orgT] using h.1, Or.inr (Or.inr ⟨x, rfl, h.2⟩)⟩
  | fsB => simp [sub, against, tupleCheck, AKind.org, T.fsTup] at h
  | fs x => simp [sub, against, tupleCheck, AKind.org, T.fsTup] at h
  | fn k args =>
    have := T.fnTup k (wf_fn_isFn E hw)
    simp [sub, against, tupleCheck, AKind.org, this] at h

def bareFs : Ty → Bool
  | .cls _ | .fsB => true
  | _ => false

theorem inv_fs (T : TableOK E) (a z : Ty) (hp : proper a = true) (hw : wf E a = true)
    (h : sub E kf a (.fs z) = true) :
    E.L (orgT E a) E.kFs = true ∧
    ((bareFs a = true ∧ isAny z = true) ∨ (∃ x, a = .fs x ∧ sub E kf x z = true)) := by
  cases a with
  | any => simp [proper] at hp
  | union _ => simp [proper] at hp
  | cls k =>
    simp [sub, against, fsCheck, AKind.org, AKind.args] at h
    exact ⟨by simpa [orgT] using h.1, Or.inl ⟨rfl, h.2⟩⟩
  | fsB =>
    simp [sub, against, fsCheck, AKind.org, AKind.args] at h
    exact ⟨by simpa [orgT] using h.1, Or.inl ⟨rfl, h.2⟩⟩
  | fs x =>
    simp [sub, against, fsCheck, AKind.org, AKind.args] at h
    exact ⟨by simpa [orgT] using h.1, Or.inr ⟨x, rfl, h.2⟩⟩
  | tupB => simp [sub, against, fsCheck, AKind.org, T.tupFs] at h
  | tup xs => simp [sub, against, fsCheck, AKind.org, T.tupFs] at h
  | tupV x => simp [sub, against, fsCheck, AKind.org, T.tupFs] at h
  | fn k args =>
    have := T.fnFs k (wf_fn_isFn E hw)
    simp [sub, against, fsCheck, AKind.org, this] at h

theorem inv_fn (T : TableOK E) (a : Ty) (kc : Nat) (cargs : List Ty) (hp : proper a = true)
    (hw : wf E a = true) (hc : E.isFn kc = true) (h : sub E kf a (.fn kc cargs) = true) :
    a = .fn kc cargs ∨ ∃ ka aargs, a = .fn ka aargs ∧ E.L ka kc = true ∧
      (if aargs.length != cargs.length then cargs.isEmpty = true
       else all2r (sub E kf) aargs cargs = true) := by
  cases a with
  | any => simp [proper] at hp
  | union _ => simp [proper] at hp
  | cls k =>
    simp only [wf, Bool.not_eq_true'] at hw
    simp [sub, against, fnCheck, Ty.beq, AKind.org, T.sep k kc hc hw] at h
  | tupB => simp [sub, against, fnCheck, Ty.beq, AKind.org, T.sep _ kc hc T.tupPlain] at h
  | tup xs => simp [sub, against, fnCheck, Ty.beq, AKind.org, T.sep _ kc hc T.tupPlain] at h
  | tupV x => simp [sub, against, fnCheck, Ty.beq, AKind.org, T.sep _ kc hc T.tupPlain] at h
  | fsB => simp [sub, against, fnCheck, Ty.beq, AKind.org, T.sep _ kc hc T.fsPlain] at h
  | fs x => simp [sub, against, fnCheck, Ty.beq, AKind.org, T.sep _ kc hc T.fsPlain] at h
  | fn ka aargs =>
    simp only [sub, against, fnCheck] at h
    split at h
    · rename_i hb
      exact Or.inl (beq_eq _ _ hb)
    · refine Or.inr ⟨ka, aargs, rfl, ?_⟩
      simp only [Bool.and_eq_true, subFns_length] at h
      refine ⟨h.1, ?_⟩
      have h2 := h.2
      split at h2
      · rename_i hl; rw [if_pos hl]; exact h2
      · rename_i hl; rw [if_neg hl]; rw [← all2_subFns]; exact h2

theorem sub_bare_right (a : Ty) (hp : proper a = true) :
    sub E kf a .tupB = E.L (orgT E a) E.kTuple ∧
    sub E kf a (.tup []) = E.L (orgT E a) E.kTuple ∧
    sub E kf a .fsB = E.L (orgT E a) E.kFs := by
  rw [sub_proper E kf a _ hp, sub_proper E kf a _ hp, sub_proper E kf a _ hp]
  simp only [against, tupleCheck, fsCheck, akind_org E kf a hp]
  cases E.L (orgT E a) E.kTuple <;> cases E.L (orgT E a) E.kFs <;> simp

/-- a subtype's origin class is a subclass of the supertype's origin class -/
theorem sub_org (T : TableOK E) (a b : Ty) (hpa : proper a = true) (hpb : proper b = true)
    (hwa : wf E a = true) (hwb : wf E b = true) (h : sub E kf a b = true) :
    E.L (orgT E a) (orgT E b) = true := by
  cases b with
  | any => simp [proper] at hpb
  | union _ => simp [proper] at hpb
  | cls k => rw [sub_cls_right E kf a k hpa] at h; exact h
  | tupB => rw [(sub_bare_right E kf a hpa).1] at h; exact h
  | fsB => rw [(sub_bare_right E kf a hpa).2.2] at h; exact h
  | tupV z => exact (inv_tupV E kf T a z hpa hwa h).1
  | fs z => exact (inv_fs E kf T a z hpa hwa h).1
  | tup zs =>
    cases zs with
    | nil => rw [(sub_bare_right E kf a hpa).2.1] at h; exact h
    | cons z zs =>
      rw [sub_proper E kf a _ hpa] at h
      simp only [against, tupleCheck, akind_org E kf a hpa] at h
      show E.L (orgT E a) E.kTuple = true
      cases hL : E.L (orgT E a) E.kTuple with
      | true => rfl
      | false => simp [hL] at h
  | fn kc cargs =>
    rcases inv_fn E kf T a kc cargs hpa hwa (wf_fn_isFn E hwb) h with rfl | ⟨ka, aargs, rfl, hL, _⟩
    · exact T.refl _
    · exact hL

/-! ### everything with a tuple (frozenset) origin is below `Tuple[Any, ...]` (`FrozenSet[Any]`) -/

theorem sub_tupV_any (T : TableOK E) (a : Ty) (hp : proper a = true) (hw : wf E a = true)
    (hL : E.L (orgT E a) E.kTuple = true) : sub E kf a (.tupV .any) = true := by
  cases a with
  | any => simp [proper] at hp
  | union _ => simp [proper] at hp
  | cls k => simp only [orgT] at hL; simp [sub, against, tupleCheck, AKind.org, AKind.args, isAny, hL]
  | tupB => simp [sub, against, tupleCheck, AKind.org, AKind.args, isAny, T.refl]
  | tup xs =>
    cases xs with
    | nil => simp [sub, against, tupleCheck, AKind.org, AKind.args, isAny, T.refl, subFns]
    | cons x xs =>
      have h2 := all_subFns E kf .any (x :: xs)
      simp only [subFns] at h2
      have h3 := subL_to_any E kf (x :: xs)
      rw [← h2] at h3
      simp [sub, against, tupleCheck, AKind.org, AKind.args, T.refl, subFns]
      simpa using h3
  | tupV x => simp [sub, against, tupleCheck, AKind.org, AKind.args, T.refl, sub_to_any]
  | fsB => simp [orgT, T.fsTup] at hL
  | fs x => simp [orgT, T.fsTup] at hL
  | fn k args => simp [orgT, T.fnTup k (wf_fn_isFn E hw)] at hL

theorem sub_fs_any (T : TableOK E) (a : Ty) (hp : proper a = true) (hw : wf E a = true)
    (hL : E.L (orgT E a) E.kFs = true) : sub E kf a (.fs .any) = true := by
  cases a with
  | any => simp [proper] at hp
  | union _ => simp [proper] at hp
  | cls k => simp only [orgT] at hL; simp [sub, against, fsCheck, AKind.org, AKind.args, isAny, hL]
  | fsB => simp [sub, against, fsCheck, AKind.org, AKind.args, isAny, T.refl]
  | fs x => simp [sub, against, fsCheck, AKind.org, AKind.args, T.refl, sub_to_any]
  | tupB => simp [orgT, T.tupFs] at hL
  | tup xs => simp [orgT, T.tupFs] at hL
  | tupV x => simp [orgT, T.tupFs] at hL
  | fn k args => simp [orgT, T.fnFs k (wf_fn_isFn E hw)] at hL

theorem isAny_eq {z : Ty} (h : isAny z = true) : z = .any := by
  cases z <;> simp [isAny] at h; rfl

theorem safe_tup_head {kf : Bool} {z : Ty} {zs : List Ty} (h : Safe kf (.tup (z :: zs))) :
    kf = true → isAny z = false := by
  intro hk
  have := h hk
  simp only [kfFree, Bool.and_eq_true, Bool.not_eq_true'] at this
  exact this.1.1

theorem safe_tup_mem {kf : Bool} {zs : List Ty} (h : Safe kf (.tup zs)) : ∀ z ∈ zs, Safe kf z := by
  intro z hz hk
  have := h hk
  cases zs with
  | nil => cases hz
  | cons y ys =>
    simp only [kfFree, Bool.and_eq_true] at this
    exact kfFreeL_mem (xs := y :: ys) (by simp only [kfFreeL, Bool.and_eq_true]; exact ⟨this.1.2, this.2⟩) hz

theorem safe_tupV {kf : Bool} {z : Ty} (h : Safe kf (.tupV z)) : Safe kf z := by
  intro hk; have := h hk; simpa [kfFree] using this

theorem safe_fs {kf : Bool} {z : Ty} (h : Safe kf (.fs z)) : Safe kf z := by
  intro hk; have := h hk; simpa [kfFree] using this

theorem safe_fn_mem {kf : Bool} {k : Nat} {zs : List Ty} (h : Safe kf (.fn k zs)) : ∀ z ∈ zs, Safe kf z := by
  intro z hz hk
  have := h hk
  simp only [kfFree] at this
  exact kfFreeL_mem this hz

theorem safe_union_mem {kf : Bool} {zs : List Ty} (h : Safe kf (.union zs)) : ∀ z ∈ zs, Safe kf z := by
  intro z hz hk
  have := h hk
  simp only [kfFree] at this
  exact kfFreeL_mem this hz

theorem wf_tup_mem {xs : List Ty} (h : wf E (.tup xs) = true) : ∀ x ∈ xs, wf E x = true := by
  intro x hx; simp only [wf] at h; exact wfL_mem h hx

theorem wf_fn_mem {k : Nat} {xs : List Ty} (h : wf E (.fn k xs) = true) : ∀ x ∈ xs, wf E x = true := by
  intro x hx; simp only [wf, Bool.and_eq_true] at h; exact wfL_mem h.2 hx

theorem wf_union_mem {xs : List Ty} (h : wf E (.union xs) = true) :
    ∀ x ∈ xs, wf E x = true ∧ proper x = true := by
  intro x hx; simp only [wf, Bool.and_eq_true] at h
  exact ⟨wfL_mem h.1 hx, List.all_eq_true.mp h.2 x hx⟩

/-- the induction hypothesis handed to the core step -/
def IHyp (n : Nat) : Prop :=
  ∀ a b c : Ty, size a + size b + size c < n →
    wf E a = true → wf E b = true → wf E c = true → Safe kf b → Safe kf c →
    sub E kf a b = true → sub E kf b c = true → sub E kf a c = true

theorem trans_core (T : TableOK E) (a b c : Ty) (IH : IHyp E kf (size a + size b + size c))
    (hpa : proper a = true) (hpb : proper b = true) (hpc : proper c = true)
    (hwa : wf E a = true) (hwb : wf E b = true) (hwc : wf E c = true)
    (hsb : Safe kf b) (hsc : Safe kf c)
    (hab : sub E kf a b = true) (hbc : sub E kf b c = true) : sub E kf a c = true := by
  have horg := sub_org E kf T a b hpa hpb hwa hwb hab
  cases c with
  | any => simp [proper] at hpc
  | union _ => simp [proper] at hpc
  | cls k =>
    rw [sub_cls_right E kf a k hpa]
    rw [sub_cls_right E kf b k hpb] at hbc
    exact T.trans _ _ _ horg hbc
  | tupB =>
    rw [(sub_bare_right E kf a hpa).1]
    rw [(sub_bare_right E kf b hpb).1] at hbc
    exact T.trans _ _ _ horg hbc
  | fsB =>
    rw [(sub_bare_right E kf a hpa).2.2]
    rw [(sub_bare_right E kf b hpb).2.2] at hbc
    exact T.trans _ _ _ horg hbc
  | tup zs =>
    cases zs with
    | nil =>
      rw [(sub_bare_right E kf a hpa).2.1]
      rw [(sub_bare_right E kf b hpb).2.1] at hbc
      exact T.trans _ _ _ horg hbc
    | cons z zs =>
      obtain ⟨y, ys, rfl, hyz⟩ := inv_tup E kf T b z zs hpb hwb (safe_tup_head hsc) hbc
      obtain ⟨x, xs, rfl, hxy⟩ := inv_tup E kf T a y ys hpa hwa (safe_tup_head hsb) hab
      have h2 := all2_subFns E kf (x :: xs) (z :: zs)
      simp only [subFns] at h2
      simp [sub, against, tupleCheck, AKind.org, AKind.args, subFns, T.refl]
      have : all2r (sub E kf) (x :: xs) (z :: zs) = true := by
        refine all2r_trans (x :: xs) (y :: ys) (z :: zs) ?_ hxy hyz
        intro x' hx' y' hy' z' hz' h1 h2
        refine IH x' y' z' ?_ (wf_tup_mem E hwa x' hx') (wf_tup_mem E hwb y' hy') (wf_tup_mem E hwc z' hz')
          (safe_tup_mem hsb y' hy') (safe_tup_mem hsc z' hz') h1 h2
        have := size_mem hx'; have := size_mem hy'; have := size_mem hz'
        simp only [size]; omega
      rw [← h2] at this
      simpa [all2] using this
  | tupV z =>
    obtain ⟨hLb, hcases⟩ := inv_tupV E kf T b z hpb hwb hbc
    have hLa : E.L (orgT E a) E.kTuple = true := T.trans _ _ _ horg hLb
    rcases hcases with ⟨_, hany⟩ | ⟨y, ys, rfl, hys⟩ | ⟨y, rfl, hyz⟩
    · rw [isAny_eq hany]; exact sub_tupV_any E kf T a hpa hwa hLa
    · obtain ⟨x, xs, rfl, hxy⟩ := inv_tup E kf T a y ys hpa hwa (safe_tup_head hsb) hab
      have h2 := all_subFns E kf z (x :: xs)
      simp only [subFns] at h2
      have : (x :: xs).all (fun x' => sub E kf x' z) = true := by
        rw [List.all_eq_true]
        intro x' hx'
        obtain ⟨y', hy', hr⟩ := all2r_all z (x :: xs) (y :: ys) hxy x' hx'
        refine IH x' y' z ?_ (wf_tup_mem E hwa x' hx') (wf_tup_mem E hwb y' hy') (by simpa [wf] using hwc)
          (safe_tup_mem hsb y' hy') (safe_tupV hsc) hr (hys y' hy')
        have := size_mem hx'; have := size_mem hy'
        simp only [size]; omega
      rw [← h2] at this
      simp [sub, against, tupleCheck, AKind.org, AKind.args, subFns, T.refl]
      simpa using this
    · obtain ⟨_, hc2⟩ := inv_tupV E kf T a y hpa hwa hab
      rcases hc2 with ⟨_, hany⟩ | ⟨x, xs, rfl, hxs⟩ | ⟨x, rfl, hxy⟩
      · rw [isAny_eq hany] at hyz
        rw [(sub_any_iff E kf z).mp hyz]
        exact sub_tupV_any E kf T a hpa hwa hLa
      · have h2 := all_subFns E kf z (x :: xs)
        simp only [subFns] at h2
        have : (x :: xs).all (fun x' => sub E kf x' z) = true := by
          rw [List.all_eq_true]
          intro x' hx'
          refine IH x' y z ?_ (wf_tup_mem E hwa x' hx') (by simpa [wf] using hwb) (by simpa [wf] using hwc)
            (safe_tupV hsb) (safe_tupV hsc) (hxs x' hx') hyz
          have := size_mem hx'
          simp only [size]; omega
        rw [← h2] at this
        simp [sub, against, tupleCheck, AKind.org, AKind.args, subFns, T.refl]
        simpa using this
      · have := IH x y z (by simp only [size]; omega) (by simpa [wf] using hwa) (by simpa [wf] using hwb)
          (by simpa [wf] using hwc) (safe_tupV hsb) (safe_tupV hsc) hxy hyz
        simp [sub, against, tupleCheck, AKind.org, AKind.args, T.refl, this]
  | fs z =>
    obtain ⟨hLb, hcases⟩ := inv_fs E kf T b z hpb hwb hbc
    have hLa : E.L (orgT E a) E.kFs = true := T.trans _ _ _ horg hLb
    rcases hcases with ⟨_, hany⟩ | ⟨y, rfl, hyz⟩
    · rw [isAny_eq hany]; exact sub_fs_any E kf T a hpa hwa hLa
    · obtain ⟨_, hc2⟩ := inv_fs E kf T a y hpa hwa hab
      rcases hc2 with ⟨_, hany⟩ | ⟨x, rfl, hxy⟩
      · rw [isAny_eq hany] at hyz
        rw [(sub_any_iff E kf z).mp hyz]
        exact sub_fs_any E kf T a hpa hwa hLa
      · have := IH x y z (by simp only [size]; omega) (by simpa [wf] using hwa) (by simpa [wf] using hwb)
          (by simpa [wf] using hwc) (safe_fs hsb) (safe_fs hsc) hxy hyz
        simp [sub, against, fsCheck, AKind.org, AKind.args, T.refl, this]
  | fn kc cargs =>
    have hc := wf_fn_isFn E hwc
    rcases inv_fn E kf T b kc cargs hpb hwb hc hbc with rfl | ⟨kb, bargs, rfl, hLbc, hbcargs⟩
    · exact hab
    · have hb := wf_fn_isFn E hwb
      rcases inv_fn E kf T a kb bargs hpa hwa hb hab with rfl | ⟨ka, aargs, rfl, hLab, habargs⟩
      · exact hbc
      · simp only [sub, against, fnCheck]
        split
        · rfl
        · simp only [Bool.and_eq_true, subFns_length]
          refine ⟨T.trans _ _ _ hLab hLbc, ?_⟩
          by_cases h1 : aargs.length = bargs.length
          · by_cases h2 : bargs.length = cargs.length
            · have hne : (aargs.length != cargs.length) = false := by simp [h1, h2]
              rw [hne]; simp only [Bool.false_eq_true, if_false]
              rw [all2_subFns]
              have e1 : (aargs.length != bargs.length) = false := by simp [h1]
              have e2 : (bargs.length != cargs.length) = false := by simp [h2]
              rw [e1] at habargs; rw [e2] at hbcargs
              simp only [Bool.false_eq_true, if_false] at habargs hbcargs
              refine all2r_trans aargs bargs cargs ?_ habargs hbcargs
              intro x' hx' y' hy' z' hz' r1 r2
              refine IH x' y' z' ?_ (wf_fn_mem E hwa x' hx') (wf_fn_mem E hwb y' hy') (wf_fn_mem E hwc z' hz')
                (safe_fn_mem hsb y' hy') (safe_fn_mem hsc z' hz') r1 r2
              have := size_mem hx'; have := size_mem hy'; have := size_mem hz'
              simp only [size]; omega
            · have e2 : (bargs.length != cargs.length) = true := by simp [h2]
              rw [e2] at hbcargs; simp only [if_true] at hbcargs
              have hc0 : cargs = [] := by simpa using hbcargs
              subst hc0
              have hne : (aargs.length != ([] : List Ty).length) = true := by
                have h3 : bargs.length ≠ 0 := by simpa using h2
                simp [h1, h3]
              rw [hne]; simp
          · have e1 : (aargs.length != bargs.length) = true := by simp [h1]
            rw [e1] at habargs; simp only [if_true] at habargs
            have hb0 : bargs = [] := by simpa using habargs
            subst hb0
            by_cases h2 : ([] : List Ty).length = cargs.length
            · have hc0 : cargs = [] := by
                cases cargs with
                | nil => rfl
                | cons _ _ => simp at h2
              subst hc0
              have hne : (aargs.length != ([] : List Ty).length) = true := by
                have h3 : aargs.length ≠ 0 := by simpa using h1
                simp [h3]
              rw [hne]; simp
            · have e2 : (([] : List Ty).length != cargs.length) = true := by simpa using h2
              rw [e2] at hbcargs; simp only [if_true] at hbcargs
              have hc0 : cargs = [] := by simpa using hbcargs
              subst hc0
              simp at h2

theorem proper_cases (t : Ty) : t = .any ∨ (∃ xs, t = .union xs) ∨ proper t = true := by
  cases t <;> simp [proper]

theorem sub_trans_aux (T : TableOK E) : ∀ n, IHyp E kf n := by
  intro n
  induction n with
  | zero => intro a b c h; omega
  | succ n ih =>
    intro a b c hlt hwa hwb hwc hsb hsc hab hbc
    have IH : IHyp E kf (size a + size b + size c) := fun a' b' c' h => ih a' b' c' (by omega)
    rcases proper_cases a with rfl | ⟨xs, rfl⟩ | hpa
    · -- a = Any: then b = Any
      rw [(sub_any_iff E kf b).mp hab] at hbc; exact hbc
    · -- a = Union: every member
      rw [sub_union, List.all_eq_true] at hab ⊢
      intro x hx
      refine IH x b c ?_ (wf_union_mem E hwa x hx).1 hwb hwc hsb hsc (hab x hx) hbc
      have := size_mem hx; simp only [size]; omega
    · rcases proper_cases b with rfl | ⟨ys, rfl⟩ | hpb
      · -- b = Any: c = Any
        rw [(sub_any_iff E kf c).mp hbc]; exact sub_to_any E kf a
      · -- b = Union: a is below one member, every member is below c
        rw [sub_union_right E kf a ys hpa, List.any_eq_true] at hab
        obtain ⟨y, hy, hay⟩ := hab
        rw [sub_union, List.all_eq_true] at hbc
        refine IH a y c ?_ hwa (wf_union_mem E hwb y hy).1 hwc (safe_union_mem hsb y hy) hsc hay (hbc y hy)
        have := size_mem hy; simp only [size]; omega
      · rcases proper_cases c with rfl | ⟨zs, rfl⟩ | hpc
        · exact sub_to_any E kf a
        · rw [sub_union_right E kf b zs hpb, List.any_eq_true] at hbc
          obtain ⟨z, hz, hbz⟩ := hbc
          rw [sub_union_right E kf a zs hpa, List.any_eq_true]
          refine ⟨z, hz, IH a b z ?_ hwa hwb (wf_union_mem E hwc z hz).1 hsb (safe_union_mem hsc z hz) hab hbz⟩
          have := size_mem hz; simp only [size]; omega
        · exact trans_core E kf T a b c IH hpa hpb hpc hwa hwb hwc hsb hsc hab hbc

end

/-! ## the theorems -/

/-- **Transitivity of `deep_issubclass` as coded** (`kf = true`), for well-formed type expressions over
    a leaf table satisfying `TableOK`, under the explicit decidable hypothesis that the middle and the
    right type contain no fixed-length tuple type whose first parameter is a literal `Any`. -/
theorem sub_trans (E : Env) (T : TableOK E) (a b c : Ty)
    (hwa : wf E a = true) (hwb : wf E b = true) (hwc : wf E c = true)
    (hkb : kfFree b = true) (hkc : kfFree c = true)
    (hab : sub E true a b = true) (hbc : sub E true b c = true) : sub E true a c = true :=
  sub_trans_aux E true T _ a b c (Nat.lt_succ_self _) hwa hwb hwc (fun _ => hkb) (fun _ => hkc) hab hbc

/-- Transitivity, unconditionally, of the relation with the finding's clause answering False. -/
theorem sub_trans_repaired (E : Env) (T : TableOK E) (a b c : Ty)
    (hwa : wf E a = true) (hwb : wf E b = true) (hwc : wf E c = true)
    (hab : sub E false a b = true) (hbc : sub E false b c = true) : sub E false a c = true :=
  sub_trans_aux E false T _ a b c (Nat.lt_succ_self _) hwa hwb hwc (fun h => by cases h) (fun h => by cases h) hab hbc

/-- a small environment: leaf 0 = object, 1 = tuple, 2 = frozenset, 3 = int, 10 = a funsor class -/
def Eex : Env :=
  { L := fun a b => a == b || (b == 0), kTuple := 1, kFs := 2, isFn := fun k => k == 10,
    raisesNonClass := fun _ => true, kVar := 99 }

/-- hypotheses of `sub_trans` are satisfiable, with non-trivial premises. -/
example : wf Eex (.tup [.cls 3, .tup [.cls 3]]) = true ∧ kfFree (.tupV (.union [.cls 3, .tupB])) = true ∧
    sub Eex true (.tup [.cls 3, .tup [.cls 3]]) (.tupV (.union [.cls 3, .tupB])) = true ∧
    sub Eex true (.tupV (.union [.cls 3, .tupB])) (.tupV .any) = true := by decide

/-- **KF-tuple-subclass**: without the hypothesis transitivity fails, on the code as written:
    `Tuple[int,int] ≤ Tuple ≤ Tuple[Any]` but `Tuple[int,int] ≰ Tuple[Any]`. -/
theorem sub_trans_witness :
    sub Eex true (.tup [.cls 3, .cls 3]) .tupB = true ∧ sub Eex true .tupB (.tup [.any]) = true ∧
    sub Eex true (.tup [.cls 3, .cls 3]) (.tup [.any]) = false := by decide

/-- with the clause answering False the same chain is cut at its middle link. -/
theorem sub_trans_witness_repaired : sub Eex false .tupB (.tup [.any]) = false := by decide

/-- `Any` inside a `Union` breaks reflexivity (`subcls is Any → cls is Any` is tested per member):
    hence the hypothesis `uok` of `sub_refl`. -/
theorem sub_refl_witness : sub Eex true (.union [.any, .cls 3]) (.union [.any, .cls 3]) = false := by decide

end FV.Props.C16
