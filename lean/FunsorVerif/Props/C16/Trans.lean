/-
  Props/C16/Trans.lean — transitivity of `deep_issubclass`.

  `sub_trans` holds for the relation with the clause of KF-tuple-subclass answering False
  (`kf = false`) unconditionally, and for the relation exactly as coded (`kf = true`) whenever the
  middle and right types contain no fixed-length tuple type starting with a literal `Any`
  (`kfFree`, decidable).  `sub_trans_witness` is the failure outside that hypothesis.
-/
import FunsorVerif.Props.C16.Sub
namespace FV.Props.C16
open FV.C16

section
variable (E : Env) (kf : Bool)

/-- the explicit, decidable hypothesis that keeps a right-hand side out of the finding's corner -/
def Safe (t : Ty) : Prop := kf = true → kfFree t = true

theorem wf_fn_isFn {k : Nat} {args : List Ty} (h : wf E (.fn k args) = true) : E.isFn k = true := by
  simp only [wf, Bool.and_eq_true] at h; exact h.1

theorem all2r_trans {r : Ty → Ty → Bool} : ∀ (xs ys zs : List Ty),
    (∀ x ∈ xs, ∀ y ∈ ys, ∀ z ∈ zs, r x y = true → r y z = true → r x z = true) →
    all2r r xs ys = true → all2r r ys zs = true → all2r r xs zs = true
  | [], [], [], _, _, _ => by simp [all2r]
  | [], [], _ :: _, _, _, h => by simp [all2r] at h
  | [], _ :: _, _, _, h, _ => by simp [all2r] at h
  | _ :: _, [], _, _, h, _ => by simp [all2r] at h
  | _ :: _, _ :: _, [], _, _, h => by simp [all2r] at h
  | x :: xs, y :: ys, z :: zs, ih, h1, h2 => by
      simp only [all2r, Bool.and_eq_true] at h1 h2 ⊢
      refine ⟨ih x List.mem_cons_self y List.mem_cons_self z List.mem_cons_self h1.1 h2.1, ?_⟩
      exact all2r_trans xs ys zs (fun a ha b hb c hc =>
        ih a (List.mem_cons_of_mem _ ha) b (List.mem_cons_of_mem _ hb) c (List.mem_cons_of_mem _ hc)) h1.2 h2.2

theorem all2r_all {r : Ty → Ty → Bool} (z : Ty) : ∀ (xs ys : List Ty),
    all2r r xs ys = true → ∀ x ∈ xs, ∃ y ∈ ys, r x y = true
  | [], _, _ => by intro x hx; cases hx
  | _ :: _, [], h => by simp [all2r] at h
  | x :: xs, y :: ys, h => by
      simp only [all2r, Bool.and_eq_true] at h
      intro a ha
      rcases List.mem_cons.mp ha with rfl | ha
      · exact ⟨y, List.mem_cons_self, h.1⟩
      · obtain ⟨b, hb, hr⟩ := all2r_all z xs ys h.2 a ha
        exact ⟨b, List.mem_cons_of_mem _ hb, hr⟩

/-! ### inversion lemmas: what can be below each shape of right-hand side -/

theorem inv_tup (T : TableOK E) (a z : Ty) (zs : List Ty) (hp : proper a = true) (hw : wf E a = true)
    (hz : kf = true → isAny z = false) (h : sub E kf a (.tup (z :: zs)) = true) :
    ∃ x xs, a = .tup (x :: xs) ∧ all2r (sub E kf) (x :: xs) (z :: zs) = true := by
  cases a with
  | any => simp [proper] at hp
  | union _ => simp [proper] at hp
  | cls k =>
    simp [sub, against, tupleCheck, AKind.org, AKind.args, headIsAny] at h
    cases kf <;> simp_all
  | tupB =>
    simp [sub, against, tupleCheck, AKind.org, AKind.args, headIsAny] at h
    cases kf <;> simp_all
  | tup xs =>
    cases xs with
    | nil =>
      simp [sub, against, tupleCheck, AKind.org, AKind.args, headIsAny, subFns] at h
      cases kf <;> simp_all
    | cons x xs =>
      refine ⟨x, xs, rfl, ?_⟩
      have h2 := all2_subFns E kf (x :: xs) (z :: zs)
      simp only [subFns] at h2
      simp [sub, against, tupleCheck, AKind.org, AKind.args, subFns] at h
      rw [← h2]; exact h.2
  | tupV x => simp [sub, against, tupleCheck, AKind.org, AKind.args] at h
  | fsB => simp [sub, against, tupleCheck, AKind.org, T.fsTup] at h
  | fs x => simp [sub, against, tupleCheck, AKind.org, T.fsTup] at h
  | fn k args =>
    have := T.fnTup k (wf_fn_isFn E hw)
    simp [sub, against, tupleCheck, AKind.org, this] at h

/-- shapes without type arguments on the left of a tuple check -/
def bareTup : Ty → Bool
  | .cls _ | .tupB | .tup [] => true
  | _ => false

theorem inv_tupV (T : TableOK E) (a z : Ty) (hp : proper a = true) (hw : wf E a = true)
    (h : sub E kf a (.tupV z) = true) :
    E.L (orgT E a) E.kTuple = true ∧
    ((bareTup a = true ∧ isAny z = true) ∨
     (∃ x xs, a = .tup (x :: xs) ∧ ∀ x' ∈ x :: xs, sub E kf x' z = true) ∨
     (∃ x, a = .tupV x ∧ sub E kf x z = true)) := by
  cases a with
  | any => simp [proper] at hp
  | union _ => simp [proper] at hp
  | cls k =>
    simp [sub, against, tupleCheck, AKind.org, AKind.args] at h
    exact ⟨by simpa [orgT] using h.1, Or.inl ⟨rfl, h.2⟩⟩
  | tupB =>
    simp [sub, against, tupleCheck, AKind.org, AKind.args] at h
    exact ⟨by simpa [orgT] using h.1, Or.inl ⟨rfl, h.2⟩⟩
  | tup xs =>
    cases xs with
    | nil =>
      simp [sub, against, tupleCheck, AKind.org, AKind.args, subFns] at h
      exact ⟨by simpa [orgT] using h.1, Or.inl ⟨rfl, h.2⟩⟩
    | cons x xs =>
      have h2 := all_subFns E kf z (x :: xs)
      simp only [subFns] at h2
      simp [sub, against, tupleCheck, AKind.org, AKind.args, subFns] at h
      refine ⟨by simpa [orgT] using h.1, Or.inr (Or.inl ⟨x, xs, rfl, ?_⟩)⟩
      have h3 : (sub E kf x :: subFns E kf xs).all (fun f => f z) = true := by
        simp [List.all_cons]; exact h.2
      rw [h2] at h3
      exact List.all_eq_true.mp h3
  | tupV x =>
    simp [sub, against, tupleCheck, AKind.org, AKind.args] at h
    exact ⟨by simpa [orgT] using h.1, Or.inr (Or.inr ⟨x, rfl, h.2⟩)⟩
  | fsB => simp [sub, against, tupleCheck, AKind.org, T.fsTup] at h
  | fs x => simp [sub, against, tupleCheck, AKind.org, T.fsTup] at h
  | fn k args =>
    have := T.fnTup k (wf_fn_isFn E hw)
    simp [sub, against, tupleCheck, AKind.org, this] at h

def bareFs : Ty → Bool
  | .cls _ | .fsB => true
  | _ => false

theorem inv_fs (T : TableOK E) (a z : Ty) (hp : proper a = true) (hw : wf E a = true)
    (h : sub E kf a (.fs z) = true) :
    E.L (orgT E a) E.kFs = true ∧
    ((bareFs a = true ∧ isAny z = true) ∨ (∃ x, a = .fs x ∧ sub E kf x z = true)) := by
  cases a with
  | any => simp [proper] at hp
  | union _ => simp [proper] at hp
  | cls k =>
    simp [sub, against, fsCheck, AKind.org, AKind.args] at h
    exact ⟨by simpa [orgT] using h.1, Or.inl ⟨rfl, h.2⟩⟩
  | fsB =>
    simp [sub, against, fsCheck, AKind.org, AKind.args] at h
    exact ⟨by simpa [orgT] using h.1, Or.inl ⟨rfl, h.2⟩⟩
  | fs x =>
    simp [sub, against, fsCheck, AKind.org, AKind.args] at h
    exact ⟨by simpa [orgT] using h.1, Or.inr ⟨x, rfl, h.2⟩⟩
  | tupB => simp [sub, against, fsCheck, AKind.org, T.tupFs] at h
  | tup xs => simp [sub, against, fsCheck, AKind.org, T.tupFs] at h
  | tupV x => simp [sub, against, fsCheck, AKind.org, T.tupFs] at h
  | fn k args =>
    have := T.fnFs k (wf_fn_isFn E hw)
    simp [sub, against, fsCheck, AKind.org, this] at h

theorem inv_fn (T : TableOK E) (a : Ty) (kc : Nat) (cargs : List Ty) (hp : proper a = true)
    (hw : wf E a = true) (hc : E.isFn kc = true) (h : sub E kf a (.fn kc cargs) = true) :
    a = .fn kc cargs ∨ ∃ ka aargs, a = .fn ka aargs ∧ E.L ka kc = true ∧
      (if aargs.length != cargs.length then cargs.isEmpty = true
       else all2r (sub E kf) aargs cargs = true) := by
  cases a with
  | any => simp [proper] at hp
  | union _ => simp [proper] at hp
  | cls k =>
    simp only [wf, Bool.not_eq_true'] at hw
    simp [sub, against, fnCheck, Ty.beq, AKind.org, T.sep k kc hc hw] at h
  | tupB => simp [sub, against, fnCheck, Ty.beq, AKind.org, T.sep _ kc hc T.tupPlain] at h
  | tup xs => simp [sub, against, fnCheck, Ty.beq, AKind.org, T.sep _ kc hc T.tupPlain] at h
  | tupV x => simp [sub, against, fnCheck, Ty.beq, AKind.org, T.sep _ kc hc T.tupPlain] at h
  | fsB => simp [sub, against, fnCheck, Ty.beq, AKind.org, T.sep _ kc hc T.fsPlain] at h
  | fs x => simp [sub, against, fnCheck, Ty.beq, AKind.org, T.sep _ kc hc T.fsPlain] at h
  | fn ka aargs =>
    simp only [sub, against, fnCheck] at h
    split at h
    · rename_i hb
      exact Or.inl (beq_eq _ _ hb)
    · refine Or.inr ⟨ka, aargs, rfl, ?_⟩
      simp only [Bool.and_eq_true, subFns_length] at h
      refine ⟨h.1, ?_⟩
      have h2 := h.2
      split at h2
      · rename_i hl; rw [if_pos hl]; exact h2
      · rename_i hl; rw [if_neg hl]; rw [← all2_subFns]; exact h2

theorem sub_bare_right (a : Ty) (hp : proper a = true) :
    sub E kf a .tupB = E.L (orgT E a) E.kTuple ∧
    sub E kf a (.tup []) = E.L (orgT E a) E.kTuple ∧
    sub E kf a .fsB = E.L (orgT E a) E.kFs := by
  rw [sub_proper E kf a _ hp, sub_proper E kf a _ hp, sub_proper E kf a _ hp]
  simp only [against, tupleCheck, fsCheck, akind_org E kf a hp]
  cases E.L (orgT E a) E.kTuple <;> cases E.L (orgT E a) E.kFs <;> simp

/-- a subtype's origin class is a subclass of the supertype's origin class -/
theorem sub_org (T : TableOK E) (a b : Ty) (hpa : proper a = true) (hpb : proper b = true)
    (hwa : wf E a = true) (hwb : wf E b = true) (h : sub E kf a b = true) :
    E.L (orgT E a) (orgT E b) = true := by
  cases b with
  | any => simp [proper] at hpb
  | union _ => simp [proper] at hpb
  | cls k => rw [sub_cls_right E kf a k hpa] at h; exact h
  | tupB => rw [(sub_bare_right E kf a hpa).1] at h; exact h
  | fsB => rw [(sub_bare_right E kf a hpa).2.2] at h; exact h
  | tupV z => exact (inv_tupV E kf T a z hpa hwa h).1
  | fs z => exact (inv_fs E kf T a z hpa hwa h).1
  | tup zs =>
    cases zs with
    | nil => rw [(sub_bare_right E kf a hpa).2.1] at h; exact h
    | cons z zs =>
      rw [sub_proper E kf a _ hpa] at h
      simp only [against, tupleCheck, akind_org E kf a hpa] at h
      show E.L (orgT E a) E.kTuple = true
      cases hL : E.L (orgT E a) E.kTuple with
      | true => rfl
      | false => simp [hL] at h
  | fn kc cargs =>
    rcases inv_fn E kf T a kc cargs hpa hwa (wf_fn_isFn E hwb) h with rfl | ⟨ka, aargs, rfl, hL, _⟩
    · exact T.refl _
    · exact hL

end
end FV.Props.C16
