/-
  Props/C17.lean — interpretation contexts nest and unwind like a stack.

  All theorems are about `FV.C17.exec` / `FV.C17.interp` (Model/C17.lean) for EVERY program, every
  environment (names, rule tables) and every initial stack — no size bound.
-/
import FunsorVerif.Model.C17
namespace FV.Props.C17
open FV.C17

/-! ### list facts about push / pop -/

theorem pop?_push (i : I) (s : Stack) : pop? (push i s) = some s := by
  simp [pop?, push]

theorem top?_push (i : I) (s : Stack) : top? (push i s) = some i := by
  simp [top?, push]

/-- `__enter__` either raises and leaves the stack alone, or appends exactly one entry. -/
theorem enterI_push {i : I} {s s' : Stack} (h : enterI i s = .ok s') : ∃ x, s' = push x s := by
  unfold enterI at h
  split at h
  · exact ⟨i, by cases h; rfl⟩
  · split at h
    · cases h
    · split at h
      · cases h
      · next p _ => exact ⟨p, by cases h; rfl⟩

theorem enter_push {env : Env} {c : Ctx} {s s' : Stack} (h : enter env c s = .ok s') :
    ∃ x, s' = push x s := by
  unfold enter at h
  split at h
  · cases h
  · exact enterI_push h

theorem prefix_push (i : I) (s : Stack) : s <+: push i s := by
  simp [push]

/-! ### interpreting a probe restores the stack (temporary pushes of AdjointTape / substitute) -/

/-- `with i: body` restores the stack whenever the body does. -/
theorem withObj_stack (i : I) (s : Stack) (body : Stack → IRes)
    (hb : ∀ s1, (body s1).stack = s1) : (withObj i s body).stack = s := by
  unfold withObj
  split
  · rfl
  · next s1 h =>
    obtain ⟨x, rfl⟩ := enterI_push h
    simp only [hb, pop?_push]

mutual
theorem interp_stack (env : Env) (k : K) (armed : Bool) :
    ∀ (i : I) (s : Stack), (interp env k armed i s).stack = s
  | .reflect, s => by simp [interp]
  | .disp n, s => by
      simp only [interp]; split <;> rfl
  | .prio _ l, s => by
      simp only [interp]; exact interpList_stack env k armed l s
  | .memo b, s => by
      simp only [interp]; exact interp_stack env k armed b s
  | .tape old, s => by
      have ih := interp_stack env k armed old
      have h1 : (if env.adjointOp k = true then withObj old s (fun s1 => interp env k armed old s1)
          else interp env k armed old s).stack = s := by
        split
        · exact withObj_stack old s _ (fun s1 => ih s1)
        · exact ih s
      simp only [interp]
      split
      · simp only []
        rw [h1]
        exact withObj_stack old s _ (fun _ => rfl)
      · exact h1
  | .subst live b, s => by
      have ih := interp_stack env k armed b
      simp only [interp]
      apply withObj_stack
      intro s1
      split
      · split
        · simp [ih]
        · exact ih s1
      · exact ih s1
theorem interpList_stack (env : Env) (k : K) (armed : Bool) :
    ∀ (l : List I) (s : Stack), (interpList env k armed l s).stack = s
  | [], s => by simp [interpList]
  | x :: xs, s => by
      have h := interp_stack env k armed x s
      simp only [interpList]
      split
      · rw [h]; exact interpList_stack env k armed xs s
      · exact h
end

/-! ### exec restores the stack -/

/-- **exec_restores_stack.**  After any well-nested program — whatever mixture of with-blocks,
    decorator calls, total / partial / memoize / tape / substitution contexts, refused entries,
    exceptions raised anywhere (also inside a rule, inside `substitute`, inside the tape) and
    try/except — the stack is exactly the stack before, for every outcome. -/
theorem exec_restores_stack (env : Env) :
    ∀ (p : Prog) (st : St), (exec env p st).2.stack = st.stack
  | .skip, st => rfl
  | .obs, st => rfl
  | .raise, st => rfl
  | .probe k armed, st => by
      simp only [exec]
      split
      · rfl
      · next t _ => exact interp_stack env k armed t st.stack
  | .withI c body, st => by
      simp only [exec]
      split
      · rfl
      · next s1 h =>
        obtain ⟨x, rfl⟩ := enter_push h
        have ih := exec_restores_stack env body { st with stack := push x st.stack }
        generalize exec env body { st with stack := push x st.stack } = r at ih
        obtain ⟨o, st2⟩ := r
        simp only [] at ih ⊢
        rw [ih, pop?_push]
  | .deco c body, st => by
      simp only [exec]
      split
      · rfl
      · next s1 h =>
        obtain ⟨x, rfl⟩ := enter_push h
        have ih := exec_restores_stack env body { st with stack := push x st.stack }
        generalize exec env body { st with stack := push x st.stack } = r at ih
        obtain ⟨o, st2⟩ := r
        simp only [] at ih ⊢
        rw [ih, pop?_push]
  | .seq a b, st => by
      have iha := exec_restores_stack env a st
      simp only [exec]
      split
      · next st1 h =>
        rw [h] at iha
        have ihb := exec_restores_stack env b st1
        rw [ihb]; exact iha
      · next e st1 h => rw [h] at iha; exact iha
  | .catch body, st => by
      have ih := exec_restores_stack env body st
      simp only [exec]
      exact ih


/-- **Decorator form.**  Calling a function decorated with `c` is `with c:` around its body, entered AT
    CALL TIME on the call-time stack (ContextDecorator: `with self._recreate_cm(): return func()`); the
    decoration itself does not touch the stack.  (The harness decorates at one stack state and calls at
    another; the model of the call is `deco c body` at the call site.) -/
theorem deco_is_with_at_call_time (env : Env) (c : Ctx) (body : Prog) (st : St) :
    exec env (.deco c body) st = exec env (.withI c body) st := by
  simp only [exec]

/-! ### every stack ever observed keeps the invariant (prefix / totality) -/

/-- A predicate on stacks that survives every successful `__enter__`. -/
def EnterClosed (Q : Stack → Prop) : Prop :=
  ∀ (i : I) (s s' : Stack), Q s → enterI i s = .ok s' → Q s'

theorem withObj_ok_fired {i : I} {s s1 : Stack} {body : Stack → IRes} (he : enterI i s = .ok s1) :
    (withObj i s body).fired = (body s1).fired := by
  unfold withObj
  rw [he]
  simp only []
  cases pop? (body s1).stack <;> rfl

theorem withObj_fired (Q : Stack → Prop) (hQ : EnterClosed Q) (i : I) (s : Stack) (body : Stack → IRes)
    (hb : ∀ s1 h fs, Q s1 → (body s1).fired = some (h, fs) → Q fs) (hs : Q s) :
    ∀ h fs, (withObj i s body).fired = some (h, fs) → Q fs := by
  intro h fs hf
  cases he : enterI i s with
  | error e => simp [withObj, he] at hf
  | ok s1 =>
    rw [withObj_ok_fired he] at hf
    exact hb s1 h fs (hQ i s s1 hs he) hf

mutual
/-- The stack seen by the rule that fires (inside the tape's / substitute's temporary pushes) keeps `Q`. -/
theorem interp_fired_inv (Q : Stack → Prop) (hQ : EnterClosed Q) (env : Env) (k : K) (armed : Bool) :
    ∀ (i : I) (s : Stack), Q s → ∀ h fs, (interp env k armed i s).fired = some (h, fs) → Q fs
  | .reflect, s, hs, h, fs, hf => by
      simp only [interp, Option.some.injEq, Prod.mk.injEq] at hf; rw [← hf.2]; exact hs
  | .disp n, s, hs, h, fs, hf => by
      simp only [interp] at hf
      split at hf
      · simp only [Option.some.injEq, Prod.mk.injEq] at hf; rw [← hf.2]; exact hs
      · cases hf
  | .prio _ l, s, hs, h, fs, hf => by
      simp only [interp] at hf; exact interpList_fired_inv Q hQ env k armed l s hs h fs hf
  | .memo b, s, hs, h, fs, hf => by
      simp only [interp] at hf; exact interp_fired_inv Q hQ env k armed b s hs h fs hf
  | .tape old, s, hs, h, fs, hf => by
      have ih := interp_fired_inv Q hQ env k armed old
      have h1 : ∀ h fs, (if env.adjointOp k = true then withObj old s (fun s1 => interp env k armed old s1)
          else interp env k armed old s).fired = some (h, fs) → Q fs := by
        intro h fs hf
        split at hf
        · exact withObj_fired Q hQ old s _ (fun s1 h fs q1 hf => ih s1 q1 h fs hf) hs h fs hf
        · exact ih s hs h fs hf
      simp only [interp] at hf
      split at hf
      · exact h1 h fs hf
      · exact h1 h fs hf
  | .subst live b, s, hs, h, fs, hf => by
      have ih := interp_fired_inv Q hQ env k armed b
      simp only [interp] at hf
      refine withObj_fired Q hQ b s _ ?_ hs h fs hf
      intro s1 h fs q1 hf
      split at hf
      · split at hf
        · simp only [Option.some.injEq, Prod.mk.injEq] at hf
          rw [← hf.2, interp_stack]; exact q1
        · exact ih s1 q1 h fs hf
      · exact ih s1 q1 h fs hf
theorem interpList_fired_inv (Q : Stack → Prop) (hQ : EnterClosed Q) (env : Env) (k : K) (armed : Bool) :
    ∀ (l : List I) (s : Stack), Q s → ∀ h fs, (interpList env k armed l s).fired = some (h, fs) → Q fs
  | [], s, hs, h, fs, hf => by simp [interpList] at hf
  | x :: xs, s, hs, h, fs, hf => by
      simp only [interpList] at hf
      split at hf
      · rw [interp_stack] at hf
        exact interpList_fired_inv Q hQ env k armed xs s hs h fs hf
      · exact interp_fired_inv Q hQ env k armed x s hs h fs hf
end

theorem enter_closed {Q : Stack → Prop} (hQ : EnterClosed Q) {env : Env} {c : Ctx} {s s' : Stack}
    (hs : Q s) (h : enter env c s = .ok s') : Q s' := by
  unfold enter at h
  split at h
  · cases h
  · next i _ => exact hQ i s s' hs h

/-- Generic invariant: the log only grows, and every stack observed while the program runs
    (at `obs`, and at the moment a rule fires) satisfies any enter-closed predicate that held at
    the start. -/
theorem exec_obs_invariant (Q : Stack → Prop) (hQ : EnterClosed Q) (env : Env) :
    ∀ (p : Prog) (st : St), Q st.stack →
      ∃ new, (exec env p st).2.log = new ++ st.log ∧ ∀ o ∈ new, Q o.stack
  | .skip, st, _ => ⟨[], rfl, by simp⟩
  | .obs, st, hs => ⟨[.at st.stack], rfl, by simpa [Obs.stack] using hs⟩
  | .raise, st, _ => ⟨[], rfl, by simp⟩
  | .probe k armed, st, hs => by
      simp only [exec]
      split
      · exact ⟨[], rfl, by simp⟩
      · next t _ =>
        cases hf : (interp env k armed t st.stack).fired with
        | none => exact ⟨[.probe k none st.stack], by simp, by simpa [Obs.stack] using hs⟩
        | some hfs =>
          obtain ⟨h, fs⟩ := hfs
          refine ⟨[.probe k (some h) fs], by simp, ?_⟩
          have := interp_fired_inv Q hQ env k armed t st.stack hs h fs hf
          simpa [Obs.stack] using this
  | .withI c body, st, hs => by
      simp only [exec]
      split
      · exact ⟨[], rfl, by simp⟩
      · next s1 h =>
        have q1 : Q s1 := enter_closed hQ hs h
        obtain ⟨new, hl, hq⟩ := exec_obs_invariant Q hQ env body { st with stack := s1 } q1
        generalize exec env body { st with stack := s1 } = r at hl
        obtain ⟨o, st2⟩ := r
        simp only [] at hl ⊢
        split <;> exact ⟨new, hl, hq⟩
  | .deco c body, st, hs => by
      simp only [exec]
      split
      · exact ⟨[], rfl, by simp⟩
      · next s1 h =>
        have q1 : Q s1 := enter_closed hQ hs h
        obtain ⟨new, hl, hq⟩ := exec_obs_invariant Q hQ env body { st with stack := s1 } q1
        generalize exec env body { st with stack := s1 } = r at hl
        obtain ⟨o, st2⟩ := r
        simp only [] at hl ⊢
        split <;> exact ⟨new, hl, hq⟩
  | .seq a b, st, hs => by
      obtain ⟨new1, hl1, hq1⟩ := exec_obs_invariant Q hQ env a st hs
      have hst := exec_restores_stack env a st
      simp only [exec]
      split
      · next st1 h =>
        rw [h] at hl1 hst
        simp only [] at hl1 hst
        obtain ⟨new2, hl2, hq2⟩ := exec_obs_invariant Q hQ env b st1 (by rw [hst]; exact hs)
        refine ⟨new2 ++ new1, by rw [hl2, hl1, List.append_assoc], ?_⟩
        intro o ho
        rcases List.mem_append.mp ho with h' | h'
        · exact hq2 o h'
        · exact hq1 o h'
      · next e st1 h =>
        rw [h] at hl1
        exact ⟨new1, hl1, hq1⟩
  | .catch body, st, hs => by
      obtain ⟨new, hl, hq⟩ := exec_obs_invariant Q hQ env body st hs
      simp only [exec]
      exact ⟨new, hl, hq⟩

theorem prefix_enterClosed (s0 : Stack) : EnterClosed (fun s => s0 <+: s) := by
  intro i s s' hs h
  obtain ⟨x, rfl⟩ := enterI_push h
  exact List.IsPrefix.trans hs (prefix_push x s)

/-- **depth_never_below_base.**  While any program runs from stack `st.stack`, every stack that is
    ever visible — at an observation point, or to a rule firing inside the temporary pushes of the
    adjoint tape / of `substitute` — has `st.stack` as a prefix: nothing below the entry point is
    ever popped or replaced. -/
theorem depth_never_below_base (env : Env) (p : Prog) (st : St) :
    ∃ new, (exec env p st).2.log = new ++ st.log ∧ ∀ o ∈ new, st.stack <+: o.stack :=
  exec_obs_invariant (fun s => st.stack <+: s) (prefix_enterClosed st.stack) env p st
    (List.prefix_refl _)

/-- In particular the import-time base `[reflect, eager]` stays at the bottom, in place. -/
theorem base_never_popped (env : Env) (p : Prog) (r e : I) (rest : Stack) (log : List Obs) :
    ∃ new, (exec env p ⟨r :: e :: rest, log⟩).2.log = new ++ log ∧
      ∀ o ∈ new, o.stack.take 2 = [r, e] ∧ 2 ≤ o.stack.length := by
  obtain ⟨new, hl, hq⟩ := depth_never_below_base env p ⟨r :: e :: rest, log⟩
  refine ⟨new, hl, fun o ho => ?_⟩
  obtain ⟨t, ht⟩ := hq o ho
  simp only [] at ht
  rw [← ht]
  simp


/-! ### who interprets: the innermost context, partial ones falling through -/

mutual
/-- Well-formed objects: what a tape / a SubstituteInterpretation captured was total (true of anything
    taken from a stack whose entries are total, see `stack_stays_total`), so their inner `with` cannot refuse. -/
def WF : I → Bool
  | .reflect => true
  | .disp _ => true
  | .prio _ l => allWF l
  | .memo b => WF b
  | .tape old => old.isTotal && WF old
  | .subst _ b => b.isTotal && WF b
def allWF : List I → Bool
  | [] => true
  | x :: xs => WF x && allWF xs
end

theorem enterI_total {i : I} (s : Stack) (h : i.isTotal = true) : enterI i s = .ok (push i s) := by
  simp [enterI, h]

/-- Entering a total object and leaving it again around a stack-restoring body. -/
theorem withObj_total_eq {i : I} (s : Stack) (body : Stack → IRes) (h : i.isTotal = true)
    (hb : (body (push i s)).stack = push i s) :
    withObj i s body = ⟨(body (push i s)).out, s, (body (push i s)).fired⟩ := by
  unfold withObj
  rw [enterI_total s h]
  simp only [hb, pop?_push]

/-- AdjointTape.interpret when the captured interpretation is total: the probe is interpreted by the
    captured one, under one temporary push for classes in `adjoint_ops`. -/
theorem interp_tape_eq (env : Env) (k : K) (armed : Bool) (old : I) (s : Stack)
    (ht : old.isTotal = true) :
    interp env k armed (.tape old) s =
      ⟨(interp env k armed old (if env.adjointOp k = true then push old s else s)).out, s,
       (interp env k armed old (if env.adjointOp k = true then push old s else s)).fired⟩ := by
  have e2 : ∀ s', withObj old s' (fun s1 => (⟨.normal, s1, none⟩ : IRes)) = ⟨.normal, s', none⟩ :=
    fun s' => withObj_total_eq s' _ ht rfl
  simp only [interp]
  by_cases hadj : env.adjointOp k = true
  · simp only [hadj, if_true]
    rw [withObj_total_eq s _ ht (interp_stack env k armed old _)]
    cases ho : (interp env k armed old (push old s)).out with
    | normal => simp only [e2]
    | exc e => simp only []
  · simp only [hadj, if_false, Bool.false_eq_true]
    cases ho : (interp env k armed old s).out with
    | normal => simp only [e2, interp_stack]
    | exc e =>
      simp only []
      rw [← ho]
      have := interp_stack env k armed old s
      cases hr : interp env k armed old s with
      | mk o st f => rw [hr] at this; simp only [] at this; rw [this]

/-- SubstituteInterpretation.interpret when its base is total. -/
theorem interp_subst_eq (env : Env) (k : K) (armed : Bool) (live : Bool) (b : I) (s : Stack)
    (ht : b.isTotal = true) :
    interp env k armed (.subst live b) s =
      match (interp env k armed b (push b s)).out with
      | .normal =>
        if (live && env.substK k) = true then
          ⟨if armed = true then .exc .probe else .normal, s, some ("subst", push b s)⟩
        else ⟨.normal, s, (interp env k armed b (push b s)).fired⟩
      | .exc e => ⟨.exc e, s, (interp env k armed b (push b s)).fired⟩ := by
  simp only [interp]
  rw [withObj_total_eq s _ ht]
  · cases ho : (interp env k armed b (push b s)).out with
    | normal =>
      simp only []
      split
      · simp [interp_stack]
      · simp [ho]
    | exc e => rw [ho]
  · split
    · split
      · simp [interp_stack]
      · exact interp_stack env k armed b _
    · exact interp_stack env k armed b _

mutual
/-- **innermost_interprets (core).**  Whenever interpretation returns normally, the rule that
    produced the value is `handler i` — a function of the interpretation object alone: not of the
    stack below it, not of the temporary pushes. -/
theorem interp_handler (env : Env) (k : K) (armed : Bool) :
    ∀ (i : I) (s : Stack), WF i = true → (interp env k armed i s).out = .normal →
      (interp env k armed i s).fired.map Prod.fst = handler env k i
  | .reflect, s, _, _ => by simp [interp, handler]
  | .disp n, s, _, _ => by
      simp only [interp, handler]; split <;> rfl
  | .prio _ l, s, hw, ho => by
      simp only [interp] at ho
      simp only [interp, handler]
      exact interpList_handler env k armed l s (by simpa [WF] using hw) ho
  | .memo b, s, hw, ho => by
      simp only [interp] at ho
      simp only [interp, handler]
      exact interp_handler env k armed b s (by simpa [WF] using hw) ho
  | .tape old, s, hw, ho => by
      simp only [WF, Bool.and_eq_true] at hw
      rw [interp_tape_eq env k armed old s hw.1] at ho ⊢
      simp only [handler]
      exact interp_handler env k armed old _ hw.2 ho
  | .subst live b, s, hw, ho => by
      simp only [WF, Bool.and_eq_true] at hw
      rw [interp_subst_eq env k armed live b s hw.1] at ho ⊢
      simp only [handler]
      cases hb : (interp env k armed b (push b s)).out with
      | normal =>
        rw [hb] at ho
        simp only []
        split
        · rfl
        · exact interp_handler env k armed b _ hw.2 hb
      | exc e => rw [hb] at ho; simp at ho
theorem interpList_handler (env : Env) (k : K) (armed : Bool) :
    ∀ (l : List I) (s : Stack), allWF l = true → (interpList env k armed l s).out = .normal →
      (interpList env k armed l s).fired.map Prod.fst = handlerList env k l
  | [], s, _, _ => by simp [interpList, handlerList]
  | x :: xs, s, hw, ho => by
      simp only [allWF, Bool.and_eq_true] at hw
      simp only [interpList] at ho
      simp only [interpList, handlerList]
      split at ho
      · next hon hfn =>
        have ihx := interp_handler env k armed x s hw.1 hon
        rw [hfn] at ihx
        simp only [Option.map_none] at ihx
        rw [← ihx]
        rw [interp_stack] at ho ⊢
        exact interpList_handler env k armed xs s hw.2 ho
      · next hne =>
        have ihx := interp_handler env k armed x s hw.1 ho
        cases hf : (interp env k armed x s).fired with
        | none => exact absurd hf (hne ho)
        | some hfs =>
          rw [hf] at ihx
          simp only [Option.map_some] at ihx
          rw [← ihx]
          simp
end


mutual
/-- Nothing raises by itself: with no armed probe, interpretation under well-formed objects returns. -/
theorem interp_unarmed_normal (env : Env) (k : K) :
    ∀ (i : I) (s : Stack), WF i = true → (interp env k false i s).out = .normal
  | .reflect, s, _ => by simp [interp]
  | .disp n, s, _ => by
      simp only [interp]; split <;> simp
  | .prio _ l, s, hw => by
      simp only [interp]; exact interpList_unarmed_normal env k l s (by simpa [WF] using hw)
  | .memo b, s, hw => by
      simp only [interp]; exact interp_unarmed_normal env k b s (by simpa [WF] using hw)
  | .tape old, s, hw => by
      simp only [WF, Bool.and_eq_true] at hw
      rw [interp_tape_eq env k false old s hw.1]
      exact interp_unarmed_normal env k old _ hw.2
  | .subst live b, s, hw => by
      simp only [WF, Bool.and_eq_true] at hw
      rw [interp_subst_eq env k false live b s hw.1, interp_unarmed_normal env k b _ hw.2]
      simp only []
      split <;> simp
theorem interpList_unarmed_normal (env : Env) (k : K) :
    ∀ (l : List I) (s : Stack), allWF l = true → (interpList env k false l s).out = .normal
  | [], s, _ => by simp [interpList]
  | x :: xs, s, hw => by
      simp only [allWF, Bool.and_eq_true] at hw
      simp only [interpList]
      split
      · rw [interp_stack]; exact interpList_unarmed_normal env k xs s hw.2
      · exact interp_unarmed_normal env k x s hw.1
end

/-- **innermost_interprets.**  A term built while `i` is the innermost context is interpreted by
    `handler i`, whatever contexts `s` enclose it (whenever the construction returns). -/
theorem innermost_interprets (env : Env) (k : K) (armed : Bool) (s : Stack) (i : I) (log : List Obs)
    (hw : WF i = true) (hn : (exec env (.probe k armed) ⟨s ++ [i], log⟩).1 = .normal) :
    ∃ fs, (exec env (.probe k armed) ⟨s ++ [i], log⟩).2.log = .probe k (handler env k i) fs :: log := by
  have ht : top? (s ++ [i]) = some i := by simp [top?]
  simp only [exec, ht] at hn ⊢
  have hh := interp_handler env k armed i (s ++ [i]) hw hn
  cases hf : (interp env k armed i (s ++ [i])).fired with
  | none => rw [hf] at hh; simp only [Option.map_none] at hh; exact ⟨s ++ [i], by rw [← hh]⟩
  | some hfs =>
    obtain ⟨h, fs⟩ := hfs
    rw [hf] at hh; simp only [Option.map_some] at hh
    exact ⟨fs, by rw [← hh]⟩

/-- The with-block form: inside `with n:` for a total module-level interpretation `n`, an (unarmed)
    probe is handled by `handler n`, independently of the enclosing stack, and the block restores it. -/
theorem with_total_interprets (env : Env) (k : K) (n : String) (i : I) (st : St)
    (hn : env.named n = some i) (ht : i.isTotal = true) (hw : WF i = true) :
    ∃ fs, exec env (.withI (.named n) (.probe k false)) st =
      (.normal, ⟨st.stack, .probe k (handler env k i) fs :: st.log⟩) := by
  have he : enter env (.named n) st.stack = .ok (push i st.stack) := by
    simp [enter, ctxObj, hn, enterI_total st.stack ht]
  have htop : top? (push i st.stack) = some i := top?_push i st.stack
  have hout := interp_unarmed_normal env k i (push i st.stack) hw
  have hh := interp_handler env k false i (push i st.stack) hw hout
  have hs := interp_stack env k false i (push i st.stack)
  simp only [exec, he, htop, hout, hs, pop?_push]
  cases hf : (interp env k false i (push i st.stack)).fired with
  | none => rw [hf] at hh; simp only [Option.map_none] at hh; exact ⟨push i st.stack, by rw [← hh]⟩
  | some hfs =>
    obtain ⟨h, fs⟩ := hfs
    rw [hf] at hh; simp only [Option.map_some] at hh
    exact ⟨fs, by rw [← hh]⟩

theorem handlerList_append (env : Env) (k : K) : ∀ (l1 l2 : List I),
    handlerList env k (l1 ++ l2) =
      match handlerList env k l1 with
      | some h => some h
      | none => handlerList env k l2
  | [], l2 => by simp [handlerList]
  | x :: xs, l2 => by
      simp only [List.cons_append, handlerList]
      cases handler env k x with
      | some h => rfl
      | none => exact handlerList_append env k xs l2

theorem handlerList_subinterps (env : Env) (k : K) (x : I) :
    handlerList env k x.subinterps = handler env k x := by
  cases x with
  | prio t l => simp [I.subinterps, handler]
  | reflect => simp [I.subinterps, handlerList, handler]
  | disp n => simp only [I.subinterps, handlerList]; cases handler env k (.disp n) <;> rfl
  | memo b => simp only [I.subinterps, handlerList]; cases handler env k (.memo b) <;> rfl
  | tape o => simp only [I.subinterps, handlerList]; cases handler env k (.tape o) <;> rfl
  | subst l b => simp only [I.subinterps, handlerList]; cases handler env k (.subst l b) <;> rfl

/-- **partial_falls_through.**  Entering a partial interpretation `i` while `t` is active makes the
    active interpretation one that answers with `i`'s rule when it has one and otherwise exactly as
    `t` did — at any depth of layering. -/
theorem partial_falls_through (env : Env) (k : K) (i t : I) (s s' : Stack)
    (hp : i.isTotal = false) (ht : top? s = some t) (h : enterI i s = .ok s') :
    ∃ p, s' = push p s ∧
      handler env k p = match handler env k i with
        | some h => some h
        | none => handler env k t := by
  simp only [enterI, hp, ht, Bool.false_eq_true, if_false] at h
  split at h
  · cases h
  · next p hm =>
    refine ⟨p, by cases h; rfl, ?_⟩
    unfold mkPrio at hm
    simp only [List.flatMap_cons, List.flatMap_nil, List.append_nil] at hm
    split at hm
    · cases hm
    · split at hm
      · cases hm
      · split at hm
        · cases hm
        · cases hm
          simp only [handler]
          rw [handlerList_append, handlerList_subinterps, handlerList_subinterps]

/-- The special case of a single DispatchedInterpretation with rule table `env.rules n`. -/
theorem partial_leaf_falls_through (env : Env) (k : K) (n : String) (t : I) (s s' : Stack)
    (ht : top? s = some t) (h : enterI (.disp n) s = .ok s') :
    ∃ p, s' = push p s ∧ handler env k p = if env.rules n k = true then some n else handler env k t := by
  obtain ⟨p, hp, hh⟩ := partial_falls_through env k (.disp n) t s s' rfl ht h
  refine ⟨p, hp, ?_⟩
  rw [hh]
  simp only [handler]
  by_cases hr : env.rules n k = true <;> simp [hr]

/-- Hence inside a decorated function whose decorator is a partial leaf `n`, called while `t` is the
    active interpretation, a probe the leaf declines is answered exactly as `t` answers it. -/
theorem deco_partial_falls_through_to_caller (env : Env) (k : K) (n : String) (t : I) (s s' : Stack)
    (hn : env.named n = some (.disp n)) (ht : top? s = some t)
    (h : enter env (.named n) s = .ok s') :
    ∃ p, s' = push p s ∧ handler env k p = if env.rules n k = true then some n else handler env k t := by
  simp only [enter, ctxObj, hn] at h
  exact partial_leaf_falls_through env k n t s s' ht h

/-! ### refused entry -/

/-- **enter_failure_leaves_stack.**  If `__enter__` raises (the `< 10` assertion, or any other), the
    block's body does not run, nothing is logged, and the state is untouched. -/
theorem enter_failure_leaves_stack (env : Env) (c : Ctx) (body : Prog) (st : St) (e : Err)
    (h : enter env c st.stack = .error e) :
    exec env (.withI c body) st = (.exc e, st) ∧ exec env (.deco c body) st = (.exc e, st) := by
  simp [exec, h]

/-- When the `< 10` assertion fires: layering `i` onto `t` would give 10 or more sub-interpretations. -/
theorem enterI_overflow (i t : I) (s : Stack) (hp : i.isTotal = false) (ht : top? s = some t)
    (hlen : 10 ≤ i.subinterps.length + t.subinterps.length) :
    enterI i s = .error .assertOverflow := by
  simp only [enterI, hp, ht, Bool.false_eq_true, if_false]
  have : ¬ ((i.subinterps ++ t.subinterps).length < 10) := by simp; omega
  have hne : (i.subinterps ++ t.subinterps).isEmpty = false := by
    cases hl : i.subinterps ++ t.subinterps with
    | nil => rw [hl] at this; simp at this
    | cons _ _ => rfl
  simp [mkPrio, hne, hlen]

/-- …and only then. -/
theorem enterI_overflow_only (i : I) (s : Stack) (h : enterI i s = .error .assertOverflow) :
    ∃ t, top? s = some t ∧ i.isTotal = false ∧ 10 ≤ i.subinterps.length + t.subinterps.length := by
  unfold enterI at h
  split at h
  · cases h
  · next hp =>
    split at h
    · cases h
    · next t ht =>
      refine ⟨t, ht, by simpa using hp, ?_⟩
      split at h
      · next e hm =>
        cases h
        unfold mkPrio at hm
        simp only [List.flatMap_cons, List.flatMap_nil, List.append_nil] at hm
        split at hm
        · cases hm
        · split at hm
          · next hl => simp at hl; omega
          · split at hm <;> cases hm
      · cases h

/-- `__exit__` never swallows: a block's outcome is its body's outcome. -/
theorem with_outcome_is_body_outcome (env : Env) (c : Ctx) (body : Prog) (st : St) (s1 : Stack)
    (h : enter env c st.stack = .ok s1) :
    (exec env (.withI c body) st).1 = (exec env body { st with stack := s1 }).1 := by
  obtain ⟨x, rfl⟩ := enter_push h
  have ih := exec_restores_stack env body { st with stack := push x st.stack }
  simp only [exec, h]
  generalize exec env body { st with stack := push x st.stack } = r at ih
  obtain ⟨o, st2⟩ := r
  simp only [] at ih ⊢
  rw [ih, pop?_push]

/-! ### every stack entry stays total (so `_STACK[-1].interpret` always answers) -/

def AllTotal (s : Stack) : Prop := ∀ x ∈ s, x.isTotal = true

theorem anyTotal_append : ∀ (l1 l2 : List I), anyTotal (l1 ++ l2) = (anyTotal l1 || anyTotal l2)
  | [], l2 => by simp [anyTotal]
  | x :: xs, l2 => by simp [anyTotal, anyTotal_append xs l2, Bool.or_assoc]

theorem anyTotal_subinterps (x : I) : anyTotal x.subinterps = x.isTotal := by
  cases x <;> simp [I.subinterps, anyTotal, I.isTotal]

theorem allTotal_enterClosed : EnterClosed AllTotal := by
  intro i s s' hs h
  unfold enterI at h
  split at h
  · next ht =>
    cases h
    intro x hx
    rcases List.mem_append.mp hx with hx | hx
    · exact hs x hx
    · simp at hx; rw [hx]; exact ht
  · split at h
    · cases h
    · next t htop =>
      split at h
      · cases h
      · next p hm =>
        cases h
        have htt : t.isTotal = true := hs t (List.mem_of_getLast? htop)
        intro x hx
        rcases List.mem_append.mp hx with hx | hx
        · exact hs x hx
        · simp at hx
          rw [hx]
          unfold mkPrio at hm
          simp only [List.flatMap_cons, List.flatMap_nil, List.append_nil] at hm
          split at hm
          · cases hm
          · split at hm
            · cases hm
            · split at hm
              · cases hm
              · cases hm
                simp [I.isTotal, anyTotal_append, anyTotal_subinterps, htt]

/-- If every entry of the initial stack is total (true of `[reflect, eager]`), every entry of every
    stack ever observed is total: layering a partial interpretation always yields a total one. -/
theorem stack_stays_total (env : Env) (p : Prog) (st : St) (h : AllTotal st.stack) :
    ∃ new, (exec env p st).2.log = new ++ st.log ∧ ∀ o ∈ new, AllTotal o.stack :=
  exec_obs_invariant AllTotal allTotal_enterClosed env p st h


/-! ### the hypotheses are satisfiable (a hand-written copy of the pinned tables + the harness's P, W) -/

def exEnv : Env :=
  Env.ofTables ["eager_base", "normalize_base", "lazy_base", "P", "W1", "W2", "W3"]
    [("eager", ["eager_base", "normalize_base", "reflect"]), ("lazy", ["lazy_base", "reflect"]),
     ("W", ["W1", "W2", "W3"])]
    [("eager_base", ["num"]), ("normalize_base", ["num"]), ("P", ["a", "bin"]), ("W2", ["b"]), ("W3", ["a", "b"])]
    ["P", "W1", "W2", "W3"] ["num", "bin"] ["S"]

def exEager : I := .prio (some "eager") [.disp "eager_base", .disp "normalize_base", .reflect]
def exLazy : I := .prio (some "lazy") [.disp "lazy_base", .reflect]
def exBase : Stack := [.reflect, exEager]

def isOk {α : Type} : Except Err α → Bool
  | .ok _ => true
  | .error _ => false

def nestNamed (env : Env) (names : List String) (s : Stack) : Except Err Stack :=
  names.foldl (fun acc n => match acc with
    | .error e => .error e
    | .ok s => enter env (.named n) s) (.ok s)

/-- the names resolve to the objects above; the base stack is total and well-formed -/
example : (exEnv.named "eager").map I.canon = some "eager" := by decide
example : (exBase.all I.isTotal && allWF exBase) = true := by decide
/-- `with W: with W:` is accepted (9 sub-interpretations), a third `with W:` is refused … -/
example : isOk (nestNamed exEnv ["W", "W"] exBase) = true := by decide
example : (match nestNamed exEnv ["W", "W", "W"] exBase with
    | .error .assertOverflow => true | _ => false) = true := by decide
/-- … so `enter_failure_leaves_stack` and `enterI_overflow` are not vacuous. -/
example : (match exec exEnv (.withI (.named "W") (.withI (.named "W") (.withI (.named "W") .obs))) ⟨exBase, []⟩ with
    | (.exc .assertOverflow, st) => canonStack st.stack == "reflect,eager" && st.log.length == 0
    | _ => false) = true := by decide
/-- `partial_falls_through`: `with lazy: with W: with P:` answers `a` by P, `b` by W2, `num` by reflect. -/
example : (match nestNamed exEnv ["lazy", "W", "P"] exBase with
    | .ok s => (s.getLast?.map fun t => (handler exEnv "a" t, handler exEnv "b" t, handler exEnv "num" t))
        == some (some "P", some "W2", some "reflect")
    | _ => false) = true := by decide
/- an exception raised inside a rule, inside the tape's temporary push, inside a decorated call:
    everything is unwound, and the rule saw the tape's extra entry. -/
set_option maxRecDepth 16384 in
example : (match exec exEnv (.withI (.named "P") (.deco .tape (.probe "bin" true))) ⟨exBase, []⟩ with
    | (.exc .probe, st) => canonStack st.stack == "reflect,eager" &&
        st.log.map (Obs.canon fun _ => true) ==
          ["?bin=P@reflect,eager,[P eager_base normalize_base reflect]," ++
           "[tape([P eager_base normalize_base reflect]) P eager_base normalize_base reflect]," ++
           "[P eager_base normalize_base reflect]"]
    | _ => false) = true := by decide

end FV.Props.C17
