/-
  Props/C17.lean — interpretation contexts nest and unwind like a stack.

  All theorems are about `FV.C17.exec` / `FV.C17.interp` (Model/C17.lean) for EVERY program, every
  environment (names, rule tables) and every initial stack — no size bound.
-/
import FunsorVerif.Model.C17
import FunsorVerif.Gen.C17Interps
namespace FV.Props.C17
open FV.C17

/-! ### list facts about push / pop -/

theorem pop?_push (i : I) (s : Stack) : pop? (push i s) = some s := by
  simp [pop?, push]

theorem top?_push (i : I) (s : Stack) : top? (push i s) = some i := by
  simp [top?, push]

/-- `__enter__` either raises and leaves the stack alone, or appends exactly one entry. -/
theorem enterI_push {i : I} {s s' : Stack} (h : enterI i s = .ok s') : ∃ x, s' = push x s := by
  unfold enterI at h
  split at h
  · exact ⟨i, by cases h; rfl⟩
  · split at h
    · cases h
    · split at h
      · cases h
      · next p _ => exact ⟨p, by cases h; rfl⟩

theorem enter_push {env : Env} {c : Ctx} {s s' : Stack} (h : enter env c s = .ok s') :
    ∃ x, s' = push x s := by
  unfold enter at h
  split at h
  · cases h
  · exact enterI_push h

theorem prefix_push (i : I) (s : Stack) : s <+: push i s := by
  simp [push]

/-! ### interpreting a probe restores the stack (temporary pushes of AdjointTape / substitute) -/

/-- `with i: body` restores the stack whenever the body does. -/
theorem withObj_stack (i : I) (s : Stack) (body : Stack → IRes)
    (hb : ∀ s1, (body s1).stack = s1) : (withObj i s body).stack = s := by
  unfold withObj
  split
  · rfl
  · next s1 h =>
    obtain ⟨x, rfl⟩ := enterI_push h
    simp only [hb, pop?_push]

mutual
theorem interp_stack (env : Env) (k : K) (armed : Bool) :
    ∀ (i : I) (s : Stack), (interp env k armed i s).stack = s
  | .reflect, s => by simp [interp]
  | .disp n, s => by
      simp only [interp]; split <;> rfl
  | .prio _ l, s => by
      simp only [interp]; exact interpList_stack env k armed l s
  | .memo b, s => by
      simp only [interp]; exact interp_stack env k armed b s
  | .tape old, s => by
      have ih := interp_stack env k armed old
      have h1 : (if env.adjointOp k = true then withObj old s (fun s1 => interp env k armed old s1)
          else interp env k armed old s).stack = s := by
        split
        · exact withObj_stack old s _ (fun s1 => ih s1)
        · exact ih s
      simp only [interp]
      split
      · simp only []
        rw [h1]
        exact withObj_stack old s _ (fun _ => rfl)
      · exact h1
  | .subst live b, s => by
      have ih := interp_stack env k armed b
      simp only [interp]
      apply withObj_stack
      intro s1
      split
      · split
        · simp [ih]
        · exact ih s1
      · exact ih s1
theorem interpList_stack (env : Env) (k : K) (armed : Bool) :
    ∀ (l : List I) (s : Stack), (interpList env k armed l s).stack = s
  | [], s => by simp [interpList]
  | x :: xs, s => by
      have h := interp_stack env k armed x s
      simp only [interpList]
      split
      · rw [h]; exact interpList_stack env k armed xs s
      · exact h
end

/-! ### exec restores the stack -/

/-- **exec_restores_stack.**  After any well-nested program — whatever mixture of with-blocks,
    decorator calls, total / partial / memoize / tape / substitution contexts, refused entries,
    exceptions raised anywhere (also inside a rule, inside `substitute`, inside the tape) and
    try/except — the stack is exactly the stack before, for every outcome. -/
theorem exec_restores_stack (env : Env) :
    ∀ (p : Prog) (st : St), (exec env p st).2.stack = st.stack
  | .skip, st => rfl
  | .obs, st => rfl
  | .raise, st => rfl
  | .probe k armed, st => by
      simp only [exec]
      split
      · rfl
      · next t _ => exact interp_stack env k armed t st.stack
  | .withI c body, st => by
      simp only [exec]
      split
      · rfl
      · next s1 h =>
        obtain ⟨x, rfl⟩ := enter_push h
        have ih := exec_restores_stack env body { st with stack := push x st.stack }
        generalize exec env body { st with stack := push x st.stack } = r at ih
        obtain ⟨o, st2⟩ := r
        simp only [] at ih ⊢
        rw [ih, pop?_push]
  | .deco c body, st => by
      simp only [exec]
      split
      · rfl
      · next s1 h =>
        obtain ⟨x, rfl⟩ := enter_push h
        have ih := exec_restores_stack env body { st with stack := push x st.stack }
        generalize exec env body { st with stack := push x st.stack } = r at ih
        obtain ⟨o, st2⟩ := r
        simp only [] at ih ⊢
        rw [ih, pop?_push]
  | .seq a b, st => by
      have iha := exec_restores_stack env a st
      simp only [exec]
      split
      · next st1 h =>
        rw [h] at iha
        have ihb := exec_restores_stack env b st1
        rw [ihb]; exact iha
      · next e st1 h => rw [h] at iha; exact iha
  | .catch body, st => by
      have ih := exec_restores_stack env body st
      simp only [exec]
      exact ih

end FV.Props.C17
