/-
  Props/C17.lean — interpretation contexts nest and unwind like a stack.

  All theorems are about `FV.C17.exec` / `FV.C17.interp` (Model/C17.lean) for EVERY program, every
  environment (names, rule tables), every initial stack and every cache content — no size bound.
-/
import FunsorVerif.Model.C17
namespace FV.Props.C17
open FV.C17

/-! ### list facts about push / pop -/

theorem pop?_push (i : I) (s : Stack) : pop? (push i s) = some s := by
  simp [pop?, push]

theorem top?_push (i : I) (s : Stack) : top? (push i s) = some i := by
  simp [top?, push]

/-- `__enter__` either raises and leaves the stack alone, or appends exactly one entry. -/
theorem enterI_push {i : I} {s s' : Stack} (h : enterI i s = .ok s') : ∃ x, s' = push x s := by
  unfold enterI at h
  split at h
  · exact ⟨i, by cases h; rfl⟩
  · split at h
    · cases h
    · split at h
      · cases h
      · next p _ => exact ⟨p, by cases h; rfl⟩

/-- what `enter` does, spelled out -/
theorem enter_ok {env : Env} {c : Ctx} {s s' : Stack} {nx n : Nat}
    (h : enter env c s nx = .ok (s', n)) :
    ∃ i, ctxObj env c s nx = .ok (i, n) ∧ enterI i s = .ok s' := by
  unfold enter at h
  split at h
  · cases h
  · next i n' hc =>
    split at h
    · cases h
    · next s1 he => cases h; exact ⟨i, hc, he⟩

theorem enter_push {env : Env} {c : Ctx} {s s' : Stack} {nx n : Nat}
    (h : enter env c s nx = .ok (s', n)) : ∃ x, s' = push x s := by
  obtain ⟨i, _, he⟩ := enter_ok h
  exact enterI_push he

theorem prefix_push (i : I) (s : Stack) : s <+: push i s := by
  simp [push]

/-! ### interpreting a probe restores the stack (temporary pushes of AdjointTape / substitute) -/

/-- `with i: body` restores the stack whenever the body does. -/
theorem withObj_stack (i : I) (s : Stack) (cs : Caches) (body : Stack → IRes)
    (hb : ∀ s1, (body s1).stack = s1) : (withObj i s cs body).stack = s := by
  unfold withObj
  split
  · rfl
  · next s1 h =>
    obtain ⟨x, rfl⟩ := enterI_push h
    simp only [hb, pop?_push]

mutual
theorem interp_stack (env : Env) (k : K) (tok : Nat) (armed : Bool) :
    ∀ (i : I) (s : Stack) (cs : Caches), (interp env k tok armed i s cs).stack = s
  | .reflect, s, cs => by simp [interp]
  | .disp n, s, cs => by
      simp only [interp]; split <;> rfl
  | .prio _ l, s, cs => by
      simp only [interp]; exact interpList_stack env k tok armed l s cs
  | .memo cid sh b, s, cs => by
      have ih := interp_stack env k tok armed b s cs
      simp only [interp]
      split
      · rfl
      · split
        · exact ih
        · exact ih
  | .tape old, s, cs => by
      have ih := interp_stack env k tok armed old
      have h1 : (if env.adjointOp k = true then withObj old s cs (fun s1 => interp env k tok armed old s1 cs)
          else interp env k tok armed old s cs).stack = s := by
        split
        · exact withObj_stack old s cs _ (fun s1 => ih s1 cs)
        · exact ih s cs
      simp only [interp]
      split
      · simp only []
        rw [h1]
        exact withObj_stack old s _ _ (fun _ => rfl)
      · exact h1
  | .subst live b, s, cs => by
      have ih := interp_stack env k tok armed b
      simp only [interp]
      apply withObj_stack
      intro s1
      split
      · split
        · simp [ih]
        · exact ih s1 cs
      · exact ih s1 cs
theorem interpList_stack (env : Env) (k : K) (tok : Nat) (armed : Bool) :
    ∀ (l : List I) (s : Stack) (cs : Caches), (interpList env k tok armed l s cs).stack = s
  | [], s, cs => by simp [interpList]
  | x :: xs, s, cs => by
      have h := interp_stack env k tok armed x s cs
      simp only [interpList]
      split
      · rw [h]; exact interpList_stack env k tok armed xs s _
      · exact h
end

/-! ### exec restores the stack -/

/-- **exec_restores_stack.**  After any well-nested program — whatever mixture of with-blocks,
    decorator calls, total / partial / memoize / tape / substitution contexts, refused entries,
    exceptions raised anywhere (also inside a rule, inside `substitute`, inside the tape) and
    try/except — the stack is exactly the stack before, for every outcome. -/
theorem exec_restores_stack (env : Env) :
    ∀ (p : Prog) (st : St), (exec env p st).2.stack = st.stack
  | .skip, st => rfl
  | .obs, st => rfl
  | .raise, st => rfl
  | .probe k armed tok, st => by
      simp only [exec]
      split
      · rfl
      · next t _ => exact interp_stack env k tok armed t st.stack st.caches
  | .withI c body, st => by
      simp only [exec]
      split
      · rfl
      · next s1 n h =>
        obtain ⟨x, rfl⟩ := enter_push h
        have ih := exec_restores_stack env body { st with stack := push x st.stack, next := n }
        generalize exec env body { st with stack := push x st.stack, next := n } = r at ih
        obtain ⟨o, st2⟩ := r
        simp only [] at ih ⊢
        rw [ih, pop?_push]
  | .deco c body, st => by
      simp only [exec]
      split
      · rfl
      · next s1 n h =>
        obtain ⟨x, rfl⟩ := enter_push h
        have ih := exec_restores_stack env body { st with stack := push x st.stack, next := n }
        generalize exec env body { st with stack := push x st.stack, next := n } = r at ih
        obtain ⟨o, st2⟩ := r
        simp only [] at ih ⊢
        rw [ih, pop?_push]
  | .seq a b, st => by
      have iha := exec_restores_stack env a st
      simp only [exec]
      split
      · next st1 h =>
        rw [h] at iha
        have ihb := exec_restores_stack env b st1
        rw [ihb]; exact iha
      · next e st1 h => rw [h] at iha; exact iha
  | .catch body, st => by
      have ih := exec_restores_stack env body st
      simp only [exec]
      exact ih
  | .quiet body, st => by
      have ih := exec_restores_stack env body st
      simp only [exec]
      exact ih

/-- **Decorator form.**  Calling a function decorated with `c` is `with c:` around its body, entered AT
    CALL TIME on the call-time stack (ContextDecorator: `with self._recreate_cm(): return func()`); the
    decoration itself does not touch the stack.  (The harness decorates at one stack state and calls at
    another; the model of the call is `deco c body` at the call site.) -/
theorem deco_is_with_at_call_time (env : Env) (c : Ctx) (body : Prog) (st : St) :
    exec env (.deco c body) st = exec env (.withI c body) st := by
  simp only [exec]

/-! ### every stack ever observed keeps the invariant (prefix / totality) -/

/-- A predicate on stacks that survives every successful `__enter__`. -/
def EnterClosed (Q : Stack → Prop) : Prop :=
  ∀ (i : I) (s s' : Stack), Q s → enterI i s = .ok s' → Q s'

theorem withObj_ok_fired {i : I} {s s1 : Stack} {cs : Caches} {body : Stack → IRes}
    (he : enterI i s = .ok s1) : (withObj i s cs body).fired = (body s1).fired := by
  unfold withObj
  rw [he]
  simp only []
  cases pop? (body s1).stack <;> rfl

theorem withObj_fired (Q : Stack → Prop) (hQ : EnterClosed Q) (i : I) (s : Stack) (cs : Caches)
    (body : Stack → IRes)
    (hb : ∀ s1 h fs, Q s1 → (body s1).fired = some (h, fs) → Q fs) (hs : Q s) :
    ∀ h fs, (withObj i s cs body).fired = some (h, fs) → Q fs := by
  intro h fs hf
  cases he : enterI i s with
  | error e => simp [withObj, he] at hf
  | ok s1 =>
    rw [withObj_ok_fired he] at hf
    exact hb s1 h fs (hQ i s s1 hs he) hf

mutual
/-- The stack seen by the rule that fires (inside the tape's / substitute's temporary pushes) keeps `Q`. -/
theorem interp_fired_inv (Q : Stack → Prop) (hQ : EnterClosed Q) (env : Env) (k : K) (tok : Nat)
    (armed : Bool) :
    ∀ (i : I) (s : Stack) (cs : Caches), Q s →
      ∀ h fs, (interp env k tok armed i s cs).fired = some (h, fs) → Q fs
  | .reflect, s, cs, hs, h, fs, hf => by
      simp only [interp, Option.some.injEq, Prod.mk.injEq] at hf; rw [← hf.2]; exact hs
  | .disp n, s, cs, hs, h, fs, hf => by
      simp only [interp] at hf
      split at hf
      · simp only [Option.some.injEq, Prod.mk.injEq] at hf; rw [← hf.2]; exact hs
      · cases hf
  | .prio _ l, s, cs, hs, h, fs, hf => by
      simp only [interp] at hf; exact interpList_fired_inv Q hQ env k tok armed l s cs hs h fs hf
  | .memo cid sh b, s, cs, hs, h, fs, hf => by
      have ih := interp_fired_inv Q hQ env k tok armed b s cs hs h fs
      simp only [interp] at hf
      split at hf
      · simp only [Option.some.injEq, Prod.mk.injEq] at hf; rw [← hf.2]; exact hs
      · split at hf
        · exact ih hf
        · exact ih hf
  | .tape old, s, cs, hs, h, fs, hf => by
      have ih := interp_fired_inv Q hQ env k tok armed old
      have h1 : ∀ h fs, (if env.adjointOp k = true then
            withObj old s cs (fun s1 => interp env k tok armed old s1 cs)
          else interp env k tok armed old s cs).fired = some (h, fs) → Q fs := by
        intro h fs hf
        split at hf
        · exact withObj_fired Q hQ old s cs _ (fun s1 h fs q1 hf => ih s1 cs q1 h fs hf) hs h fs hf
        · exact ih s cs hs h fs hf
      simp only [interp] at hf
      split at hf
      · exact h1 h fs hf
      · exact h1 h fs hf
  | .subst live b, s, cs, hs, h, fs, hf => by
      have ih := interp_fired_inv Q hQ env k tok armed b
      simp only [interp] at hf
      refine withObj_fired Q hQ b s cs _ ?_ hs h fs hf
      intro s1 h fs q1 hf
      split at hf
      · split at hf
        · simp only [Option.some.injEq, Prod.mk.injEq] at hf
          rw [← hf.2, interp_stack]; exact q1
        · exact ih s1 cs q1 h fs hf
      · exact ih s1 cs q1 h fs hf
theorem interpList_fired_inv (Q : Stack → Prop) (hQ : EnterClosed Q) (env : Env) (k : K) (tok : Nat)
    (armed : Bool) :
    ∀ (l : List I) (s : Stack) (cs : Caches), Q s →
      ∀ h fs, (interpList env k tok armed l s cs).fired = some (h, fs) → Q fs
  | [], s, cs, hs, h, fs, hf => by simp [interpList] at hf
  | x :: xs, s, cs, hs, h, fs, hf => by
      simp only [interpList] at hf
      split at hf
      · rw [interp_stack] at hf
        exact interpList_fired_inv Q hQ env k tok armed xs s _ hs h fs hf
      · exact interp_fired_inv Q hQ env k tok armed x s cs hs h fs hf
end

theorem enter_closed {Q : Stack → Prop} (hQ : EnterClosed Q) {env : Env} {c : Ctx} {s s' : Stack}
    {nx n : Nat} (hs : Q s) (h : enter env c s nx = .ok (s', n)) : Q s' := by
  obtain ⟨i, _, he⟩ := enter_ok h
  exact hQ i s s' hs he

/-- Generic invariant: the log only grows, and every stack observed while the program runs
    (at `obs`, and at the moment a rule fires) satisfies any enter-closed predicate that held at
    the start. -/
theorem exec_obs_invariant (Q : Stack → Prop) (hQ : EnterClosed Q) (env : Env) :
    ∀ (p : Prog) (st : St), Q st.stack →
      ∃ new, (exec env p st).2.log = new ++ st.log ∧ ∀ o ∈ new, Q o.stack
  | .skip, st, _ => ⟨[], rfl, by simp⟩
  | .obs, st, hs => ⟨[.at st.stack], rfl, by simpa [Obs.stack] using hs⟩
  | .raise, st, _ => ⟨[], rfl, by simp⟩
  | .probe k armed tok, st, hs => by
      simp only [exec]
      split
      · exact ⟨[], rfl, by simp⟩
      · next t _ =>
        cases hf : (interp env k tok armed t st.stack st.caches).fired with
        | none =>
          refine ⟨[_], rfl, ?_⟩
          simpa [Obs.stack] using hs
        | some hfs =>
          obtain ⟨h, fs⟩ := hfs
          refine ⟨[_], rfl, ?_⟩
          have := interp_fired_inv Q hQ env k tok armed t st.stack st.caches hs h fs hf
          simpa [Obs.stack] using this
  | .withI c body, st, hs => by
      simp only [exec]
      split
      · exact ⟨[], rfl, by simp⟩
      · next s1 n h =>
        have q1 : Q s1 := enter_closed hQ hs h
        obtain ⟨new, hl, hq⟩ := exec_obs_invariant Q hQ env body { st with stack := s1, next := n } q1
        generalize exec env body { st with stack := s1, next := n } = r at hl
        obtain ⟨o, st2⟩ := r
        simp only [] at hl ⊢
        split <;> exact ⟨new, hl, hq⟩
  | .deco c body, st, hs => by
      simp only [exec]
      split
      · exact ⟨[], rfl, by simp⟩
      · next s1 n h =>
        have q1 : Q s1 := enter_closed hQ hs h
        obtain ⟨new, hl, hq⟩ := exec_obs_invariant Q hQ env body { st with stack := s1, next := n } q1
        generalize exec env body { st with stack := s1, next := n } = r at hl
        obtain ⟨o, st2⟩ := r
        simp only [] at hl ⊢
        split <;> exact ⟨new, hl, hq⟩
  | .seq a b, st, hs => by
      obtain ⟨new1, hl1, hq1⟩ := exec_obs_invariant Q hQ env a st hs
      have hst := exec_restores_stack env a st
      simp only [exec]
      split
      · next st1 h =>
        rw [h] at hl1 hst
        simp only [] at hl1 hst
        obtain ⟨new2, hl2, hq2⟩ := exec_obs_invariant Q hQ env b st1 (by rw [hst]; exact hs)
        refine ⟨new2 ++ new1, by rw [hl2, hl1, List.append_assoc], ?_⟩
        intro o ho
        rcases List.mem_append.mp ho with h' | h'
        · exact hq2 o h'
        · exact hq1 o h'
      · next e st1 h =>
        rw [h] at hl1
        exact ⟨new1, hl1, hq1⟩
  | .catch body, st, hs => by
      obtain ⟨new, hl, hq⟩ := exec_obs_invariant Q hQ env body st hs
      simp only [exec]
      exact ⟨new, hl, hq⟩
  | .quiet body, st, _ => by
      simp only [exec]
      exact ⟨[], rfl, by simp⟩

theorem prefix_enterClosed (s0 : Stack) : EnterClosed (fun s => s0 <+: s) := by
  intro i s s' hs h
  obtain ⟨x, rfl⟩ := enterI_push h
  exact List.IsPrefix.trans hs (prefix_push x s)

/-- **depth_never_below_base.**  While any program runs from stack `st.stack`, every stack that is
    ever visible — at an observation point, or to a rule firing inside the temporary pushes of the
    adjoint tape / of `substitute` — has `st.stack` as a prefix: nothing below the entry point is
    ever popped or replaced. -/
theorem depth_never_below_base (env : Env) (p : Prog) (st : St) :
    ∃ new, (exec env p st).2.log = new ++ st.log ∧ ∀ o ∈ new, st.stack <+: o.stack :=
  exec_obs_invariant (fun s => st.stack <+: s) (prefix_enterClosed st.stack) env p st
    (List.prefix_refl _)

/-- In particular the import-time base `[reflect, eager]` stays at the bottom, in place. -/
theorem base_never_popped (env : Env) (p : Prog) (r e : I) (rest : Stack) (st : St)
    (hst : st.stack = r :: e :: rest) :
    ∃ new, (exec env p st).2.log = new ++ st.log ∧
      ∀ o ∈ new, o.stack.take 2 = [r, e] ∧ 2 ≤ o.stack.length := by
  obtain ⟨new, hl, hq⟩ := depth_never_below_base env p st
  refine ⟨new, hl, fun o ho => ?_⟩
  obtain ⟨t, ht⟩ := hq o ho
  rw [hst] at ht
  rw [← ht]
  simp

/-! ### who interprets: the innermost context, partial ones falling through -/

mutual
/-- Well-formed objects: what a tape / a SubstituteInterpretation captured was total (true of anything
    taken from a stack whose entries are total, see `stack_stays_total`), so their inner `with` cannot
    refuse; and every Memoize owns its cache (`memoize()` without an explicit `cache=`). -/
def WF : I → Bool
  | .reflect => true
  | .disp _ => true
  | .prio _ l => allWF l
  | .memo _ sh b => !sh && WF b
  | .tape old => old.isTotal && WF old
  | .subst _ b => b.isTotal && WF b
def allWF : List I → Bool
  | [] => true
  | x :: xs => WF x && allWF xs
end

theorem enterI_total {i : I} (s : Stack) (h : i.isTotal = true) : enterI i s = .ok (push i s) := by
  simp [enterI, h]

/-- Entering a total object and leaving it again around a stack-restoring body. -/
theorem withObj_total_eq {i : I} (s : Stack) (cs : Caches) (body : Stack → IRes) (h : i.isTotal = true)
    (hb : (body (push i s)).stack = push i s) :
    withObj i s cs body = ⟨(body (push i s)).out, s, (body (push i s)).fired,
      (body (push i s)).caches, (body (push i s)).hit⟩ := by
  unfold withObj
  rw [enterI_total s h]
  simp only [hb, pop?_push]

theorem IRes.eta (r : IRes) : r = ⟨r.out, r.stack, r.fired, r.caches, r.hit⟩ := by
  cases r; rfl

/-- AdjointTape.interpret when the captured interpretation is total: the probe is interpreted by the
    captured one, under one temporary push for classes in `adjoint_ops`. -/
theorem interp_tape_eq (env : Env) (k : K) (tok : Nat) (armed : Bool) (old : I) (s : Stack) (cs : Caches)
    (ht : old.isTotal = true) :
    interp env k tok armed (.tape old) s cs =
      ⟨(interp env k tok armed old (if env.adjointOp k = true then push old s else s) cs).out, s,
       (interp env k tok armed old (if env.adjointOp k = true then push old s else s) cs).fired,
       (interp env k tok armed old (if env.adjointOp k = true then push old s else s) cs).caches,
       (interp env k tok armed old (if env.adjointOp k = true then push old s else s) cs).hit⟩ := by
  have e2 : ∀ s' c, withObj old s' c (fun s1 => (⟨.normal, s1, none, c, false⟩ : IRes))
      = ⟨.normal, s', none, c, false⟩ :=
    fun s' c => withObj_total_eq s' c _ ht rfl
  simp only [interp]
  by_cases hadj : env.adjointOp k = true
  · simp only [hadj, if_true]
    rw [withObj_total_eq s cs _ ht (interp_stack env k tok armed old _ _)]
    cases ho : (interp env k tok armed old (push old s) cs).out with
    | normal => simp only [e2]
    | exc e => simp only []
  · simp only [hadj, if_false, Bool.false_eq_true]
    cases ho : (interp env k tok armed old s cs).out with
    | normal => simp only [e2, interp_stack]
    | exc e =>
      simp only []
      have h1 := IRes.eta (interp env k tok armed old s cs)
      rw [interp_stack, ho] at h1
      exact h1

/-- SubstituteInterpretation.interpret when its base is total. -/
theorem interp_subst_eq (env : Env) (k : K) (tok : Nat) (armed : Bool) (live : Bool) (b : I) (s : Stack)
    (cs : Caches) (ht : b.isTotal = true) :
    interp env k tok armed (.subst live b) s cs =
      match (interp env k tok armed b (push b s) cs).out with
      | .normal =>
        if (live && env.substK k) = true then
          ⟨if armed = true then .exc .probe else .normal, s, some ("subst", push b s),
           (interp env k tok armed b (push b s) cs).caches, false⟩
        else ⟨.normal, s, (interp env k tok armed b (push b s) cs).fired,
              (interp env k tok armed b (push b s) cs).caches, (interp env k tok armed b (push b s) cs).hit⟩
      | .exc e => ⟨.exc e, s, (interp env k tok armed b (push b s) cs).fired,
                   (interp env k tok armed b (push b s) cs).caches, (interp env k tok armed b (push b s) cs).hit⟩ := by
  simp only [interp]
  rw [withObj_total_eq s cs _ ht]
  · cases ho : (interp env k tok armed b (push b s) cs).out with
    | normal =>
      simp only []
      split
      · simp [interp_stack]
      · simp [ho]
    | exc e => rw [ho]
  · split
    · split
      · simp [interp_stack]
      · exact interp_stack env k tok armed b _ _
    · exact interp_stack env k tok armed b _ _

/-! ### Memoize caches: a cache owned by one Memoize only ever holds that Memoize's own answers -/

mutual
theorem beq_eq : ∀ (a b : I), I.beq a b = true → a = b
  | .reflect, b, h => by cases b <;> simp [I.beq] at h ⊢
  | .disp n, b, h => by
      cases b <;> simp [I.beq] at h ⊢
      exact h
  | .prio t l, b, h => by
      cases b with
      | prio t' l' =>
        simp only [I.beq, Bool.and_eq_true, beq_iff_eq] at h
        rw [h.1, beqList_eq l l' h.2]
      | _ => simp [I.beq] at h
  | .memo c sh x, b, h => by
      cases b with
      | memo c' sh' x' =>
        simp only [I.beq, Bool.and_eq_true, beq_iff_eq] at h
        rw [h.1.1, h.1.2, beq_eq x x' h.2]
      | _ => simp [I.beq] at h
  | .tape o, b, h => by
      cases b with
      | tape o' =>
        simp only [I.beq] at h
        rw [beq_eq o o' h]
      | _ => simp [I.beq] at h
  | .subst l x, b, h => by
      cases b with
      | subst l' x' =>
        simp only [I.beq, Bool.and_eq_true, beq_iff_eq] at h
        rw [h.1, beq_eq x x' h.2]
      | _ => simp [I.beq] at h
theorem beqList_eq : ∀ (l l' : List I), beqList l l' = true → l = l'
  | [], l', h => by cases l' <;> simp [beqList] at h ⊢
  | x :: xs, l', h => by
      cases l' with
      | nil => simp [beqList] at h
      | cons y ys =>
        simp only [beqList, Bool.and_eq_true] at h
        rw [beq_eq x y h.1, beqList_eq xs ys h.2]
end

/-- **The cache invariant.**  Every entry of a cache created by `memoize()` (no explicit `cache=`) is
    the answer of THIS Memoize's own base interpretation for that key. -/
def CacheOK (env : Env) (cs : Caches) : Prop :=
  ∀ r ∈ cs, r.shared = false → ∀ e ∈ r.entries, some e.h = handler env e.k r.base

theorem findEntry_mem : ∀ (es : List CEntry) (k : K) (tok : Nat) (h : String),
    findEntry es k tok = some h → ∃ e ∈ es, e.k = k ∧ e.h = h
  | [], k, tok, h, hf => by simp [findEntry] at hf
  | e :: r, k, tok, h, hf => by
      simp only [findEntry] at hf
      split at hf
      · next hc =>
        simp only [Bool.and_eq_true, beq_iff_eq] at hc
        exact ⟨e, by simp, hc.1, by simpa using hf⟩
      · obtain ⟨e', he', hk⟩ := findEntry_mem r k tok h hf
        exact ⟨e', by simp [he'], hk⟩

theorem isFor_fresh {r : CRec} {cid : Nat} {b : I} (h : r.isFor cid false b = true) :
    r.shared = false ∧ r.base = b := by
  simp only [CRec.isFor, Bool.and_eq_true, beq_iff_eq, Bool.false_or] at h
  exact ⟨h.1.2, beq_eq _ _ h.2⟩

theorem cacheGet_sound (env : Env) : ∀ (cs : Caches) (cid : Nat) (b : I) (k : K) (tok : Nat) (x : String),
    CacheOK env cs → cacheGet cs cid false b k tok = some x → some x = handler env k b
  | [], _, _, _, _, _, _, h => by simp [cacheGet] at h
  | r :: rs, cid, b, k, tok, x, hc, h => by
      simp only [cacheGet] at h
      split at h
      · next hfor =>
        obtain ⟨hsh, hb⟩ := isFor_fresh hfor
        obtain ⟨e, he, hk, hh⟩ := findEntry_mem _ _ _ _ h
        have := hc r (by simp) hsh e he
        rw [hk, hh, hb] at this
        exact this
      · exact cacheGet_sound env rs cid b k tok x (fun r' hr' => hc r' (by simp [hr'])) h

theorem cachePut_ok (env : Env) (cid : Nat) (sh : Bool) (b : I) (k : K) (tok : Nat) (h : String)
    (hh : sh = false → some h = handler env k b) :
    ∀ (cs : Caches), CacheOK env cs → CacheOK env (cachePut cs cid sh b k tok h)
  | [], _ => by
      intro r hr hsh e he
      simp only [cachePut, List.mem_singleton] at hr
      subst hr
      simp only [List.mem_singleton] at he
      subst he
      exact hh hsh
  | r :: rs, hc => by
      simp only [cachePut]
      split
      · next hfor =>
        intro r' hr' hsh e he
        rcases List.mem_cons.mp hr' with rfl | hr'
        · simp only [List.mem_cons] at he
          rcases he with rfl | he
          · simp only [] at hsh
            have hshf : sh = false := by
              simp only [CRec.isFor, Bool.and_eq_true, beq_iff_eq] at hfor
              rw [← hfor.1.2]; exact hsh
            subst hshf
            obtain ⟨_, hb⟩ := isFor_fresh hfor
            simp only []
            rw [hb]
            exact hh rfl
          · exact hc r (by simp) hsh e he
        · exact hc r' (by simp [hr']) hsh e he
      · intro r' hr' hsh e he
        rcases List.mem_cons.mp hr' with rfl | hr'
        · exact hc r' (by simp) hsh e he
        · exact cachePut_ok env cid sh b k tok h hh rs (fun r'' hr'' => hc r'' (by simp [hr''])) r' hr' hsh e he

mutual
/-- **Memoization is transparent** (and **innermost_interprets**, core).  Under objects that own their
    caches, interpretation keeps the cache invariant, and whenever it returns, the value is the one
    `handler i` produces — a function of the interpretation object alone: not of the stack below it,
    not of the temporary pushes, and not of what any cache holds (a `memoize()` block never returns an
    answer produced under a different base). -/
theorem interp_transparent (env : Env) (k : K) (tok : Nat) (armed : Bool) :
    ∀ (i : I) (s : Stack) (cs : Caches), WF i = true → CacheOK env cs →
      CacheOK env (interp env k tok armed i s cs).caches ∧
      ((interp env k tok armed i s cs).out = .normal →
        (interp env k tok armed i s cs).fired.map Prod.fst = handler env k i)
  | .reflect, s, cs, _, hc => by simp [interp, handler, hc]
  | .disp n, s, cs, _, hc => by
      simp only [interp, handler]
      split
      · exact ⟨hc, fun _ => rfl⟩
      · exact ⟨hc, fun _ => rfl⟩
  | .prio _ l, s, cs, hw, hc => by
      simp only [interp, handler]
      exact interpList_transparent env k tok armed l s cs (by simpa [WF] using hw) hc
  | .memo cid sh b, s, cs, hw, hc => by
      simp only [WF, Bool.and_eq_true, Bool.not_eq_eq_eq_not, Bool.not_true] at hw
      obtain ⟨hsh, hwb⟩ := hw
      subst hsh
      have ih := interp_transparent env k tok armed b s cs hwb hc
      simp only [interp, handler]
      split
      · next x hx =>
        exact ⟨hc, fun _ => by simpa using cacheGet_sound env cs cid b k tok x hc hx⟩
      · split
        · next ho hf =>
          refine ⟨?_, ih.2⟩
          refine cachePut_ok env cid false b k tok _ (fun _ => ?_) _ ih.1
          have := ih.2 ho
          rw [hf] at this
          simpa using this
        · exact ih
  | .tape old, s, cs, hw, hc => by
      simp only [WF, Bool.and_eq_true] at hw
      rw [interp_tape_eq env k tok armed old s cs hw.1]
      simp only [handler]
      exact interp_transparent env k tok armed old _ cs hw.2 hc
  | .subst live b, s, cs, hw, hc => by
      simp only [WF, Bool.and_eq_true] at hw
      have ih := interp_transparent env k tok armed b (push b s) cs hw.2 hc
      rw [interp_subst_eq env k tok armed live b s cs hw.1]
      simp only [handler]
      cases hb : (interp env k tok armed b (push b s) cs).out with
      | normal =>
        simp only []
        split
        · exact ⟨ih.1, fun _ => rfl⟩
        · exact ⟨ih.1, fun _ => ih.2 hb⟩
      | exc e => exact ⟨ih.1, fun h => by simp at h⟩
theorem interpList_transparent (env : Env) (k : K) (tok : Nat) (armed : Bool) :
    ∀ (l : List I) (s : Stack) (cs : Caches), allWF l = true → CacheOK env cs →
      CacheOK env (interpList env k tok armed l s cs).caches ∧
      ((interpList env k tok armed l s cs).out = .normal →
        (interpList env k tok armed l s cs).fired.map Prod.fst = handlerList env k l)
  | [], s, cs, _, hc => by simp [interpList, handlerList, hc]
  | x :: xs, s, cs, hw, hc => by
      simp only [allWF, Bool.and_eq_true] at hw
      have ihx := interp_transparent env k tok armed x s cs hw.1 hc
      simp only [interpList, handlerList]
      split
      · next hon hfn =>
        have hx := ihx.2 hon
        rw [hfn] at hx
        simp only [Option.map_none] at hx
        rw [← hx]
        exact interpList_transparent env k tok armed xs _ _ hw.2 ihx.1
      · next hne =>
        refine ⟨ihx.1, fun ho => ?_⟩
        have hx := ihx.2 ho
        cases hf : (interp env k tok armed x s cs).fired with
        | none => exact absurd hf (hne ho)
        | some hfs =>
          rw [hf] at hx
          simp only [Option.map_some] at hx
          rw [← hx]
          simp
end

mutual
/-- Nothing raises by itself: with no armed probe, interpretation under well-formed objects returns. -/
theorem interp_unarmed_normal (env : Env) (k : K) (tok : Nat) :
    ∀ (i : I) (s : Stack) (cs : Caches), WF i = true → (interp env k tok false i s cs).out = .normal
  | .reflect, s, cs, _ => by simp [interp]
  | .disp n, s, cs, _ => by
      simp only [interp]; split <;> simp
  | .prio _ l, s, cs, hw => by
      simp only [interp]; exact interpList_unarmed_normal env k tok l s cs (by simpa [WF] using hw)
  | .memo cid sh b, s, cs, hw => by
      simp only [WF, Bool.and_eq_true] at hw
      have ih := interp_unarmed_normal env k tok b s cs hw.2
      simp only [interp]
      split
      · rfl
      · split
        · exact ih
        · exact ih
  | .tape old, s, cs, hw => by
      simp only [WF, Bool.and_eq_true] at hw
      rw [interp_tape_eq env k tok false old s cs hw.1]
      exact interp_unarmed_normal env k tok old _ cs hw.2
  | .subst live b, s, cs, hw => by
      simp only [WF, Bool.and_eq_true] at hw
      rw [interp_subst_eq env k tok false live b s cs hw.1, interp_unarmed_normal env k tok b _ cs hw.2]
      simp only []
      split <;> simp
theorem interpList_unarmed_normal (env : Env) (k : K) (tok : Nat) :
    ∀ (l : List I) (s : Stack) (cs : Caches), allWF l = true →
      (interpList env k tok false l s cs).out = .normal
  | [], s, cs, _ => by simp [interpList]
  | x :: xs, s, cs, hw => by
      simp only [allWF, Bool.and_eq_true] at hw
      simp only [interpList]
      split
      · exact interpList_unarmed_normal env k tok xs _ _ hw.2
      · exact interp_unarmed_normal env k tok x s cs hw.1
end

/-- **innermost_interprets.**  A term built while `i` is the innermost context is interpreted by
    `handler i`, whatever contexts `s` enclose it and whatever the (owned) caches hold. -/
theorem innermost_interprets (env : Env) (k : K) (tok : Nat) (armed : Bool) (s : Stack) (i : I) (st : St)
    (hst : st.stack = s ++ [i]) (hw : WF i = true) (hc : CacheOK env st.caches)
    (hn : (exec env (.probe k armed tok) st).1 = .normal) :
    ∃ fs hit, (exec env (.probe k armed tok) st).2.log
      = .probe k (handler env k i) fs hit i true :: st.log := by
  have ht : top? st.stack = some i := by simp [top?, hst]
  simp only [exec, ht] at hn ⊢
  have hh := (interp_transparent env k tok armed i st.stack st.caches hw hc).2 hn
  rw [hn]
  cases hf : (interp env k tok armed i st.stack st.caches).fired with
  | none => rw [hf] at hh; simp only [Option.map_none] at hh; exact ⟨st.stack, false, by rw [← hh]⟩
  | some hfs =>
    obtain ⟨h, fs⟩ := hfs
    rw [hf] at hh; simp only [Option.map_some] at hh
    exact ⟨fs, _, by rw [← hh]⟩

/-- The with-block form: inside `with n:` for a total module-level interpretation `n`, an (unarmed)
    probe is handled by `handler n`, independently of the enclosing stack, and the block restores it. -/
theorem with_total_interprets (env : Env) (k : K) (tok : Nat) (n : String) (i : I) (st : St)
    (hn : env.named n = some i) (ht : i.isTotal = true) (hw : WF i = true) (hc : CacheOK env st.caches) :
    ∃ fs hit cs, exec env (.withI (.named n) (.probe k false tok)) st =
      (.normal, { st with log := .probe k (handler env k i) fs hit i true :: st.log, caches := cs }) := by
  have he : enter env (.named n) st.stack st.next = .ok (push i st.stack, st.next) := by
    simp [enter, ctxObj, hn, enterI_total st.stack ht]
  have htop : top? (push i st.stack) = some i := top?_push i st.stack
  have hout := interp_unarmed_normal env k tok i (push i st.stack) st.caches hw
  have hh := (interp_transparent env k tok false i (push i st.stack) st.caches hw hc).2 hout
  have hs := interp_stack env k tok false i (push i st.stack) st.caches
  simp only [exec, he, htop, hout, hs, pop?_push]
  cases hf : (interp env k tok false i (push i st.stack) st.caches).fired with
  | none =>
    rw [hf] at hh; simp only [Option.map_none] at hh
    exact ⟨push i st.stack, false, _, by rw [← hh]⟩
  | some hfs =>
    obtain ⟨h, fs⟩ := hfs
    rw [hf] at hh; simp only [Option.map_some] at hh
    exact ⟨fs, _, _, by rw [← hh]⟩

theorem handlerList_append (env : Env) (k : K) : ∀ (l1 l2 : List I),
    handlerList env k (l1 ++ l2) =
      match handlerList env k l1 with
      | some h => some h
      | none => handlerList env k l2
  | [], l2 => by simp [handlerList]
  | x :: xs, l2 => by
      simp only [List.cons_append, handlerList]
      cases handler env k x with
      | some h => rfl
      | none => exact handlerList_append env k xs l2

theorem handlerList_subinterps (env : Env) (k : K) (x : I) :
    handlerList env k x.subinterps = handler env k x := by
  cases x with
  | prio t l => simp [I.subinterps, handler]
  | reflect => simp [I.subinterps, handlerList, handler]
  | disp n => simp only [I.subinterps, handlerList]; cases handler env k (.disp n) <;> rfl
  | memo c sh b => simp only [I.subinterps, handlerList]; cases handler env k (.memo c sh b) <;> rfl
  | tape o => simp only [I.subinterps, handlerList]; cases handler env k (.tape o) <;> rfl
  | subst l b => simp only [I.subinterps, handlerList]; cases handler env k (.subst l b) <;> rfl

/-- **partial_falls_through.**  Entering a partial interpretation `i` while `t` is active makes the
    active interpretation one that answers with `i`'s rule when it has one and otherwise exactly as
    `t` did — at any depth of layering. -/
theorem partial_falls_through (env : Env) (k : K) (i t : I) (s s' : Stack)
    (hp : i.isTotal = false) (ht : top? s = some t) (h : enterI i s = .ok s') :
    ∃ p, s' = push p s ∧
      handler env k p = match handler env k i with
        | some h => some h
        | none => handler env k t := by
  simp only [enterI, hp, ht, Bool.false_eq_true, if_false] at h
  split at h
  · cases h
  · next p hm =>
    refine ⟨p, by cases h; rfl, ?_⟩
    unfold mkPrio at hm
    simp only [List.flatMap_cons, List.flatMap_nil, List.append_nil] at hm
    split at hm
    · cases hm
    · split at hm
      · cases hm
      · split at hm
        · cases hm
        · cases hm
          simp only [handler]
          rw [handlerList_append, handlerList_subinterps, handlerList_subinterps]

/-- The special case of a single DispatchedInterpretation with rule table `env.rules n`. -/
theorem partial_leaf_falls_through (env : Env) (k : K) (n : String) (t : I) (s s' : Stack)
    (ht : top? s = some t) (h : enterI (.disp n) s = .ok s') :
    ∃ p, s' = push p s ∧ handler env k p = if env.rules n k = true then some n else handler env k t := by
  obtain ⟨p, hp, hh⟩ := partial_falls_through env k (.disp n) t s s' rfl ht h
  refine ⟨p, hp, ?_⟩
  rw [hh]
  simp only [handler]
  by_cases hr : env.rules n k = true <;> simp [hr]

/-- Hence inside a decorated function whose decorator is a partial leaf `n`, called while `t` is the
    active interpretation, a probe the leaf declines is answered exactly as `t` answers it. -/
theorem deco_partial_falls_through_to_caller (env : Env) (k : K) (n : String) (t : I) (s s' : Stack)
    (hn : env.named n = some (.disp n)) (ht : top? s = some t)
    (nx m : Nat) (h : enter env (.named n) s nx = .ok (s', m)) :
    ∃ p, s' = push p s ∧ handler env k p = if env.rules n k = true then some n else handler env k t := by
  obtain ⟨i, hc, he⟩ := enter_ok h
  simp only [ctxObj, hn, Except.ok.injEq, Prod.mk.injEq] at hc
  rw [← hc.1] at he
  exact partial_leaf_falls_through env k n t s s' ht he

/-- `rules_of class`: the rule table of one interpretation class / leaf — its OWN registry
    (`StatefulInterpretationMeta` creates one per class; `DispatchedInterpretation` one per instance). -/
def rulesOf (env : Env) (cls : String) : K → Bool := env.rules cls

/-- **parent_ignores_subclass_rules.**  What a leaf of class `p` answers depends on `p`'s own table
    only: whatever rules are registered on other classes (its subclasses, its siblings — or anything
    else), `p` declines exactly what its own table declines, and then the enclosing layers answer. -/
theorem parent_ignores_subclass_rules (env env' : Env) (p : String) (k : K) (rest : List I)
    (hown : rulesOf env p = rulesOf env' p)
    (hrest : handlerList env k rest = handlerList env' k rest) :
    handler env k (.prio none (.disp p :: rest)) = handler env' k (.prio none (.disp p :: rest)) := by
  have h : env.rules p k = env'.rules p k := congrFun hown k
  simp only [handler, handlerList, h, hrest]

/-- in particular, with no rule of its own for `k`, `p` falls through whatever its relatives define -/
theorem leaf_without_rule_falls_through (env : Env) (p : String) (k : K) (rest : List I)
    (h : rulesOf env p k = false) :
    handler env k (.prio none (.disp p :: rest)) = handlerList env k rest := by
  simp only [rulesOf] at h
  simp [handler, handlerList, h]

/-- **prebuilt_enters_at_enter_time.**  An interpretation object constructed anywhere, at any time
    (constructing is pure with respect to the stack: `Memoize(P)`, `PrioritizedInterpretation(P, W)`, a
    StatefulInterpretation instance hold only their arguments) and ENTERED while `t` is active: if it is
    partial, what it declines is answered exactly as `t` — the interpretation active at ENTER time —
    answers it; the context it was constructed under plays no role.  (Corollary of
    `partial_falls_through`; the decorator form `@c` is the same by `deco_is_with_at_call_time`.) -/
theorem prebuilt_enters_at_enter_time (env : Env) (k : K) (i t : I) (s s' : Stack) (nx m : Nat)
    (hp : i.isTotal = false) (ht : top? s = some t)
    (h : enter env (.built i) s nx = .ok (s', m)) :
    ∃ p, s' = push p s ∧
      handler env k p = match handler env k i with
        | some h => some h
        | none => handler env k t := by
  obtain ⟨i', hc, he⟩ := enter_ok h
  simp only [ctxObj, Except.ok.injEq, Prod.mk.injEq] at hc
  rw [← hc.1] at he
  exact partial_falls_through env k i t s s' hp ht he

/-- …and a total prebuilt object is pushed as it is, whatever is active. -/
theorem prebuilt_total_pushed_alone (env : Env) (i : I) (s : Stack) (nx : Nat) (ht : i.isTotal = true) :
    enter env (.built i) s nx = .ok (push i s, nx) := by
  simp [enter, ctxObj, enterI_total s ht]

/-- **apply_optimizer_falls_through_to_caller.**  Library entry points that push interpretations
    internally behave like the decorator form: `apply_optimizer` (behind `einsum`, the recipes, …)
    interprets the terms it rebuilds under `optimize_base` layered over the interpretation that is active
    WHEN IT IS CALLED: whatever the optimizer has no rule for is answered exactly as the caller's
    innermost interpretation `t` answers it (a user's partial interpretation sees it, an active tape
    records it) — not by a prebuilt `optimize` over plain eager. -/
theorem apply_optimizer_falls_through_to_caller (env : Env) (k : K) (t : I) (s s' : Stack) (nx m : Nat)
    (hn : env.named "optimize_base" = some (.disp "optimize_base")) (ht : top? s = some t)
    (h : enter env (.named "optimize_base") s nx = .ok (s', m)) :
    ∃ p, s' = push p s ∧
      handler env k p = if env.rules "optimize_base" k = true then some "optimize_base" else handler env k t :=
  deco_partial_falls_through_to_caller env k "optimize_base" t s s' hn ht nx m h

/-- …and, like every program, the two phases of `apply_optimizer` and `forward_backward` leave the
    stack as they found it, whatever happens inside. -/
theorem entry_points_restore_stack (env : Env) (k : K) (armed : Bool) (tok : Nat) (st : St) :
    (exec env (applyOpt k armed tok) st).2.stack = st.stack ∧
    (exec env (forwardBackward k tok) st).2.stack = st.stack :=
  ⟨exec_restores_stack env _ st, exec_restores_stack env _ st⟩

/-! ### refused entry -/

/-- **enter_failure_leaves_stack.**  If `__enter__` raises (the `< 10` assertion, or any other), the
    block's body does not run, nothing is logged, and the state is untouched. -/
theorem enter_failure_leaves_stack (env : Env) (c : Ctx) (body : Prog) (st : St) (e : Err)
    (h : enter env c st.stack st.next = .error e) :
    exec env (.withI c body) st = (.exc e, st) ∧ exec env (.deco c body) st = (.exc e, st) := by
  simp [exec, h]

/-- When the `< 10` assertion fires: layering `i` onto `t` would give 10 or more sub-interpretations. -/
theorem enterI_overflow (i t : I) (s : Stack) (hp : i.isTotal = false) (ht : top? s = some t)
    (hlen : 10 ≤ i.subinterps.length + t.subinterps.length) :
    enterI i s = .error .assertOverflow := by
  simp only [enterI, hp, ht, Bool.false_eq_true, if_false]
  have : ¬ ((i.subinterps ++ t.subinterps).length < 10) := by simp; omega
  have hne : (i.subinterps ++ t.subinterps).isEmpty = false := by
    cases hl : i.subinterps ++ t.subinterps with
    | nil => rw [hl] at this; simp at this
    | cons _ _ => rfl
  simp [mkPrio, hne, hlen]

/-- …and only then. -/
theorem enterI_overflow_only (i : I) (s : Stack) (h : enterI i s = .error .assertOverflow) :
    ∃ t, top? s = some t ∧ i.isTotal = false ∧ 10 ≤ i.subinterps.length + t.subinterps.length := by
  unfold enterI at h
  split at h
  · cases h
  · next hp =>
    split at h
    · cases h
    · next t ht =>
      refine ⟨t, ht, by simpa using hp, ?_⟩
      split at h
      · next e hm =>
        cases h
        unfold mkPrio at hm
        simp only [List.flatMap_cons, List.flatMap_nil, List.append_nil] at hm
        split at hm
        · cases hm
        · split at hm
          · next hl => simp at hl; omega
          · split at hm <;> cases hm
      · cases h

/-- `__exit__` never swallows: a block's outcome is its body's outcome. -/
theorem with_outcome_is_body_outcome (env : Env) (c : Ctx) (body : Prog) (st : St) (s1 : Stack) (n : Nat)
    (h : enter env c st.stack st.next = .ok (s1, n)) :
    (exec env (.withI c body) st).1 = (exec env body { st with stack := s1, next := n }).1 := by
  obtain ⟨x, rfl⟩ := enter_push h
  have ih := exec_restores_stack env body { st with stack := push x st.stack, next := n }
  simp only [exec, h]
  generalize exec env body { st with stack := push x st.stack, next := n } = r at ih
  obtain ⟨o, st2⟩ := r
  simp only [] at ih ⊢
  rw [ih, pop?_push]

/-! ### every stack entry stays total (so `_STACK[-1].interpret` always answers) -/

def AllTotal (s : Stack) : Prop := ∀ x ∈ s, x.isTotal = true

theorem anyTotal_append : ∀ (l1 l2 : List I), anyTotal (l1 ++ l2) = (anyTotal l1 || anyTotal l2)
  | [], l2 => by simp [anyTotal]
  | x :: xs, l2 => by simp [anyTotal, anyTotal_append xs l2, Bool.or_assoc]

theorem anyTotal_subinterps (x : I) : anyTotal x.subinterps = x.isTotal := by
  cases x <;> simp [I.subinterps, anyTotal, I.isTotal]

theorem allTotal_enterClosed : EnterClosed AllTotal := by
  intro i s s' hs h
  unfold enterI at h
  split at h
  · next ht =>
    cases h
    intro x hx
    rcases List.mem_append.mp hx with hx | hx
    · exact hs x hx
    · simp at hx; rw [hx]; exact ht
  · split at h
    · cases h
    · next t htop =>
      split at h
      · cases h
      · next p hm =>
        cases h
        have htt : t.isTotal = true := hs t (List.mem_of_getLast? htop)
        intro x hx
        rcases List.mem_append.mp hx with hx | hx
        · exact hs x hx
        · simp at hx
          rw [hx]
          unfold mkPrio at hm
          simp only [List.flatMap_cons, List.flatMap_nil, List.append_nil] at hm
          split at hm
          · cases hm
          · split at hm
            · cases hm
            · split at hm
              · cases hm
              · cases hm
                simp [I.isTotal, anyTotal_append, anyTotal_subinterps, htt]

/-- If every entry of the initial stack is total (true of `[reflect, eager]`), every entry of every
    stack ever observed is total: layering a partial interpretation always yields a total one. -/
theorem stack_stays_total (env : Env) (p : Prog) (st : St) (h : AllTotal st.stack) :
    ∃ new, (exec env p st).2.log = new ++ st.log ∧ ∀ o ∈ new, AllTotal o.stack :=
  exec_obs_invariant AllTotal allTotal_enterClosed env p st h


/-! ### memoize() is transparent for whole programs; sharing a cache across bases is not -/

def CtxFresh : Ctx → Bool
  | .memoShared _ => false
  | .built i => WF i
  | _ => true

/-- the program never passes an explicit `cache=` -/
def NoShared : Prog → Bool
  | .withI c b => CtxFresh c && NoShared b
  | .deco c b => CtxFresh c && NoShared b
  | .seq a b => NoShared a && NoShared b
  | .catch b => NoShared b
  | .quiet b => NoShared b
  | _ => true

def AllWF (s : Stack) : Prop := ∀ x ∈ s, WF x = true

def EnvWF (env : Env) : Prop := ∀ n i, env.named n = some i → WF i = true

/-- what the harness gates for every probe: the term got the answer of the interpretation that was
    innermost when it was built -/
def ProbeOK (env : Env) : Obs → Prop
  | .at _ => True
  | .probe k h _ _ top ok => ok = true → h = handler env k top

/-- the decidable form of `ProbeOK` -/
def probeOKb (env : Env) : Obs → Bool
  | .at _ => true
  | .probe k h _ _ top ok => !ok || (h == handler env k top)

theorem probeOKb_iff (env : Env) (o : Obs) : probeOKb env o = true ↔ ProbeOK env o := by
  cases o with
  | «at» s => simp [probeOKb, ProbeOK]
  | probe k h s hit top ok =>
    cases ok <;> simp [probeOKb, ProbeOK]

theorem allWF_append : ∀ (l1 l2 : List I), allWF (l1 ++ l2) = (allWF l1 && allWF l2)
  | [], l2 => by simp [allWF]
  | x :: xs, l2 => by simp [allWF, allWF_append xs l2, Bool.and_assoc]

theorem allWF_subinterps (x : I) : allWF x.subinterps = WF x := by
  cases x <;> simp [I.subinterps, allWF, WF]

theorem enterI_allWF {i : I} {s s' : Stack} (hs : AllWF s) (hi : WF i = true)
    (h : enterI i s = .ok s') : AllWF s' := by
  unfold enterI at h
  split at h
  · cases h
    intro x hx
    rcases List.mem_append.mp hx with hx | hx
    · exact hs x hx
    · simp at hx; rw [hx]; exact hi
  · split at h
    · cases h
    · next t htop =>
      split at h
      · cases h
      · next p hm =>
        cases h
        have hwt : WF t = true := hs t (List.mem_of_getLast? htop)
        intro x hx
        rcases List.mem_append.mp hx with hx | hx
        · exact hs x hx
        · simp at hx
          rw [hx]
          unfold mkPrio at hm
          simp only [List.flatMap_cons, List.flatMap_nil, List.append_nil] at hm
          split at hm
          · cases hm
          · split at hm
            · cases hm
            · split at hm
              · cases hm
              · cases hm
                simp [WF, allWF_append, allWF_subinterps, hi, hwt]

theorem ctxObj_wf {env : Env} (henv : EnvWF env) {c : Ctx} {s : Stack} {nx n : Nat} {i : I}
    (hc : CtxFresh c = true) (hs : AllWF s) (ht : AllTotal s)
    (h : ctxObj env c s nx = .ok (i, n)) : WF i = true := by
  cases c with
  | named nm =>
    simp only [ctxObj] at h
    split at h
    · next i' hn => cases h; exact henv nm _ hn
    · cases h
  | memoize =>
    simp only [ctxObj] at h
    split at h
    · next t htop => cases h; simp [WF, hs t (List.mem_of_getLast? htop)]
    · cases h
  | memoShared c => simp [CtxFresh] at hc
  | built i' =>
    simp only [ctxObj, Except.ok.injEq, Prod.mk.injEq] at h
    rw [← h.1]
    simpa [CtxFresh] using hc
  | tape =>
    simp only [ctxObj] at h
    split at h
    · next t htop =>
      cases h
      simp [WF, hs t (List.mem_of_getLast? htop), ht t (List.mem_of_getLast? htop)]
    · cases h
  | subst live =>
    simp only [ctxObj] at h
    split at h
    · next t htop =>
      cases h
      simp [WF, hs t (List.mem_of_getLast? htop), ht t (List.mem_of_getLast? htop)]
    · cases h

theorem enter_good {env : Env} (henv : EnvWF env) {c : Ctx} {s s' : Stack} {nx n : Nat}
    (hc : CtxFresh c = true) (hs : AllWF s) (ht : AllTotal s)
    (h : enter env c s nx = .ok (s', n)) : AllWF s' ∧ AllTotal s' := by
  obtain ⟨i, hci, he⟩ := enter_ok h
  exact ⟨enterI_allWF hs (ctxObj_wf henv hc hs ht hci) he, allTotal_enterClosed i s s' ht he⟩

theorem exec_withI_caches (env : Env) (c : Ctx) (body : Prog) (st : St) (s1 : Stack) (n : Nat)
    (h : enter env c st.stack st.next = .ok (s1, n)) :
    (exec env (.withI c body) st).2.caches = (exec env body { st with stack := s1, next := n }).2.caches ∧
    (exec env (.withI c body) st).2.log = (exec env body { st with stack := s1, next := n }).2.log := by
  simp only [exec, h]
  generalize exec env body { st with stack := s1, next := n } = r
  obtain ⟨o, st2⟩ := r
  simp only []
  split <;> exact ⟨rfl, rfl⟩

/-- **fresh_memoize_transparent.**  In any program that never passes an explicit `cache=`, started
    from a stack of total well-formed entries (e.g. `[reflect, eager]`) and caches satisfying the
    invariant (e.g. none): the cache invariant holds ever after, and EVERY term built anywhere in the
    program — at any nesting of memoize(), partial interpretations, tapes, substitutions, after any
    exceptions, however often the same term was built before and under whatever contexts — receives
    the answer of the interpretation that is innermost at that moment (`handler top`), never an
    answer cached under a different base. -/
theorem fresh_memoize_transparent (env : Env) (henv : EnvWF env) :
    ∀ (p : Prog) (st : St), NoShared p = true → AllWF st.stack → AllTotal st.stack →
      CacheOK env st.caches →
      CacheOK env (exec env p st).2.caches ∧
      ∃ new, (exec env p st).2.log = new ++ st.log ∧ ∀ o ∈ new, ProbeOK env o
  | .skip, st, _, _, _, hc => ⟨hc, [], rfl, by simp⟩
  | .obs, st, _, _, _, hc => ⟨hc, [.at st.stack], rfl, by simp [ProbeOK]⟩
  | .raise, st, _, _, _, hc => ⟨hc, [], rfl, by simp⟩
  | .probe k armed tok, st, _, hw, _, hc => by
      simp only [exec]
      split
      · exact ⟨hc, [], rfl, by simp⟩
      · next t htop =>
        have hwt : WF t = true := hw t (List.mem_of_getLast? htop)
        have htr := interp_transparent env k tok armed t st.stack st.caches hwt hc
        refine ⟨htr.1, [_], rfl, ?_⟩
        intro o ho
        simp only [List.mem_singleton] at ho
        subst ho
        cases hf : (interp env k tok armed t st.stack st.caches).fired with
        | none =>
          simp only [ProbeOK]
          intro hok
          have hn : (interp env k tok armed t st.stack st.caches).out = .normal := by
            cases ho' : (interp env k tok armed t st.stack st.caches).out with
            | normal => rfl
            | exc e => rw [ho'] at hok; simp at hok
          have := htr.2 hn
          rw [hf] at this
          simpa using this
        | some hfs =>
          obtain ⟨h, fs⟩ := hfs
          simp only [ProbeOK]
          intro hok
          have hn : (interp env k tok armed t st.stack st.caches).out = .normal := by
            cases ho' : (interp env k tok armed t st.stack st.caches).out with
            | normal => rfl
            | exc e => rw [ho'] at hok; simp at hok
          have := htr.2 hn
          rw [hf] at this
          simpa using this
  | .withI c body, st, hp, hw, ht, hc => by
      simp only [NoShared, Bool.and_eq_true] at hp
      cases he : enter env c st.stack st.next with
      | error e => simp only [exec, he]; exact ⟨hc, [], rfl, by simp⟩
      | ok r =>
        obtain ⟨s1, n⟩ := r
        obtain ⟨hw1, ht1⟩ := enter_good henv hp.1 hw ht he
        have ih := fresh_memoize_transparent env henv body { st with stack := s1, next := n } hp.2 hw1 ht1 hc
        obtain ⟨e1, e2⟩ := exec_withI_caches env c body st s1 n he
        rw [e1, e2]
        exact ih
  | .deco c body, st, hp, hw, ht, hc => by
      simp only [NoShared, Bool.and_eq_true] at hp
      rw [deco_is_with_at_call_time]
      cases he : enter env c st.stack st.next with
      | error e => simp only [exec, he]; exact ⟨hc, [], rfl, by simp⟩
      | ok r =>
        obtain ⟨s1, n⟩ := r
        obtain ⟨hw1, ht1⟩ := enter_good henv hp.1 hw ht he
        have ih := fresh_memoize_transparent env henv body { st with stack := s1, next := n } hp.2 hw1 ht1 hc
        obtain ⟨e1, e2⟩ := exec_withI_caches env c body st s1 n he
        rw [e1, e2]
        exact ih
  | .seq a b, st, hp, hw, ht, hc => by
      simp only [NoShared, Bool.and_eq_true] at hp
      obtain ⟨hc1, new1, hl1, hq1⟩ := fresh_memoize_transparent env henv a st hp.1 hw ht hc
      have hst := exec_restores_stack env a st
      simp only [exec]
      split
      · next st1 h =>
        rw [h] at hl1 hst hc1
        simp only [] at hl1 hst hc1
        obtain ⟨hc2, new2, hl2, hq2⟩ := fresh_memoize_transparent env henv b st1 hp.2
          (by rw [hst]; exact hw) (by rw [hst]; exact ht) hc1
        refine ⟨hc2, new2 ++ new1, by rw [hl2, hl1, List.append_assoc], ?_⟩
        intro o ho
        rcases List.mem_append.mp ho with h' | h'
        · exact hq2 o h'
        · exact hq1 o h'
      · next e st1 h =>
        rw [h] at hl1 hc1
        exact ⟨hc1, new1, hl1, hq1⟩
  | .catch body, st, hp, hw, ht, hc => by
      simp only [NoShared] at hp
      obtain ⟨hc1, new, hl, hq⟩ := fresh_memoize_transparent env henv body st hp hw ht hc
      simp only [exec]
      exact ⟨hc1, new, hl, hq⟩
  | .quiet body, st, hp, hw, ht, hc => by
      simp only [NoShared] at hp
      obtain ⟨hc1, _, _, _⟩ := fresh_memoize_transparent env henv body st hp hw ht hc
      simp only [exec]
      exact ⟨hc1, [], rfl, by simp⟩

/-! ### the hypotheses are satisfiable (a hand-written copy of the pinned tables + the harness's P, W) -/

def exEnv : Env :=
  Env.ofTables ["eager_base", "normalize_base", "lazy_base", "P", "W1", "W2", "W3"]
    [("eager", ["eager_base", "normalize_base", "reflect"]), ("lazy", ["lazy_base", "reflect"]),
     ("W", ["W1", "W2", "W3"])]
    [("eager_base", ["num"]), ("normalize_base", ["num"]), ("P", ["a", "bin"]), ("W2", ["b"]), ("W3", ["a", "b"])]
    ["P", "W1", "W2", "W3"] ["num", "bin"] ["S"]

def exEager : I := .prio (some "eager") [.disp "eager_base", .disp "normalize_base", .reflect]
def exLazy : I := .prio (some "lazy") [.disp "lazy_base", .reflect]
def exBase : Stack := [.reflect, exEager]
def exSt : St := { stack := exBase, log := [] }

def isOk {α : Type} : Except Err α → Bool
  | .ok _ => true
  | .error _ => false

def nestNamed (env : Env) (names : List String) (s : Stack) : Except Err Stack :=
  names.foldl (fun acc n => match acc with
    | .error e => .error e
    | .ok s => (enter env (.named n) s 0).map Prod.fst) (.ok s)

def logOf (r : Outcome × St) : List String := r.2.log.reverse.map (Obs.canon fun _ => true)

/-- the names resolve to the objects above; the base stack is total and well-formed -/
example : (exEnv.named "eager").map I.canon = some "eager" := by decide
example : (exBase.all I.isTotal && allWF exBase) = true := by decide
/-- `with W: with W:` is accepted (9 sub-interpretations), a third `with W:` is refused … -/
example : isOk (nestNamed exEnv ["W", "W"] exBase) = true := by decide
example : (match nestNamed exEnv ["W", "W", "W"] exBase with
    | .error .assertOverflow => true | _ => false) = true := by decide
/-- … so `enter_failure_leaves_stack` and `enterI_overflow` are not vacuous. -/
example : (match exec exEnv (.withI (.named "W") (.withI (.named "W") (.withI (.named "W") .obs))) exSt with
    | (.exc .assertOverflow, st) => canonStack st.stack == "reflect,eager" && st.log.length == 0
    | _ => false) = true := by decide
/-- `partial_falls_through`: `with lazy: with W: with P:` answers `a` by P, `b` by W2, `num` by reflect. -/
example : (match nestNamed exEnv ["lazy", "W", "P"] exBase with
    | .ok s => (s.getLast?.map fun t => (handler exEnv "a" t, handler exEnv "b" t, handler exEnv "num" t))
        == some (some "P", some "W2", some "reflect")
    | _ => false) = true := by decide
/- an exception raised inside a rule, inside the tape's temporary push, inside a decorated call:
    everything is unwound, and the rule saw the tape's extra entry. -/
set_option maxRecDepth 16384 in
example : (match exec exEnv (.withI (.named "P") (.deco .tape (.probe "bin" true 1))) exSt with
    | (.exc .probe, st) => canonStack st.stack == "reflect,eager" &&
        st.log.map (Obs.canon fun _ => true) ==
          ["?bin=P@reflect,eager,[P eager_base normalize_base reflect]," ++
           "[tape([P eager_base normalize_base reflect]) P eager_base normalize_base reflect]," ++
           "[P eager_base normalize_base reflect]"]
    | _ => false) = true := by decide

/-- `memoize() → P → memoize()` with the SAME term built at every level (the shape of seeded defect
    C17_5): with fresh caches the inner blocks answer by P (a real hit the second time), and after P
    is left the outer block answers by reflect again. -/
def exMemoProg (inner : Ctx) (outer : Ctx) : Prog :=
  .withI outer (.seq (.probe "a" false 1)
    (.seq (.withI (.named "P") (.seq (.probe "a" false 1)
      (.withI inner (.seq (.probe "a" false 1) (.probe "a" false 1)))))
    (.probe "a" false 1)))

def handlersOf (r : Outcome × St) : List (Option String × Bool) :=
  r.2.log.reverse.filterMap fun o => match o with
    | .probe _ h _ hit _ _ => some (h, hit)
    | .at _ => none

set_option maxRecDepth 16384 in
example : handlersOf (exec exEnv (exMemoProg .memoize .memoize) exSt) =
    [(some "reflect", false), (some "P", false), (some "P", false), (some "P", true), (some "reflect", true)] := by
  decide

/-- **shared_cache_unsound_witness.**  The explicit-cache form is the user's responsibility: the same
    dict used under two different bases (`memoize(cache=d) → P → memoize(cache=d)`) answers the
    inner probes from the entry made under the outer base — by `reflect`, although the innermost
    interpretation's answer is P's (so `fresh_memoize_transparent` has no analogue for shared caches;
    this is also exactly what a `memoize()` that silently re-uses an enclosing cache would do). -/
theorem shared_cache_unsound_witness :
    ∃ o ∈ (exec exEnv (exMemoProg (.memoShared 1) (.memoShared 1)) exSt).2.log, ¬ ProbeOK exEnv o := by
  have h : ((exec exEnv (exMemoProg (.memoShared 1) (.memoShared 1)) exSt).2.log.all (probeOKb exEnv)) = false := by
    decide
  have h' : ¬ ∀ o ∈ (exec exEnv (exMemoProg (.memoShared 1) (.memoShared 1)) exSt).2.log,
      probeOKb exEnv o = true := by
    intro hall
    rw [List.all_eq_true.mpr hall] at h
    cases h
  apply Classical.byContradiction
  intro hne
  apply h'
  intro o ho
  cases hb : probeOKb exEnv o with
  | true => rfl
  | false =>
    exfalso
    apply hne
    refine ⟨o, ho, fun hok => ?_⟩
    rw [(probeOKb_iff exEnv o).mpr hok] at hb
    cases hb



/-! ### leaf terms (ground constants) are terms like any other (the class of seeded defect C17_14)

`innermost_interprets` / `partial_falls_through` quantify over every probe kind `k`, in particular over the kinds
whose class is a LEAF of the term language (`n` = Number, `t` = Tensor without inputs, `tn` = Tensor with inputs).
The harness's partial interpretation `K` has rules for exactly those; the instance below is the statement the
correspondence family J checks against `reinterpret` / `recursion_reinterpret` / `stack_reinterpret`: a leaf rebuilt
while K is innermost is answered by K (also through memoize / an adjoint tape layered on top), the other kinds fall
through K to the enclosing context, and after K is left the leaf is answered by the enclosing context again. -/

def exEnvK : Env :=
  Env.ofTables ["eager_base", "normalize_base", "lazy_base", "P", "K"]
    [("eager", ["eager_base", "normalize_base", "reflect"]), ("lazy", ["lazy_base", "reflect"])]
    [("eager_base", ["num"]), ("normalize_base", ["num"]), ("P", ["a", "bin"]), ("K", ["n", "t", "tn"])]
    ["P", "K"] ["num", "bin"] ["S"]

/-- with K innermost (over lazy, over P, at top level): every leaf kind is answered by K; `a` falls through. -/
theorem leaf_kinds_answered_by_innermost_K :
    ([["K"], ["lazy", "K"], ["P", "K"], ["lazy", "P", "K"], ["K", "K"]].all fun names =>
      match nestNamed exEnvK names exBase with
      | .ok s => (s.getLast?.map fun t =>
          (handler exEnvK "n" t, handler exEnvK "t" t, handler exEnvK "tn" t)) == some (some "K", some "K", some "K")
      | _ => false) = true := by decide

/-- … and a leaf kind falls through a partial interpretation without a rule for it (P) to K below it. -/
theorem leaf_kinds_fall_through_to_K :
    (match nestNamed exEnvK ["lazy", "K", "P"] exBase with
      | .ok s => (s.getLast?.map fun t => (handler exEnvK "n" t, handler exEnvK "t" t, handler exEnvK "a" t))
          == some (some "K", some "K", some "P")
      | _ => false) = true := by decide

set_option maxRecDepth 16384 in
/-- the same through `exec`: rebuilt inside `with lazy: with K:` (also under memoize / a tape on top) the leaf is K's;
    after the K block it is reflect's again; the stack is unwound. -/
theorem leaf_probe_exec_innermost :
    (let r := exec exEnvK (.withI (.named "lazy") (.seq (.withI (.named "K")
          (.seq (.probe "n" false 1) (.seq (.withI .memoize (.probe "t" false 1)) (.withI .tape (.probe "n" false 2)))))
          (.probe "n" false 1))) exSt
     (handlersOf r).map Prod.fst == [some "K", some "K", some "K", some "reflect"]
       && canonStack r.2.stack == "reflect,eager") = true := by decide

end FV.Props.C17
