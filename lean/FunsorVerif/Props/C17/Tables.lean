/-
  Props/C17/Tables.lean — obligations over the tables regenerated from /repo on every run
  (Gen/C17Interps.lean: module-level interpretations of funsor/interpretations.py and the
  `push_interpretation` calls executed at import).  They fail closed: any change that makes a
  module-level chain ill-formed, or changes what is on the stack after `import funsor`, stops
  this module from elaborating (the main theorems in Props/C17.lean are unaffected).
-/
import FunsorVerif.Model.C17
import FunsorVerif.Gen.C17Interps
namespace FV.Props.C17.Tables
open FV.C17 FV.Gen.C17

def genEnv : Env := Env.ofTables leaves chains probeRules [] adjointProbes ["S"]

/-- what `PrioritizedInterpretation.__init__` asserts, on names: non-empty, fewer than 10,
    every sub-interpretation but the last partial; and the last one total (so the chain is total). -/
def chainOk (c : String × List String) : Bool :=
  match c.2.reverse with
  | [] => false
  | last :: initRev =>
    decide (c.2.length < 10) && totalLeaves.contains last && initRev.all (fun x => leaves.contains x)

/-- **The default interpretation is eager, over reflect** (interpretations.py:346-347). -/
theorem gen_base_stack : baseStack = ["reflect", "eager"] := by decide

theorem gen_total_leaves : totalLeaves = ["reflect"] := by decide

/-- every module-level PrioritizedInterpretation is well-formed and total -/
theorem gen_chains_wellformed : chains.all chainOk = true := by decide

/-- no name is both a leaf and a chain, none is defined twice (the model resolves names by first match) -/
theorem gen_names_distinct : (leaves ++ totalLeaves ++ chains.map Prod.fst).Nodup := by decide

/-- the interpretations the property quantifies over exist, are total and well-formed in the model -/
theorem gen_alphabet_total :
    ["eager", "lazy", "reflect", "normalize", "sequential", "moment_matching"].all (fun n =>
      match genEnv.named n with
      | some i => i.isTotal
      | none => false) = true := by decide

/-- the import-time stack resolves, and all its entries are total (hypothesis of `stack_stays_total`) -/
theorem gen_base_total :
    (match initStack genEnv baseStack with
     | some s => s.all I.isTotal && decide (s.length = 2)
     | none => false) = true := by decide

/-- `reflect` answers everything, so every total chain answers every probe (no `None` results) -/
theorem gen_alphabet_answers :
    ["eager", "lazy", "reflect", "normalize", "sequential", "moment_matching"].all (fun n =>
      ["num", "a", "b", "bin", "S"].all fun k =>
        match genEnv.named n with
        | some i => (handler genEnv k i).isSome
        | none => false) = true := by decide

/-- **How `apply_optimizer` chooses what it pushes** (optimizer.py): first the total `unfold`, then
    `optimize_base` layered over the interpretation active AT THE CALL — no other context, no branch on
    what the caller's interpretation is.  This is the source form `FV.C17.applyOpt` models
    (`apply_optimizer_falls_through_to_caller`). -/
theorem gen_apply_optimizer_form :
    applyOptimizerWith = ["unfold", "PrioritizedInterpretation(optimize_base, get_interpretation())"] ∧
    applyOptimizerBranches = 0 := by decide

/-- the two names the model of `apply_optimizer` uses: `unfold` is a total chain that (like every
    chain) ends in `reflect`, `optimize_base` is a partial leaf -/
theorem gen_apply_optimizer_names :
    ((match genEnv.named "unfold" with
      | some i => i.isTotal
      | none => false) &&
     leaves.contains "optimize_base") = true := by decide

/-- `unfold` leaves the probe terms sent through `apply_optimizer` alone (phase one returns them as
    they are), so the model's phase two sees the same term -/
theorem gen_unfold_leaves_probes_alone :
    ["a", "b", "bin"].all (fun k =>
      match genEnv.named "unfold" with
      | some i => handler genEnv k i == some "reflect"
      | none => false) = true := by decide

/-- **Constructing a Memoize is pure with respect to the stack**: `Memoize.__init__` stores the base
    it is given, and neither looks at the active interpretation nor layers anything — the source form
    behind `Ctx.built` / `prebuilt_enters_at_enter_time`. -/
theorem gen_memoize_init_pure :
    memoizeInitBase = "base_interpretation" ∧
    (memoizeInitCalls.contains "get_interpretation" || memoizeInitCalls.contains "PrioritizedInterpretation"
      || memoizeInitCalls.contains "interpreter.get_interpretation") = false := by decide

/-- **A fresh rule table per StatefulInterpretation class**: the metaclass creates a new registry for
    every class, unconditionally (never the parent's) — the source form behind `rulesOf` /
    `parent_ignores_subclass_rules`. -/
theorem gen_stateful_registry_fresh :
    statefulRegistryAssign = ["KeyedRegistry(default=lambda *args: None)"] := by decide

end FV.Props.C17.Tables
