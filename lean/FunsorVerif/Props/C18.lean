/-
  Props/C18.lean — compiled programs compute what interpretation computes.

  Main statement (`run_compile_eq_eval`): for ANY node ordering `ord` of the expression DAG that is
  duplicate-free, topological and complete (not just the one `anf` produces), any enumeration
  `inputs` of the expression's variables and any keyword binding `kw` of exactly those names,
  `compile_funsor` succeeds and running the program returns the value of the expression.
  The induction runs over the ordering with the invariant "slot i holds the value of the node
  numbered i" (`Inv`).  `Props/C18/Anf.lean` shows that the queue-based `anf` produces such an ordering.
-/
import FunsorVerif.Model.C18
namespace FV.Props.C18
open FV.C18

variable {V : Type}

/-! ## dicts -/

theorem dGet_dSet_same {κ α : Type} [DecidableEq κ] (d : List (κ × α)) (k : κ) (v : α) :
    dGet (dSet d k v) k = some v := by
  induction d with
  | nil => simp [dSet, dGet]
  | cons p r ih =>
    obtain ⟨k', w⟩ := p
    by_cases h : k' = k
    · simp [dSet, dGet, h]
    · simp [dSet, dGet, h, ih]

theorem dGet_dSet_ne {κ α : Type} [DecidableEq κ] (d : List (κ × α)) (k k' : κ) (v : α) (h : k ≠ k') :
    dGet (dSet d k v) k' = dGet d k' := by
  induction d with
  | nil => simp [dSet, dGet, h]
  | cons p r ih =>
    obtain ⟨k'', w⟩ := p
    by_cases h1 : k'' = k
    · subst h1; simp [dSet, dGet, h]
    · by_cases h2 : k'' = k'
      · subst h2; simp [dSet, dGet, h1]
      · simp [dSet, dGet, h1, h2, ih]

theorem dSet_fresh {κ α : Type} [DecidableEq κ] (d : List (κ × α)) (k : κ) (v : α)
    (h : dGet d k = none) : dSet d k v = d ++ [(k, v)] := by
  induction d with
  | nil => simp [dSet]
  | cons p r ih =>
    obtain ⟨k', w⟩ := p
    by_cases h1 : k' = k
    · simp [dGet, h1] at h
    · simp [dGet, h1] at h
      simp [dSet, h1, ih h]

theorem length_dSet_fresh {κ α : Type} [DecidableEq κ] (d : List (κ × α)) (k : κ) (v : α)
    (h : dGet d k = none) : (dSet d k v).length = d.length + 1 := by
  rw [dSet_fresh d k v h]; simp

/-! ## keyword dictionaries -/

theorem kwGet_isSome_iff (kw : Kw V) (n : String) : (kwGet kw n).isSome ↔ n ∈ kwKeys kw := by
  induction kw with
  | nil => simp [kwGet, kwKeys]
  | cons p r ih =>
    obtain ⟨k, v⟩ := p
    by_cases h : k = n
    · simp [kwGet, kwKeys, h]
    · have h' : ¬ n = k := fun e => h e.symm
      simpa [kwGet, kwKeys, h, h'] using ih

theorem kwGet_kwErase_ne (kw : Kw V) (m n : String) (h : m ≠ n) :
    kwGet (kwErase kw m) n = kwGet kw n := by
  induction kw with
  | nil => simp [kwErase]
  | cons p r ih =>
    obtain ⟨k, v⟩ := p
    by_cases h1 : k = m
    · subst h1; simp [kwErase, kwGet, h]
    · by_cases h2 : k = n
      · subst h2; simp [kwErase, kwGet, h1]
      · simp [kwErase, kwGet, h1, h2, ih]

theorem kwKeys_kwErase_sub (kw : Kw V) (m : String) : ∀ k ∈ kwKeys (kwErase kw m), k ∈ kwKeys kw := by
  induction kw with
  | nil => simp [kwErase]
  | cons p r ih =>
    obtain ⟨k, v⟩ := p
    by_cases h1 : k = m
    · intro k' hk
      simp only [kwErase, h1, if_true] at hk
      simp only [kwKeys, List.map_cons, List.mem_cons]; exact Or.inr hk
    · intro k' hk
      simp only [kwErase, h1, if_false, kwKeys, List.map_cons, List.mem_cons] at hk ⊢
      rcases hk with hk | hk
      · exact Or.inl hk
      · exact Or.inr (ih k' hk)

theorem kwKeys_kwErase_nodup (kw : Kw V) (m : String) (h : (kwKeys kw).Nodup) :
    (kwKeys (kwErase kw m)).Nodup ∧ m ∉ kwKeys (kwErase kw m) := by
  induction kw with
  | nil => simp [kwErase, kwKeys]
  | cons p r ih =>
    obtain ⟨k, v⟩ := p
    simp only [kwKeys, List.map_cons, List.nodup_cons] at h
    by_cases h1 : k = m
    · subst h1; simp only [kwErase, if_true]; exact ⟨h.2, h.1⟩
    · have := ih h.2
      simp only [kwErase, h1, if_false, kwKeys, List.map_cons, List.nodup_cons, List.mem_cons, not_or]
      refine ⟨⟨?_, this.1⟩, fun e => h1 e.symm, this.2⟩
      intro hk; exact h.1 (kwKeys_kwErase_sub r m k hk)

theorem kwKeys_kwErase_mem (kw : Kw V) (m k : String) (hk : k ∈ kwKeys kw) (hne : k ≠ m) :
    k ∈ kwKeys (kwErase kw m) := by
  induction kw with
  | nil => simp [kwKeys] at hk
  | cons p r ih =>
    obtain ⟨k', v⟩ := p
    simp only [kwKeys, List.map_cons, List.mem_cons] at hk
    by_cases h1 : k' = m
    · subst h1
      rcases hk with hk | hk
      · exact absurd hk hne
      · simp only [kwErase, if_true]; exact hk
    · simp only [kwErase, h1, if_false, kwKeys, List.map_cons, List.mem_cons]
      rcases hk with hk | hk
      · exact Or.inl hk
      · exact Or.inr (ih hk)

/-- The keyword binding names exactly the program inputs, each once. -/
def KwMatches (kw : Kw V) (inputs : List String) : Prop :=
  (kwKeys kw).Nodup ∧ ∀ n, n ∈ kwKeys kw ↔ n ∈ inputs

/-- Reading the inputs succeeds, appends their values in order and leaves exactly the keys that are
    not program inputs. -/
theorem readInputs_spec : ∀ (ns : List String) (kw : Kw V) (env : List V),
    ns.Nodup → (kwKeys kw).Nodup → (∀ n ∈ ns, n ∈ kwKeys kw) →
    ∃ vs rest, readInputs ns kw env = .ok (env ++ vs, rest) ∧ vs.length = ns.length ∧
      vs.map some = ns.map (kwGet kw) ∧
      (∀ k, k ∈ kwKeys rest ↔ k ∈ kwKeys kw ∧ k ∉ ns) := by
  intro ns
  induction ns with
  | nil => intro kw env _ _ _; exact ⟨[], kw, by simp [readInputs], rfl, by simp, by simp⟩
  | cons n ns ih =>
    intro kw env hnd hkw hsub
    have hn : n ∈ kwKeys kw := hsub n (by simp)
    obtain ⟨v, hv⟩ := Option.isSome_iff_exists.mp ((kwGet_isSome_iff kw n).mpr hn)
    have hnd' := List.nodup_cons.mp hnd
    have hE := kwKeys_kwErase_nodup kw n hkw
    have hsub' : ∀ m ∈ ns, m ∈ kwKeys (kwErase kw n) := by
      intro m hm
      apply kwKeys_kwErase_mem kw n m (hsub m (by simp [hm]))
      intro e; subst e; exact hnd'.1 hm
    obtain ⟨vs, rest, h1, h2, h3, h4⟩ := ih (kwErase kw n) (env ++ [v]) hnd'.2 hE.1 hsub'
    refine ⟨v :: vs, rest, ?_, by simp [h2], ?_, ?_⟩
    · simp [readInputs, hv, h1]
    · simp only [List.map_cons, hv, h3]
      congr 1
      apply List.map_congr_left
      intro m hm
      apply kwGet_kwErase_ne
      intro e; subst e; exact hnd'.1 hm
    · intro k
      rw [h4 k]
      constructor
      · rintro ⟨hk, hkn⟩
        have hne : k ≠ n := fun e => hE.2 (e ▸ hk)
        exact ⟨kwKeys_kwErase_sub kw n k hk, by simp [hne, hkn]⟩
      · rintro ⟨hk, hkn⟩
        simp only [List.mem_cons, not_or] at hkn
        exact ⟨kwKeys_kwErase_mem kw n k hk hkn.1, hkn.2⟩

/-! ## running -/

theorem runOps_append (I : Interp V) : ∀ (a b : List (OpTag × List Nat)) (env env' : List V),
    runOps I a env = .ok env' → runOps I (a ++ b) env = runOps I b env' := by
  intro a
  induction a with
  | nil => intro b env env' h; simp [runOps] at h; subst h; rfl
  | cons o a ih =>
    intro b env env' h
    obtain ⟨tag, ids⟩ := o
    simp only [List.cons_append, runOps] at h ⊢
    cases hg : getArgs env ids with
    | error e => simp [hg] at h
    | ok args =>
      simp only [hg] at h ⊢
      cases ha : applyOp I tag args with
      | error e => simp [ha] at h
      | ok v =>
        simp only [ha] at h ⊢
        exact ih b _ _ h

theorem runOps_length (I : Interp V) : ∀ (ops : List (OpTag × List Nat)) (env env' : List V),
    runOps I ops env = .ok env' → env'.length = env.length + ops.length := by
  intro ops
  induction ops with
  | nil => intro env env' h; simp [runOps] at h; subst h; simp
  | cons o r ih =>
    intro env env' h
    obtain ⟨tag, ids⟩ := o
    simp only [runOps] at h
    cases hg : getArgs env ids with
    | error e => simp [hg] at h
    | ok args =>
      simp only [hg] at h
      cases ha : applyOp I tag args with
      | error e => simp [ha] at h
      | ok v =>
        simp only [ha] at h
        have := ih _ _ h
        simp at this ⊢; omega

/-! ## the invariant: slot i holds the value of the node numbered i -/

/-- The funsor nodes a node's operation reads (`f.arg`, `f.lhs, f.rhs`, `f.args`). -/
def deps : Node → List Node
  | .fn (.unary _ a) => [.fn a]
  | .fn (.binary _ a b) => [.fn a, .fn b]
  | .fn (.tuple as) => as.toList.map .fn
  | _ => []

def isLeaf : Node → Prop
  | .fn (.const _) => True
  | .fn (.var _) => True
  | _ => False

structure Inv (I : Interp V) (kw : Kw V) (ids : Ids) (env : List V) : Prop where
  len : ids.length = env.length
  rng : ids.map (·.2) = List.range ids.length      -- the ids are exactly the slot numbers, in order
  val : ∀ n i, dGet ids n = some i → ∃ e v, n = .fn e ∧ eval I kw e = some v ∧ env[i]? = some v

/-- `evalArgs` on a plain list. -/
def evalList (I : Interp V) (kw : Kw V) : List Expr → Option (List V)
  | [] => some []
  | a :: r =>
    match eval I kw a, evalList I kw r with
    | some x, some xs => some (x :: xs)
    | _, _ => none

theorem evalArgs_eq (I : Interp V) (kw : Kw V) : ∀ as : Args, evalArgs I kw as = evalList I kw as.toList
  | .nil => by simp [evalArgs, evalList, Args.toList]
  | .cons a r => by
    simp only [evalArgs, evalList, Args.toList, evalArgs_eq I kw r]
    cases eval I kw a <;> cases evalList I kw r.toList <;> rfl

theorem evalList_one (I : Interp V) (kw : Kw V) (a : Expr) (vs : List V)
    (h : evalList I kw [a] = some vs) : ∃ va, eval I kw a = some va ∧ vs = [va] := by
  simp only [evalList] at h
  cases ha : eval I kw a with
  | none => simp [ha] at h
  | some va => simp [ha] at h; exact ⟨va, rfl, h.symm⟩

theorem evalList_two (I : Interp V) (kw : Kw V) (a b : Expr) (vs : List V)
    (h : evalList I kw [a, b] = some vs) :
    ∃ va vb, eval I kw a = some va ∧ eval I kw b = some vb ∧ vs = [va, vb] := by
  simp only [evalList] at h
  cases ha : eval I kw a with
  | none => simp [ha] at h
  | some va =>
    cases hb : eval I kw b with
    | none => simp [ha, hb] at h
    | some vb => simp [ha, hb] at h; exact ⟨va, vb, rfl, rfl, h.symm⟩

/-- Looking up numbered funsor nodes and reading their slots yields their values. -/
theorem lookupAll_sound (I : Interp V) (kw : Kw V) (ids : Ids) (env : List V)
    (hval : ∀ n i, dGet ids n = some i → ∃ e v, n = .fn e ∧ eval I kw e = some v ∧ env[i]? = some v) :
    ∀ (es : List Expr), (∀ e ∈ es, (dGet ids (.fn e)).isSome) →
    ∃ is vs, lookupAll ids (es.map .fn) = .ok is ∧ getArgs env is = .ok vs ∧
      evalList I kw es = some vs := by
  intro es
  induction es with
  | nil => intro _; exact ⟨[], [], by simp [lookupAll], by simp [getArgs], by simp [evalList]⟩
  | cons a r ih =>
    intro h
    obtain ⟨i, hi⟩ := Option.isSome_iff_exists.mp (h a (by simp))
    obtain ⟨e', v, he, hev, hslot⟩ := hval _ _ hi
    cases he
    obtain ⟨is, vs, h1, h2, h3⟩ := ih (fun e he => h e (by simp [he]))
    refine ⟨i :: is, v :: vs, ?_, ?_, by simp [evalList, hev, h3]⟩
    · simp [lookupAll, hi, h1]
    · simp [getArgs, hslot, h2]

theorem Inv.extend {I : Interp V} {kw : Kw V} {ids : Ids} {env : List V} (inv : Inv I kw ids env)
    (e : Expr) (v : V) (hfresh : dGet ids (.fn e) = none) (hev : eval I kw e = some v) :
    Inv I kw (dSet ids (.fn e) ids.length) (env ++ [v]) := by
  constructor
  · rw [length_dSet_fresh _ _ _ hfresh]; simp [inv.len]
  · rw [dSet_fresh _ _ _ hfresh]; simp [inv.rng, List.range_succ]
  · intro n i hn
    by_cases hne : Node.fn e = n
    · subst hne
      rw [dGet_dSet_same] at hn
      cases hn
      exact ⟨e, v, rfl, hev, by rw [inv.len]; simp⟩
    · rw [dGet_dSet_ne _ _ _ _ hne] at hn
      obtain ⟨e', v', h1, h2, h3⟩ := inv.val n i hn
      refine ⟨e', v', h1, h2, ?_⟩
      have hlt : i < env.length := by
        rcases Nat.lt_or_ge i env.length with h | h
        · exact h
        · rw [List.getElem?_eq_none h] at h3; cases h3
      rw [List.getElem?_append_left hlt]; exact h3

theorem getLast?_append_singleton {α : Type} (l : List α) (a : α) : (l ++ [a]).getLast? = some a := by
  simp

/-- The third loop of `compile_funsor`, run on a list whose dependencies are all available:
    it succeeds, the operations it emits run, and afterwards every funsor node of the list is
    numbered with a slot holding its value. -/
theorem collectOps_sound (I : Interp V) (kw : Kw V) (env1 : List V) :
    ∀ (todo : List Node) (ids : Ids) (ops : List (OpTag × List Nat)) (env : List V),
    (∀ pre n post, todo = pre ++ n :: post → ∀ d ∈ deps n, (dGet ids d).isSome ∨ d ∈ pre) →
    (∀ n ∈ todo, isLeaf n → (dGet ids n).isSome) →
    Inv I kw ids env →
    runOps I ops env1 = .ok env →
    ∃ ids' ops' env', collectOps false todo ids ops = .ok (ids', ops') ∧
      runOps I ops' env1 = .ok env' ∧ Inv I kw ids' env' ∧
      (∀ n, (dGet ids n).isSome → (dGet ids' n).isSome) ∧
      (∀ e, .fn e ∈ todo → (dGet ids' (.fn e)).isSome) ∧
      (∀ e, todo.getLast? = some (.fn e) → ¬ isLeaf (.fn e) → dGet ids (.fn e) = none →
          .fn e ∉ todo.dropLast → env'.getLast? = eval I kw e) := by
  intro todo
  induction todo with
  | nil =>
    intro ids ops env _ _ inv hrun
    exact ⟨ids, ops, env, by simp [collectOps], hrun, inv, fun _ h => h, by simp, by simp⟩
  | cons f rest ih =>
    intro ids ops env hdeps hleaf inv hrun
    -- dependencies of the rest are available once `f` has been handled
    have hdeps_rest : ∀ ids2 : Ids, (∀ n, (dGet ids n).isSome → (dGet ids2 n).isSome) →
        ((∀ e, f = .fn e → (dGet ids2 f).isSome)) →
        ∀ pre n post, rest = pre ++ n :: post → ∀ d ∈ deps n, (dGet ids2 d).isSome ∨ d ∈ pre := by
      intro ids2 hmono hf pre n post hsplit d hd
      have := hdeps (f :: pre) n post (by simp [hsplit]) d hd
      rcases this with h | h
      · exact Or.inl (hmono d h)
      · rcases List.mem_cons.mp h with h | h
        · -- d = f, and deps are funsor nodes
          subst h
          have : ∃ e, d = .fn e := by
            cases n with
            | raw es => simp [deps] at hd
            | fn e =>
              cases e with
              | const k => simp [deps] at hd
              | var s => simp [deps] at hd
              | unary op a => simp [deps] at hd; exact ⟨a, hd⟩
              | binary op a b => simp [deps] at hd; rcases hd with hd | hd <;> exact ⟨_, hd⟩
              | tuple as => simp [deps] at hd; obtain ⟨a, _, ha⟩ := hd; exact ⟨a, ha.symm⟩
          obtain ⟨e, he⟩ := this
          exact Or.inl (hf e he)
        · exact Or.inr h
    have hlast_rest : ∀ (ids2 : Ids) (env2 : List V),
        (∀ n, n ≠ f → dGet ids n = none → dGet ids2 n = none) →
        rest ≠ [] →
        (∀ e, rest.getLast? = some (.fn e) → ¬ isLeaf (.fn e) → dGet ids2 (.fn e) = none →
          .fn e ∉ rest.dropLast → env2.getLast? = eval I kw e) →
        (∀ e, (f :: rest).getLast? = some (.fn e) → ¬ isLeaf (.fn e) → dGet ids (.fn e) = none →
          .fn e ∉ (f :: rest).dropLast → env2.getLast? = eval I kw e) := by
      intro ids2 env2 hpres hne h e hl hnl hnone hnot
      have hl' : rest.getLast? = some (.fn e) := by
        rw [List.getLast?_cons_of_ne_nil hne] at hl; exact hl
      have hdl : (f :: rest).dropLast = f :: rest.dropLast := by
        cases rest with
        | nil => exact absurd rfl hne
        | cons a r => simp [List.dropLast]
      rw [hdl] at hnot
      simp only [List.mem_cons, not_or] at hnot
      exact h e hl' hnl (hpres _ hnot.1 hnone) hnot.2
    by_cases hin : (dGet ids f).isSome
    · -- constant, free variable, or already numbered
      obtain ⟨ids', ops', env', h1, h2, h3, hm, hc, h4⟩ :=
        ih ids ops env (hdeps_rest ids (fun _ h => h) (fun _ _ => hin))
          (fun n hn => hleaf n (by simp [hn])) inv hrun
      refine ⟨ids', ops', env', by simp [collectOps, hin, h1], h2, h3, hm, ?_, ?_⟩
      · intro e he
        rcases List.mem_cons.mp he with he | he
        · rw [he]; exact hm _ hin
        · exact hc e he
      by_cases hne : rest = []
      · subst hne
        intro e hl _ hnone _
        simp at hl; subst hl
        rw [hnone] at hin; simp at hin
      · exact hlast_rest ids env' (fun _ _ h => h) hne h4
    · have hnone : dGet ids f = none := by simpa using hin
      cases f with
      | raw es =>
        obtain ⟨ids', ops', env', h1, h2, h3, hm, hc, h4⟩ :=
          ih ids ops env (hdeps_rest ids (fun _ h => h) (fun e he => by cases he))
            (fun n hn => hleaf n (by simp [hn])) inv hrun
        refine ⟨ids', ops', env', by simp [collectOps, hnone, h1], h2, h3, hm, ?_, ?_⟩
        · intro e he
          rcases List.mem_cons.mp he with he | he
          · cases he
          · exact hc e he
        by_cases hne : rest = []
        · subst hne; intro e hl; simp at hl
        · exact hlast_rest ids env' (fun _ _ h => h) hne h4
      | fn e =>
        -- the operation emitted for `e`: its argument ids resolve and the slots hold the values
        have havail : ∀ d ∈ deps (.fn e), (dGet ids d).isSome := by
          intro d hd
          rcases hdeps [] (.fn e) rest rfl d hd with h | h
          · exact h
          · simp at h
        have hids' : ∀ d, (dGet ids d).isSome →
            dGet (dSet ids (.fn e) ids.length) d = dGet ids d := by
          intro d hd
          apply dGet_dSet_ne
          intro he; rw [← he, hnone] at hd; simp at hd
        have hval' : ∀ n i, dGet (dSet ids (.fn e) ids.length) n = some i → n ≠ .fn e →
            ∃ e' v, n = .fn e' ∧ eval I kw e' = some v ∧ env[i]? = some v := by
          intro n i hn hne
          rw [dGet_dSet_ne _ _ _ _ (fun h => hne h.symm)] at hn
          exact inv.val n i hn
        -- generic continuation once the value `v` of `e` and the emitted operation are known
        have hcont : ∀ (tag : OpTag) (is : List Nat) (args : List V) (v : V),
            getArgs env is = .ok args → applyOp I tag args = .ok v → eval I kw e = some v →
            ¬ isLeaf (.fn e) →
            ∃ ids' ops' env', collectOps false rest (dSet ids (.fn e) ids.length) (ops ++ [(tag, is)])
                = .ok (ids', ops') ∧
              runOps I ops' env1 = .ok env' ∧ Inv I kw ids' env' ∧
              (∀ n, (dGet ids n).isSome → (dGet ids' n).isSome) ∧
              (∀ e', .fn e' ∈ Node.fn e :: rest → (dGet ids' (.fn e')).isSome) ∧
              (∀ e', (Node.fn e :: rest).getLast? = some (.fn e') → ¬ isLeaf (.fn e') →
                dGet ids (.fn e') = none → .fn e' ∉ (Node.fn e :: rest).dropLast →
                env'.getLast? = eval I kw e') := by
          intro tag is args v hga hap hev hnl
          have inv' := inv.extend e v hnone hev
          have hrun' : runOps I (ops ++ [(tag, is)]) env1 = .ok (env ++ [v]) := by
            rw [runOps_append I ops [(tag, is)] env1 env hrun]
            simp [runOps, hga, hap]
          have hmono : ∀ n, (dGet ids n).isSome → (dGet (dSet ids (.fn e) ids.length) n).isSome := by
            intro n hn; rw [hids' n hn]; exact hn
          obtain ⟨ids', ops', env', h1, h2, h3, hm, hc, h4⟩ :=
            ih (dSet ids (.fn e) ids.length) (ops ++ [(tag, is)]) (env ++ [v])
              (hdeps_rest _ hmono (fun _ _ => by rw [dGet_dSet_same]; rfl))
              (fun n hn hl => hmono n (hleaf n (by simp [hn]) hl)) inv' hrun'
          refine ⟨ids', ops', env', h1, h2, h3, fun n hn => hm n (hmono n hn), ?_, ?_⟩
          · intro e' he'
            rcases List.mem_cons.mp he' with he' | he'
            · rw [he']; exact hm _ (by rw [dGet_dSet_same]; rfl)
            · exact hc e' he'
          by_cases hne : rest = []
          · subst hne
            intro e' hl _ _ _
            simp at hl; subst hl
            simp [collectOps] at h1
            obtain ⟨_, rfl⟩ := h1
            rw [hrun'] at h2; cases h2
            simp [hev]
          · apply hlast_rest _ env' _ hne h4
            intro n hn hnn
            rw [dGet_dSet_ne _ _ _ _ (fun h => hn h.symm)]; exact hnn
        cases e with
        | const k =>
          have := hleaf (.fn (.const k)) (by simp) trivial
          rw [hnone] at this; simp at this
        | var s =>
          have := hleaf (.fn (.var s)) (by simp) trivial
          rw [hnone] at this; simp at this
        | unary op a =>
          obtain ⟨is, vs, h1, h2, h3⟩ := lookupAll_sound I kw ids env inv.val [a]
            (fun x hx => by simp at hx; subst hx; exact havail _ (by simp [deps]))
          obtain ⟨va, hva, rfl⟩ := evalList_one I kw a vs h3
          have hl : lookupAll (dSet ids (.fn (.unary op a)) ids.length) [.fn a] = .ok is := by
            have hget := hids' (.fn a) (havail _ (by simp [deps]))
            simp only [List.map_cons, List.map_nil, lookupAll] at h1 ⊢
            rw [hget]; exact h1
          obtain ⟨ids', ops', env', c1, c2, c3, cm, cc, c4⟩ :=
            hcont (.op op) is [va] (I.un op va) h2 (by simp [applyOp]) (by simp [eval, hva]) (by simp [isLeaf])
          exact ⟨ids', ops', env', by simp [collectOps, hnone, hl, c1], c2, c3, cm, cc, c4⟩
        | binary op a b =>
          obtain ⟨is, vs, h1, h2, h3⟩ := lookupAll_sound I kw ids env inv.val [a, b]
            (fun x hx => by
              simp at hx
              rcases hx with hx | hx <;> subst hx <;> exact havail _ (by simp [deps]))
          obtain ⟨va, vb, hva, hvb, rfl⟩ := evalList_two I kw a b vs h3
          have hl : lookupAll (dSet ids (.fn (.binary op a b)) ids.length) [.fn a, .fn b] = .ok is := by
            have hga := hids' (.fn a) (havail _ (by simp [deps]))
            have hgb := hids' (.fn b) (havail _ (by simp [deps]))
            simp only [List.map_cons, List.map_nil, lookupAll] at h1 ⊢
            rw [hga, hgb]; exact h1
          obtain ⟨ids', ops', env', c1, c2, c3, cm, cc, c4⟩ :=
            hcont (.op op) is [va, vb] (I.bin op va vb) h2 (by simp [applyOp])
              (by simp [eval, hva, hvb]) (by simp [isLeaf])
          exact ⟨ids', ops', env', by simp [collectOps, hnone, hl, c1], c2, c3, cm, cc, c4⟩
        | tuple as =>
          have hav : ∀ x ∈ as.toList, (dGet ids (.fn x)).isSome := by
            intro x hx
            apply havail
            simp only [deps, List.mem_map]
            exact ⟨x, hx, rfl⟩
          obtain ⟨is, vs, h1, h2, h3⟩ := lookupAll_sound I kw ids env inv.val as.toList hav
          have hl : ∀ (es : List Expr) (is : List Nat), (∀ x ∈ es, (dGet ids (.fn x)).isSome) →
              lookupAll ids (es.map .fn) = .ok is →
              lookupAll (dSet ids (.fn (.tuple as)) ids.length) (es.map .fn) = .ok is := by
            intro es
            induction es with
            | nil => intro is _ h; simpa [lookupAll] using h
            | cons x r ihr =>
              intro is hx h
              have hg := hids' (.fn x) (hx x (by simp))
              simp only [List.map_cons, lookupAll] at h ⊢
              rw [hg]
              cases hgx : dGet ids (.fn x) with
              | none => simp [hgx] at h
              | some i =>
                simp only [hgx] at h ⊢
                cases hr : lookupAll ids (r.map .fn) with
                | error er => simp [hr] at h
                | ok is' =>
                  simp only [hr] at h
                  rw [ihr is' (fun y hy => hx y (by simp [hy])) hr]
                  exact h
          have hl' := hl as.toList is hav h1
          obtain ⟨ids', ops', env', c1, c2, c3, cm, cc, c4⟩ :=
            hcont .mkTuple is vs (I.tup vs) h2 (by simp [applyOp])
              (by simp [eval, evalArgs_eq, h3]) (by simp [isLeaf])
          exact ⟨ids', ops', env', by simp [collectOps, hnone, hl', c1], c2, c3, cm, cc, c4⟩

/-! ## the first two loops -/

theorem collectConsts_spec (I : Interp V) (kw : Kw V) : ∀ (todo : List Node) (ids : Ids) (cs : List Nat),
    todo.Nodup → (∀ n, (dGet ids n).isSome → n ∉ todo) → Inv I kw ids (cs.map I.const) →
    ∃ ids' cs', collectConsts todo ids cs = (ids', cs') ∧ Inv I kw ids' (cs'.map I.const) ∧
      (∀ n, (dGet ids' n).isSome ↔ (dGet ids n).isSome ∨ (n ∈ todo ∧ ∃ k, n = .fn (.const k))) := by
  intro todo
  induction todo with
  | nil => intro ids cs _ _ inv; exact ⟨ids, cs, rfl, inv, by simp⟩
  | cons f rest ih =>
    intro ids cs hnd hfresh inv
    have hnd' := List.nodup_cons.mp hnd
    have hskip : (∀ k, f ≠ .fn (.const k)) → collectConsts (f :: rest) ids cs = collectConsts rest ids cs →
        ∃ ids' cs', collectConsts (f :: rest) ids cs = (ids', cs') ∧ Inv I kw ids' (cs'.map I.const) ∧
          (∀ n, (dGet ids' n).isSome ↔ (dGet ids n).isSome ∨ (n ∈ f :: rest ∧ ∃ k, n = .fn (.const k))) := by
      intro hf heq
      obtain ⟨ids', cs', h1, h2, h3⟩ := ih ids cs hnd'.2 (fun n hn hm => hfresh n hn (by simp [hm])) inv
      refine ⟨ids', cs', by rw [heq, h1], h2, ?_⟩
      intro n; rw [h3 n]
      constructor
      · rintro (h | ⟨h, k, hk⟩)
        · exact Or.inl h
        · exact Or.inr ⟨by simp [h], k, hk⟩
      · rintro (h | ⟨h, k, hk⟩)
        · exact Or.inl h
        · rcases List.mem_cons.mp h with h | h
          · exact absurd (h ▸ hk) (hf k)
          · exact Or.inr ⟨h, k, hk⟩
    cases f with
    | raw es => exact hskip (fun k h => by cases h) (by simp [collectConsts])
    | fn e =>
      cases e with
      | var s => exact hskip (fun k h => by cases h) (by simp [collectConsts])
      | unary op a => exact hskip (fun k h => by cases h) (by simp [collectConsts])
      | binary op a b => exact hskip (fun k h => by cases h) (by simp [collectConsts])
      | tuple as => exact hskip (fun k h => by cases h) (by simp [collectConsts])
      | const k =>
        have hnone : dGet ids (.fn (.const k)) = none := by
          cases h : dGet ids (.fn (.const k)) with
          | none => rfl
          | some i => exact absurd (List.mem_cons_self) (hfresh _ (by rw [h]; rfl))
        have inv' : Inv I kw (dSet ids (.fn (.const k)) ids.length) ((cs ++ [k]).map I.const) := by
          rw [List.map_append]
          exact inv.extend (.const k) (I.const k) hnone (by simp [eval])
        obtain ⟨ids', cs', h1, h2, h3⟩ := ih (dSet ids (.fn (.const k)) ids.length) (cs ++ [k]) hnd'.2
          (by
            intro n hn hm
            by_cases hne : Node.fn (.const k) = n
            · subst hne; exact hnd'.1 hm
            · rw [dGet_dSet_ne _ _ _ _ hne] at hn
              exact hfresh n hn (by simp [hm])) inv'
        refine ⟨ids', cs', by simp [collectConsts, h1], h2, ?_⟩
        intro n; rw [h3 n]
        constructor
        · rintro (h | ⟨h, k', hk⟩)
          · by_cases hne : Node.fn (.const k) = n
            · exact Or.inr ⟨by simp [hne], k, hne.symm⟩
            · rw [dGet_dSet_ne _ _ _ _ hne] at h; exact Or.inl h
          · exact Or.inr ⟨by simp [h], k', hk⟩
        · rintro (h | ⟨h, k', hk⟩)
          · left
            by_cases hne : Node.fn (.const k) = n
            · subst hne; rw [dGet_dSet_same]; rfl
            · rw [dGet_dSet_ne _ _ _ _ hne]; exact h
          · rcases List.mem_cons.mp h with h | h
            · left; rw [h, dGet_dSet_same]; rfl
            · exact Or.inr ⟨h, k', hk⟩

theorem collectInputs_spec (I : Interp V) (kw : Kw V) : ∀ (ns : List String) (ids : Ids) (env vs : List V),
    ns.Nodup → (∀ n ∈ ns, dGet ids (.fn (.var n)) = none) → vs.map some = ns.map (kwGet kw) →
    Inv I kw ids env →
    Inv I kw (collectInputs ns ids) (env ++ vs) ∧
      (∀ n, (dGet (collectInputs ns ids) n).isSome ↔ (dGet ids n).isSome ∨ ∃ s ∈ ns, n = .fn (.var s)) := by
  intro ns
  induction ns with
  | nil =>
    intro ids env vs _ _ hvs inv
    have : vs = [] := by simpa using hvs
    subst this
    simpa [collectInputs] using inv
  | cons s ns ih =>
    intro ids env vs hnd hfresh hvs inv
    have hnd' := List.nodup_cons.mp hnd
    cases vs with
    | nil => simp at hvs
    | cons v vs =>
      simp only [List.map_cons, List.cons.injEq] at hvs
      have inv' := inv.extend (.var s) v (hfresh s (by simp)) (by simp [eval, hvs.1])
      have hfresh' : ∀ n ∈ ns, dGet (dSet ids (.fn (.var s)) ids.length) (.fn (.var n)) = none := by
        intro n hn
        rw [dGet_dSet_ne]
        · exact hfresh n (by simp [hn])
        · intro h; cases h; exact hnd'.1 hn
      obtain ⟨h1, h2⟩ := ih (dSet ids (.fn (.var s)) ids.length) (env ++ [v]) vs hnd'.2 hfresh' hvs.2 inv'
      refine ⟨by simpa [collectInputs] using h1, ?_⟩
      intro n
      simp only [collectInputs]
      rw [h2 n]
      constructor
      · rintro (h | ⟨s', hs', hn⟩)
        · by_cases hne : Node.fn (.var s) = n
          · exact Or.inr ⟨s, by simp, hne.symm⟩
          · rw [dGet_dSet_ne _ _ _ _ hne] at h; exact Or.inl h
        · exact Or.inr ⟨s', by simp [hs'], hn⟩
      · rintro (h | ⟨s', hs', hn⟩)
        · left
          by_cases hne : Node.fn (.var s) = n
          · subst hne; rw [dGet_dSet_same]; rfl
          · rw [dGet_dSet_ne _ _ _ _ hne]; exact h
        · rcases List.mem_cons.mp hs' with h | h
          · left; rw [hn, h, dGet_dSet_same]; rfl
          · exact Or.inr ⟨s', h, hn⟩

/-! ## orderings -/

/-- In a topological ordering the funsor nodes an operation reads precede it (for a `Tuple` the
    elements precede the raw tuple node, which precedes the `Tuple`). -/
theorem deps_in_pre {ord : List Node} (htop : Topological ord) {pre : List Node} {n : Node}
    {post : List Node} (h : ord = pre ++ n :: post) : ∀ d ∈ deps n, d ∈ pre := by
  intro d hd
  cases n with
  | raw es => simp [deps] at hd
  | fn e =>
    cases e with
    | const k => simp [deps] at hd
    | var s => simp [deps] at hd
    | unary op a => exact htop pre _ post h d (by simpa [deps, children] using hd)
    | binary op a b => exact htop pre _ post h d (by simpa [deps, children] using hd)
    | tuple as =>
      cases as with
      | nil => simp [deps, Args.toList] at hd
      | cons a r =>
        have hraw : Node.raw (.cons a r) ∈ pre := htop pre _ post h _ (by simp [children])
        obtain ⟨p1, p2, hp⟩ := List.append_of_mem hraw
        have hsplit : ord = p1 ++ Node.raw (.cons a r) :: (p2 ++ Node.fn (.tuple (.cons a r)) :: post) := by
          rw [h, hp]; simp
        have := htop p1 _ _ hsplit d (by simpa [deps, children] using hd)
        rw [hp]; simp [this]

theorem reach_leaf {r n : Node} (hl : isLeaf r) (h : Reach r n) : n = r := by
  induction h with
  | refl => rfl
  | step _ hc ih =>
    rw [ih] at hc
    cases r with
    | raw es => cases hl
    | fn e =>
      cases e with
      | const k => simp [children] at hc
      | var s => simp [children] at hc
      | unary op a => cases hl
      | binary op a b => cases hl
      | tuple as => cases hl

theorem eq_singleton_of_nodup {α : Type} {l : List α} {a : α} (hnd : l.Nodup) (h : ∀ x, x ∈ l ↔ x = a) :
    l = [a] := by
  cases l with
  | nil => exact absurd ((h a).mpr rfl) (by simp)
  | cons x t =>
    have hx : x = a := (h x).mp (by simp)
    subst hx
    cases t with
    | nil => rfl
    | cons y t' =>
      have hy : y = x := (h y).mp (by simp)
      subst hy
      simp at hnd

theorem kwKeys_eq_nil {kw : Kw V} (h : ∀ k, k ∉ kwKeys kw) : kw = [] := by
  cases kw with
  | nil => rfl
  | cons p r => exact absurd (by simp [kwKeys]) (h p.1)

theorem not_mem_dropLast_of_nodup {α : Type} {l : List α} {a : α} (hnd : l.Nodup)
    (hl : l.getLast? = some a) : a ∉ l.dropLast := by
  have : l = l.dropLast ++ [a] := by
    have hne : l ≠ [] := by intro h; subst h; simp at hl
    have := List.dropLast_concat_getLast hne
    rw [List.getLast?_eq_some_getLast hne] at hl
    cases hl
    exact this.symm
  rw [this] at hnd
  intro hm
  have := List.nodup_append.mp hnd
  exact this.2.2 a hm a (by simp) rfl

/-! ## main theorem -/

/-- Core of the compiler theorem, exposing the final `ids` dict and the invariant. -/
theorem compile_run_core (I : Interp V) (ord : List Node) (e : Expr) (inputs : List String)
    (kw : Kw V) (hnd : ord.Nodup) (htop : Topological ord) (hcomp : Complete ord e)
    (hin : inputs.Nodup) (hvars : ∀ s, s ∈ inputs ↔ .fn (.var s) ∈ ord) (hkw : KwMatches kw inputs) :
    ∃ cs ops ids env v, compileIds false ord inputs = .ok (⟨cs, inputs, ops⟩, ids) ∧
      Inv I kw ids env ∧ env.length = cs.length + inputs.length + ops.length ∧
      run I ⟨cs, inputs, ops⟩ kw = .ok v ∧ eval I kw e = some v := by
  -- constants
  obtain ⟨ids1, cs, hc, inv1, keys1⟩ := collectConsts_spec I kw ord [] [] hnd (by simp [dGet])
    ⟨rfl, by simp, by simp [dGet]⟩
  -- reading the inputs at run time
  obtain ⟨vs, rest, hread, hvlen, hvals, hrest⟩ := readInputs_spec inputs kw (cs.map I.const) hin hkw.1
    (fun n hn => (hkw.2 n).mpr hn)
  have hrest_nil : rest = [] := kwKeys_eq_nil (fun k hk => ((hrest k).mp hk).2 ((hkw.2 k).mp ((hrest k).mp hk).1))
  subst hrest_nil
  -- inputs at compile time
  obtain ⟨inv2, keys2⟩ := collectInputs_spec I kw inputs ids1 (cs.map I.const) vs hin
    (by
      intro n _
      cases h : dGet ids1 (.fn (.var n)) with
      | none => rfl
      | some i =>
        have := (keys1 (.fn (.var n))).mp (by rw [h]; rfl)
        simp [dGet] at this) hvals inv1
  have hkeys : ∀ n, (dGet (collectInputs inputs ids1) n).isSome ↔ (n ∈ ord ∧ isLeaf n) := by
    intro n
    rw [keys2 n, keys1 n]
    constructor
    · rintro ((h | ⟨h, k, hk⟩) | ⟨s, hs, hn⟩)
      · simp [dGet] at h
      · subst hk; exact ⟨h, trivial⟩
      · subst hn; exact ⟨(hvars s).mp hs, trivial⟩
    · rintro ⟨h, hl⟩
      cases n with
      | raw es => cases hl
      | fn e' =>
        cases e' with
        | const k => exact Or.inl (Or.inr ⟨h, k, rfl⟩)
        | var s => exact Or.inr ⟨s, (hvars s).mpr h, rfl⟩
        | unary op a => cases hl
        | binary op a b => cases hl
        | tuple as => cases hl
  -- operations
  obtain ⟨ids', ops', env', hco, hrun, inv3, _, hcover, hlast⟩ :=
    collectOps_sound I kw (cs.map I.const ++ vs) ord (collectInputs inputs ids1) [] (cs.map I.const ++ vs)
      (fun pre n post h d hd => Or.inr (deps_in_pre htop h d hd))
      (fun n hn hl => (hkeys n).mpr ⟨hn, hl⟩) inv2 (by simp [runOps])
  have hroot : Node.fn e ∈ ord := List.mem_of_getLast? hcomp.2
  obtain ⟨i, hi⟩ := Option.isSome_iff_exists.mp (hcover e hroot)
  obtain ⟨e', v, he', hev, hslot⟩ := inv3.val _ _ hi
  cases he'
  refine ⟨cs, ops', ids', env', v, by simp [compileIds, hc, hco], inv3, ?_, ?_, hev⟩
  · have := runOps_length I ops' _ _ hrun
    simp at this; omega
  have hres : env'.getLast? = some v := by
    by_cases hl : isLeaf (.fn e)
    · -- a single-node DAG: the program has no operation and one slot
      have hord : ord = [.fn e] := eq_singleton_of_nodup hnd (fun x => by
        rw [hcomp.1 x]
        exact ⟨reach_leaf hl, fun h => h ▸ Reach.refl⟩)
      subst hord
      have hin' : (dGet (collectInputs inputs ids1) (.fn e)).isSome := (hkeys _).mpr ⟨by simp, hl⟩
      simp only [collectOps, hin', if_true, Except.ok.injEq, Prod.mk.injEq] at hco
      obtain ⟨rfl, rfl⟩ := hco
      simp only [runOps, Except.ok.injEq] at hrun
      subst hrun
      have hlen := inv2.len
      cases e with
      | const k =>
        simp only [collectConsts, dSet, List.length_nil, List.nil_append, Prod.mk.injEq] at hc
        obtain ⟨rfl, rfl⟩ := hc
        have : inputs = [] := by
          cases inputs with
          | nil => rfl
          | cons s t => have := (hvars s).mp (by simp); simp at this
        subst this
        have : vs = [] := by simpa using hvals
        subst this
        simp only [eval, Option.some.injEq] at hev
        simp [hev]
      | var s =>
        simp only [collectConsts, Prod.mk.injEq] at hc
        obtain ⟨rfl, rfl⟩ := hc
        have : inputs = [s] := eq_singleton_of_nodup hin (fun x => by
          rw [hvars x]; simp)
        subst this
        cases vs with
        | nil => simp at hvals
        | cons w ws =>
          simp only [List.map_cons, List.map_nil, List.cons.injEq, List.map_eq_nil_iff] at hvals
          obtain ⟨hw, rfl⟩ := hvals
          simp only [eval] at hev
          rw [hev] at hw
          simp [hw]
      | unary op a => cases hl
      | binary op a b => cases hl
      | tuple as => cases hl
    · rw [hlast e hcomp.2 hl (by
        cases h : dGet (collectInputs inputs ids1) (.fn e) with
        | none => rfl
        | some j => exact absurd ((hkeys _).mp (by rw [h]; rfl)).2 hl)
        (not_mem_dropLast_of_nodup hnd hcomp.2)]
      exact hev
  simp [run, hread, hrun, hres]

/-- **C18, compiler.**  For every duplicate-free, topological, complete ordering `ord` of the DAG of
    `e` (ANY such ordering, not only the one `interpreter.anf` returns), every enumeration `inputs`
    of the variables of `e` and every keyword binding `kw` of exactly those names:
    `compile_funsor` succeeds and the program, run on `kw`, returns the value of `e` under `kw`. -/
theorem run_compile_eq_eval (I : Interp V) (ord : List Node) (e : Expr) (inputs : List String)
    (kw : Kw V) (hnd : ord.Nodup) (htop : Topological ord) (hcomp : Complete ord e)
    (hin : inputs.Nodup) (hvars : ∀ s, s ∈ inputs ↔ .fn (.var s) ∈ ord) (hkw : KwMatches kw inputs) :
    ∃ p v, compileWith ord inputs = .ok p ∧ run I p kw = .ok v ∧ eval I kw e = some v := by
  obtain ⟨cs, ops, ids, env, v, h1, _, _, h4, h5⟩ :=
    compile_run_core I ord e inputs kw hnd htop hcomp hin hvars hkw
  exact ⟨⟨cs, inputs, ops⟩, v, by simp [compileWith, h1], h4, h5⟩

/-! ## missing / unexpected inputs are rejected -/

theorem readInputs_missing : ∀ (ns : List String) (kw : Kw V) (env : List V) (n : String),
    n ∈ ns → n ∉ kwKeys kw → ∃ m, readInputs ns kw env = .error (.missing m) := by
  intro ns
  induction ns with
  | nil => intro _ _ n hn; simp at hn
  | cons m ns ih =>
    intro kw env n hn hmiss
    cases hm : kwGet kw m with
    | none => exact ⟨m, by simp [readInputs, hm]⟩
    | some v =>
      have hne : n ≠ m := by
        intro e; subst e
        exact hmiss ((kwGet_isSome_iff kw n).mp (by rw [hm]; rfl))
      have hn' : n ∈ ns := by
        rcases List.mem_cons.mp hn with h | h
        · exact absurd h hne
        · exact h
      obtain ⟨m', hm'⟩ := ih (kwErase kw m) (env ++ [v]) n hn'
        (fun h => hmiss (kwKeys_kwErase_sub kw m n h))
      exact ⟨m', by simp [readInputs, hm, hm']⟩

theorem readInputs_error : ∀ (ns : List String) (kw : Kw V) (env : List V) (er : Err),
    readInputs ns kw env = .error er → ∃ m, er = .missing m := by
  intro ns
  induction ns with
  | nil => intro kw env er h; simp [readInputs] at h
  | cons m ns ih =>
    intro kw env er h
    cases hm : kwGet kw m with
    | none => simp [readInputs, hm] at h; exact ⟨m, h.symm⟩
    | some v => simp only [readInputs, hm] at h; exact ih _ _ _ h

theorem readInputs_leftover : ∀ (ns : List String) (kw : Kw V) (env env' : List V) (rest : Kw V),
    readInputs ns kw env = .ok (env', rest) → ∀ k ∈ kwKeys kw, k ∉ ns → k ∈ kwKeys rest := by
  intro ns
  induction ns with
  | nil => intro kw env env' rest h k hk _; simp [readInputs] at h; rw [← h.2]; exact hk
  | cons m ns ih =>
    intro kw env env' rest h k hk hnot
    cases hm : kwGet kw m with
    | none => simp [readInputs, hm] at h
    | some v =>
      simp only [readInputs, hm] at h
      simp only [List.mem_cons, not_or] at hnot
      exact ih _ _ _ _ h k (kwKeys_kwErase_mem kw m k hk hnot.1) hnot.2

/-- **Missing inputs are rejected**: if a program input has no binding, `OpProgram.__call__` raises
    `ValueError("Missing kwarg")` — whatever else the program contains; no operation runs. -/
theorem missing_input_rejected (I : Interp V) (p : Prog) (kw : Kw V) (n : String)
    (hn : n ∈ p.inputs) (hmiss : n ∉ kwKeys kw) : ∃ m, run I p kw = .error (.missing m) := by
  obtain ⟨m, hm⟩ := readInputs_missing p.inputs kw (p.constants.map I.const) n hn hmiss
  exact ⟨m, by simp [run, hm]⟩

/-- **Unexpected inputs are rejected**: a binding whose name is not a program input makes the call
    raise (`Unrecognized kwargs`, unless an input is missing as well, which is reported first). -/
theorem extra_input_rejected (I : Interp V) (p : Prog) (kw : Kw V) (k : String)
    (hk : k ∈ kwKeys kw) (hnot : k ∉ p.inputs) :
    (∃ m, run I p kw = .error (.missing m)) ∨
    (∃ ks, k ∈ ks ∧ run I p kw = .error (.unrecognized ks)) := by
  cases h : readInputs p.inputs kw (p.constants.map I.const) with
  | error er =>
    obtain ⟨m, rfl⟩ := readInputs_error _ _ _ _ h
    exact Or.inl ⟨m, by simp [run, h]⟩
  | ok r =>
    obtain ⟨env, rest⟩ := r
    have hmem := readInputs_leftover _ _ _ _ _ h k hk hnot
    have hne : rest ≠ [] := by intro e; subst e; simp [kwKeys] at hmem
    exact Or.inr ⟨kwKeys rest, hmem, by simp [run, h, hne]⟩

/-! ## program ids are a bijection onto the environment slots -/

/-- The ids handed out by `compile_funsor` are exactly `0 … N-1`, in order of assignment, where `N` is
    the number of environment slots of the program (one per constant, input and operation), and only
    funsor nodes receive one.  This is the lemma the numbering before commit 6850cf7 violated. -/
theorem compile_ids_bijective (ord : List Node) (e : Expr) (inputs : List String)
    (hnd : ord.Nodup) (htop : Topological ord) (hcomp : Complete ord e)
    (hin : inputs.Nodup) (hvars : ∀ s, s ∈ inputs ↔ .fn (.var s) ∈ ord) :
    ∃ p ids, compileIds false ord inputs = .ok (p, ids) ∧
      ids.map (·.2) = List.range (p.constants.length + p.inputs.length + p.operations.length) ∧
      (∀ n i, dGet ids n = some i → ∃ e', n = .fn e') := by
  -- run the core argument with a trivial interpretation and the all-unit binding
  let I : Interp Unit := ⟨fun _ => (), fun _ _ => (), fun _ _ _ => (), fun _ => ()⟩
  have hkw : KwMatches (inputs.map (fun n => (n, ()))) inputs := by
    constructor
    · simpa [kwKeys, List.map_map, Function.comp_def] using hin
    · intro n; simp [kwKeys, List.map_map, Function.comp_def]
  obtain ⟨cs, ops, ids, env, v, h1, inv, hlen, _, _⟩ :=
    compile_run_core I ord e inputs _ hnd htop hcomp hin hvars hkw
  refine ⟨⟨cs, inputs, ops⟩, ids, h1, ?_, ?_⟩
  · rw [inv.rng, inv.len, hlen]
  · intro n i hn
    obtain ⟨e', _, he, _, _⟩ := inv.val n i hn
    exact ⟨e', he⟩

/-- The nested tuple `Tuple((Tuple((x,)),))`. -/
def nestedTuple : Expr := .tuple (.cons (.tuple (.cons (.var "x") .nil)) .nil)

def nestedOrd : List Node :=
  [.fn (.var "x"), .raw (.cons (.var "x") .nil), .fn (.tuple (.cons (.var "x") .nil)),
   .raw (.cons (.tuple (.cons (.var "x") .nil)) .nil), .fn nestedTuple]

/-- **Witness of the defect fixed by 6850cf7.**  With the old order of the two statements a raw tuple
    node consumed an id: on the nested tuple the ids are `0..4` for a program with only 3 slots (no
    bijection), the outer `make_tuple` reads slot 2 before it exists, and the run raises `IndexError`;
    the current numbering gives ids `0..2` and the right value. -/
theorem prefix_numbering_witness :
    anf (.fn nestedTuple) = some nestedOrd ∧
    (∃ p ids, compileIds true nestedOrd ["x"] = .ok (p, ids) ∧
      ids.map (·.2) = [0, 1, 2, 3, 4] ∧
      p.constants.length + p.inputs.length + p.operations.length = 3 ∧
      p.operations = [(.mkTuple, [0]), (.mkTuple, [2])]) ∧
    (∃ p ids, compileIds false nestedOrd ["x"] = .ok (p, ids) ∧
      ids.map (·.2) = [0, 1, 2] ∧ p.operations = [(.mkTuple, [0]), (.mkTuple, [1])]) := by
  refine ⟨by decide, ⟨_, _, rfl, by decide, by decide, by decide⟩, ⟨_, _, rfl, by decide, by decide⟩⟩

theorem prefix_numbering_run_fails (I : Interp V) (v : V) :
    compileWithPreFix nestedOrd ["x"] = .ok ⟨[], ["x"], [(.mkTuple, [0]), (.mkTuple, [2])]⟩ ∧
    run I ⟨[], ["x"], [(.mkTuple, [0]), (.mkTuple, [2])]⟩ [("x", v)] = .error (.index 2) := by
  refine ⟨rfl, ?_⟩
  simp [run, readInputs, kwGet, kwErase, runOps, getArgs, applyOp]

end FV.Props.C18
