/-
  Props/C18/AsCode.lean — the python source printed by `OpProgram.as_code()` denotes the program.

  The printed function has ONE namespace for its parameters and its temporaries.  `asCode_equiv`:
  whenever `as_code()` returns source (it declines for inputs called `ops` / `set_backend`), executing
  it on a keyword binding succeeds exactly when `OpProgram.__call__` does, with the same value.  The
  hypothesis "no temporary captures a parameter" is NOT assumed: it is discharged from the way the code
  chooses its prefix (`choosePrefix_spec`, `tmpName_ne_input`).  `asCodeOld_captures_witness` is the
  behaviour before commit e099338 (prefix always `v`).
-/
import FunsorVerif.Props.C18
import Std.Data.String.ToNat
namespace FV.Props.C18
open FV.C18

variable {V : Type}

/-! ## names -/

theorem tmpName_inj {k i j : Nat} (h : tmpName k i = tmpName k j) : i = j := by
  simp only [tmpName] at h
  exact Nat.repr_injective (String.toList_inj.mp (List.append_cancel_left h))

/-- The loop `while any(name.startswith(v) …): v = "_" + v` ends with a prefix no input starts with. -/
theorem choosePrefix_spec : ∀ (inputs : List String) (fuel k0 k : Nat),
    choosePrefix inputs fuel k0 = some k → ∀ n ∈ inputs, ¬ (tmpPrefix k) <+: n.toList := by
  intro inputs fuel
  induction fuel with
  | zero => intro k0 k h; simp [choosePrefix] at h
  | succ f ih =>
    intro k0 k h n hn
    simp only [choosePrefix] at h
    split at h
    · exact ih _ _ h n hn
    · rename_i hany
      cases h
      simp only [List.any_eq_true, not_exists, not_and] at hany
      simpa [List.isPrefixOf_iff_prefix] using hany n hn

/-- Temporaries never capture a parameter. -/
theorem tmpName_ne_input {inputs : List String} {fuel k0 k : Nat}
    (h : choosePrefix inputs fuel k0 = some k) {n : String} (hn : n ∈ inputs) (i : Nat) :
    n.toList ≠ tmpName k i := by
  intro e
  apply choosePrefix_spec _ _ _ _ h n hn
  rw [e]; exact List.prefix_append _ _

/-! ## the slot view of the namespace -/

structure Agree (k : Nat) (inputs : List String) (kw : Kw V) (loc : Locals V) (env : List V) : Prop where
  tmp : ∀ i, dGet loc (tmpName k i) = env[i]?
  par : ∀ n ∈ inputs, dGet loc n.toList = kwGet kw n

theorem Agree.push {k : Nat} {inputs : List String} {kw : Kw V} {loc : Locals V} {env : List V}
    (ag : Agree k inputs kw loc env) (hne : ∀ n ∈ inputs, ∀ i, n.toList ≠ tmpName k i) (v : V) :
    Agree k inputs kw (dSet loc (tmpName k env.length) v) (env ++ [v]) := by
  constructor
  · intro i
    by_cases hi : i = env.length
    · subst hi; rw [dGet_dSet_same]; simp
    · rw [dGet_dSet_ne _ _ _ _ (fun h => hi (tmpName_inj h).symm), ag.tmp i]
      rcases Nat.lt_or_gt_of_ne hi with h | h
      · rw [List.getElem?_append_left h]
      · rw [List.getElem?_eq_none (by omega), List.getElem?_eq_none (by simp; omega)]
  · intro n hn
    rw [dGet_dSet_ne _ _ _ _ (fun h => hne n hn _ h.symm)]
    exact ag.par n hn

/-- Reading `v{a}, v{b}, …` from the namespace = reading the slots. -/
theorem readNames_getArgs {k : Nat} {inputs : List String} {kw : Kw V} {loc : Locals V} {env : List V}
    (ag : Agree k inputs kw loc env) : ∀ is : List Nat,
    (readNames loc k is).toOption = (getArgs env is).toOption := by
  intro is
  induction is with
  | nil => simp [readNames, getArgs]
  | cons i is ih =>
    simp only [readNames, getArgs, ag.tmp i]
    cases env[i]? with
    | none => simp [Except.toOption]
    | some v =>
      simp only
      cases h1 : readNames loc k is with
      | error e1 =>
        cases h2 : getArgs env is with
        | error e2 => simp [Except.toOption]
        | ok vs2 => rw [h1, h2] at ih; simp [Except.toOption] at ih
      | ok vs1 =>
        cases h2 : getArgs env is with
        | error e2 => rw [h1, h2] at ih; simp [Except.toOption] at ih
        | ok vs2 =>
          rw [h1, h2] at ih
          simp only [Except.toOption, Option.some.injEq] at ih
          simp [Except.toOption, ih]

/-- `(m, r₀), (m+1, r₁), …`: what successive `let(...)` calls produce. -/
def indexFrom : Nat → List Rhs → List (Nat × Rhs)
  | _, [] => []
  | m, r :: rs => (m, r) :: indexFrom (m + 1) rs

theorem indexFrom_append : ∀ (a b : List Rhs) (m : Nat),
    indexFrom m (a ++ b) = indexFrom m a ++ indexFrom (m + a.length) b := by
  intro a
  induction a with
  | nil => intro b m; simp [indexFrom]
  | cons r a ih =>
    intro b m
    simp only [List.cons_append, indexFrom, ih, List.length_cons, List.cons.injEq, true_and]
    congr 2; omega

theorem foldl_codeLet {α : Type} (f : α → Rhs) : ∀ (xs : List α) (l0 : List (Nat × Rhs)),
    xs.foldl (fun ls x => codeLet ls (f x)) l0 = l0 ++ indexFrom l0.length (xs.map f) := by
  intro xs
  induction xs with
  | nil => intro l0; simp [indexFrom]
  | cons x xs ih =>
    intro l0
    rw [List.foldl_cons, ih]
    simp [codeLet, indexFrom, List.append_assoc]

theorem length_indexFrom : ∀ (rs : List Rhs) (m : Nat), (indexFrom m rs).length = rs.length := by
  intro rs
  induction rs with
  | nil => intro m; rfl
  | cons r rs ih => intro m; simp [indexFrom, ih]

theorem execLets_append_ok (I : Interp V) (k : Nat) : ∀ (a b : List (Nat × Rhs)) (loc loc' : Locals V),
    execLets I k a loc = .ok loc' → execLets I k (a ++ b) loc = execLets I k b loc' := by
  intro a
  induction a with
  | nil => intro b loc loc' h; simp [execLets] at h; subst h; rfl
  | cons p a ih =>
    intro b loc loc' h
    obtain ⟨i, r⟩ := p
    cases r with
    | const c => simp only [List.cons_append, execLets] at h ⊢; exact ih _ _ _ h
    | name s =>
      simp only [List.cons_append, execLets] at h ⊢
      cases hd : dGet loc s.toList with
      | none => simp [hd] at h
      | some v => simp only [hd] at h ⊢; exact ih _ _ _ h
    | call tag args =>
      simp only [List.cons_append, execLets] at h ⊢
      cases hr : readNames loc k args with
      | error e => simp [hr] at h
      | ok vs =>
        simp only [hr] at h ⊢
        cases ha : applyOp I tag vs with
        | error e => simp [ha] at h
        | ok v => simp only [ha] at h ⊢; exact ih _ _ _ h

theorem execLets_append_error (I : Interp V) (k : Nat) : ∀ (a b : List (Nat × Rhs)) (loc : Locals V) (e : Err),
    execLets I k a loc = .error e → execLets I k (a ++ b) loc = .error e := by
  intro a
  induction a with
  | nil => intro b loc e h; simp [execLets] at h
  | cons p a ih =>
    intro b loc e h
    obtain ⟨i, r⟩ := p
    cases r with
    | const c => simp only [List.cons_append, execLets] at h ⊢; exact ih _ _ _ h
    | name s =>
      simp only [List.cons_append, execLets] at h ⊢
      cases hd : dGet loc s.toList with
      | none => simpa [hd] using h
      | some v => simp only [hd] at h ⊢; exact ih _ _ _ h
    | call tag args =>
      simp only [List.cons_append, execLets] at h ⊢
      cases hr : readNames loc k args with
      | error e' => simpa [hr] using h
      | ok vs =>
        simp only [hr] at h ⊢
        cases ha : applyOp I tag vs with
        | error e' => simpa [ha] using h
        | ok v => simp only [ha] at h ⊢; exact ih _ _ _ h

section phases
variable (I : Interp V) (k : Nat) (inputs : List String) (kw : Kw V)
variable (hne : ∀ n ∈ inputs, ∀ i, n.toList ≠ tmpName k i)
include hne

/-- the constant lines -/
theorem exec_consts : ∀ (cs : List Nat) (loc : Locals V) (env : List V), Agree k inputs kw loc env →
    ∃ loc', execLets I k (indexFrom env.length (cs.map .const)) loc = .ok loc' ∧
      Agree k inputs kw loc' (env ++ cs.map I.const) := by
  intro cs
  induction cs with
  | nil => intro loc env ag; exact ⟨loc, by simp [indexFrom, execLets], by simpa using ag⟩
  | cons c cs ih =>
    intro loc env ag
    obtain ⟨loc', h1, h2⟩ := ih _ _ (ag.push hne (I.const c))
    refine ⟨loc', ?_, by simpa using h2⟩
    simp only [List.map_cons, indexFrom, execLets]
    simpa using h1

/-- the input lines -/
theorem exec_inputs : ∀ (ns : List String) (vs : List V) (loc : Locals V) (env : List V),
    (∀ n ∈ ns, n ∈ inputs) → vs.map some = ns.map (kwGet kw) → Agree k inputs kw loc env →
    ∃ loc', execLets I k (indexFrom env.length (ns.map .name)) loc = .ok loc' ∧
      Agree k inputs kw loc' (env ++ vs) := by
  intro ns
  induction ns with
  | nil =>
    intro vs loc env _ hvs ag
    have : vs = [] := by simpa using hvs
    subst this
    exact ⟨loc, by simp [indexFrom, execLets], by simpa using ag⟩
  | cons n ns ih =>
    intro vs loc env hsub hvs ag
    cases vs with
    | nil => simp at hvs
    | cons v vs =>
      simp only [List.map_cons, List.cons.injEq] at hvs
      obtain ⟨loc', h1, h2⟩ := ih vs _ _ (fun m hm => hsub m (by simp [hm])) hvs.2 (ag.push hne v)
      refine ⟨loc', ?_, by simpa using h2⟩
      have hpar := ag.par n (hsub n (by simp))
      simp only [List.map_cons, indexFrom, execLets, hpar, ← hvs.1]
      simpa using h1

/-- the operation lines: they succeed exactly when `runOps` does, keeping the slot view -/
theorem exec_ops : ∀ (ops : List (OpTag × List Nat)) (loc : Locals V) (env : List V),
    Agree k inputs kw loc env →
    match runOps I ops env with
    | .ok env' => ∃ loc', execLets I k (indexFrom env.length (ops.map fun o => .call o.1 o.2)) loc = .ok loc' ∧
        Agree k inputs kw loc' env'
    | .error _ => ∃ e, execLets I k (indexFrom env.length (ops.map fun o => .call o.1 o.2)) loc = .error e := by
  intro ops
  induction ops with
  | nil => intro loc env ag; simp only [runOps]; exact ⟨loc, by simp [indexFrom, execLets], ag⟩
  | cons o ops ih =>
    intro loc env ag
    obtain ⟨tag, args⟩ := o
    have hrn := readNames_getArgs ag args
    simp only [runOps, List.map_cons, indexFrom, execLets]
    cases hg : getArgs env args with
    | error e =>
      cases hr : readNames loc k args with
      | error e' => exact ⟨e', rfl⟩
      | ok vs => rw [hg, hr] at hrn; simp [Except.toOption] at hrn
    | ok vs =>
      cases hr : readNames loc k args with
      | error e' => rw [hg, hr] at hrn; simp [Except.toOption] at hrn
      | ok vs' =>
        rw [hg, hr] at hrn
        simp only [Except.toOption, Option.some.injEq] at hrn
        subst hrn
        simp only
        cases ha : applyOp I tag vs' with
        | error e => exact ⟨e, rfl⟩
        | ok v =>
          simp only
          have := ih _ _ (ag.push hne v)
          simpa using this

end phases

/-! ## binding the parameters = reading the inputs -/

theorem bind_read : ∀ (ns : List String) (kw kw0 : Kw V) (loc : Locals V) (env : List V) (done : List String),
    ns.Nodup → (∀ n ∈ ns, n ∉ done) → (∀ n ∈ ns, kwGet kw n = kwGet kw0 n) →
    (∀ n ∈ done, dGet loc n.toList = kwGet kw0 n) →
    (∀ key, (∀ n ∈ done, n.toList ≠ key) → dGet loc key = none) →
    match readInputs ns kw env with
    | .error e => bindParams ns kw loc = .error e
    | .ok (env', rest) =>
      (∃ vs, env' = env ++ vs ∧ vs.map some = ns.map (kwGet kw0)) ∧
      (if rest ≠ [] then bindParams ns kw loc = .error (.unrecognized (kwKeys rest))
       else ∃ loc', bindParams ns kw loc = .ok loc' ∧
         (∀ n ∈ done ++ ns, dGet loc' n.toList = kwGet kw0 n) ∧
         (∀ key, (∀ n ∈ done ++ ns, n.toList ≠ key) → dGet loc' key = none)) := by
  intro ns
  induction ns with
  | nil =>
    intro kw kw0 loc env done _ _ _ hd hk
    simp only [readInputs, bindParams]
    refine ⟨⟨[], by simp, by simp⟩, ?_⟩
    by_cases h : kw = []
    · simp [h]; exact ⟨hd, hk⟩
    · simp [h]
  | cons n ns ih =>
    intro kw kw0 loc env done hnd hdone hkw hd hk
    have hnd' := List.nodup_cons.mp hnd
    simp only [readInputs, bindParams]
    cases hv : kwGet kw n with
    | none => simp
    | some v =>
      simp only
      have hv0 : kwGet kw0 n = some v := by rw [← hkw n (by simp)]; exact hv
      have := ih (kwErase kw n) kw0 (dSet loc n.toList v) (env ++ [v]) (done ++ [n]) hnd'.2
        (by
          intro m hm hmd
          rcases List.mem_append.mp hmd with h | h
          · exact hdone m (by simp [hm]) h
          · simp at h; subst h; exact hnd'.1 hm)
        (by
          intro m hm
          rw [kwGet_kwErase_ne]
          · exact hkw m (by simp [hm])
          · intro e; subst e; exact hnd'.1 hm)
        (by
          intro m hm
          rcases List.mem_append.mp hm with h | h
          · rw [dGet_dSet_ne]
            · exact hd m h
            · intro e
              have : n = m := String.toList_inj.mp e
              subst this; exact hdone n (by simp) h
          · simp at h; subst h; rw [dGet_dSet_same, hv0])
        (by
          intro key hkey
          rw [dGet_dSet_ne _ _ _ _ (hkey n (by simp))]
          exact hk key (fun m hm => hkey m (by simp [hm])))
      cases hr : readInputs ns (kwErase kw n) (env ++ [v]) with
      | error e => simpa [hr] using this
      | ok r =>
        obtain ⟨env', rest⟩ := r
        simp only [hr] at this ⊢
        obtain ⟨⟨vs, h1, h2⟩, h3⟩ := this
        refine ⟨⟨v :: vs, by simp [h1], by simp [h2, hv0]⟩, ?_⟩
        simpa [List.append_assoc] using h3

/-! ## the theorem -/

theorem getLast?_eq_getElem?_pred {α : Type} (l : List α) : l.getLast? = l[l.length - 1]? := by
  cases l with
  | nil => simp
  | cons a t => rw [List.getLast?_eq_getElem?]

/-- **C18, printed source.**  If `as_code()` prints source for the program (it declines only for inputs
    called `ops`/`set_backend`), then for every keyword binding, executing the printed function gives a
    value exactly when `OpProgram.__call__` does, and the same one; in particular it rejects missing and
    unexpected arguments.  (Input names are distinct, as `compile_funsor`/`trace_function` produce them.) -/
theorem asCode_equiv (I : Interp V) (p : Prog) (c : Code) (kw : Kw V) (hnd : p.inputs.Nodup)
    (hc : asCode p = .ok c) : (execCode I c kw).toOption = (run I p kw).toOption := by
  simp only [asCode] at hc
  split at hc
  · cases hc
  · cases hk : choosePrefix p.inputs (prefixFuel p.inputs) 0 with
    | none => simp [hk] at hc
    | some k =>
      simp only [hk, Except.ok.injEq] at hc
      have hne : ∀ n ∈ p.inputs, ∀ i, n.toList ≠ tmpName k i := fun n hn i => tmpName_ne_input hk hn i
      -- shape of the printed lines
      have hlets : c.lets = indexFrom 0 (p.constants.map .const) ++
          (indexFrom p.constants.length (p.inputs.map .name) ++
           indexFrom (p.constants.length + p.inputs.length) (p.operations.map fun o => .call o.1 o.2)) := by
        rw [← hc]
        simp only [foldl_codeLet, List.nil_append, List.length_nil, List.length_append, length_indexFrom,
          List.length_map, List.append_assoc]
      have hpar : c.params = p.inputs := by rw [← hc]
      have hpfx : c.pfx = k := by rw [← hc]
      have hret : c.ret = if c.lets.length = 0 then none else some (c.lets.length - 1) := by rw [← hc]
      have hlen : c.lets.length = p.constants.length + p.inputs.length + p.operations.length := by
        rw [hlets]; simp [length_indexFrom]; omega
      -- parameters
      have hb := bind_read p.inputs kw kw [] (p.constants.map I.const) [] hnd (by simp) (by simp)
        (by simp) (by simp [dGet])
      simp only [execCode, run, hpar, hpfx]
      cases hr : readInputs p.inputs kw (p.constants.map I.const) with
      | error e => simp only [hr] at hb; simp [hb, Except.toOption]
      | ok r =>
        obtain ⟨env1, rest⟩ := r
        simp only [hr] at hb
        obtain ⟨⟨vs, henv1, hvs⟩, hb⟩ := hb
        by_cases hrest : rest = []
        · subst hrest
          simp only [ne_eq, not_true_eq_false, if_false, List.nil_append] at hb
          obtain ⟨loc0, hbind, hval, hnone⟩ := hb
          simp only [hbind, ne_eq, not_true_eq_false, if_false]
          -- the namespace after binding agrees with the empty environment
          have ag0 : Agree k p.inputs kw loc0 [] := by
            constructor
            · intro i
              rw [hnone _ (fun n hn => hne n hn i)]; simp
            · exact hval
          obtain ⟨loc1, e1, ag1⟩ := exec_consts I k p.inputs kw hne p.constants loc0 [] ag0
          obtain ⟨loc2, e2, ag2⟩ := exec_inputs I k p.inputs kw hne p.inputs vs loc1 _ (fun _ h => h) hvs ag1
          have e3 := exec_ops I k p.inputs kw hne p.operations loc2 _ ag2
          simp only [List.nil_append, List.length_nil, List.length_append, List.length_map] at e1 e2 e3 ag1 ag2
          have hvlen : vs.length = p.inputs.length := by
            have := congrArg List.length hvs; simpa using this
          rw [hvlen] at e3
          rw [hlets, execLets_append_ok I k _ _ _ _ e1, execLets_append_ok I k _ _ _ _ e2]
          rw [henv1]
          cases hro : runOps I p.operations (p.constants.map I.const ++ vs) with
          | error e =>
            simp only [hro] at e3
            obtain ⟨e', he'⟩ := e3
            simp [he', Except.toOption]
          | ok env' =>
            simp only [hro] at e3
            obtain ⟨loc3, he3, ag3⟩ := e3
            simp only [he3]
            have hl := runOps_length I _ _ _ hro
            simp only [List.length_append, List.length_map, hvlen] at hl
            rw [hret]
            by_cases hz : c.lets.length = 0
            · have : env' = [] := by
                apply List.eq_nil_of_length_eq_zero; omega
              subst this
              simp [hz, Except.toOption]
            · simp only [hz, if_false]
              rw [ag3.tmp, getLast?_eq_getElem?_pred, hl, hlen]
              cases env'[p.constants.length + p.inputs.length + p.operations.length - 1]? <;>
                simp [Except.toOption]
        · simp only [ne_eq, hrest, not_false_eq_true, if_true] at hb
          simp [hb, hrest, Except.toOption]

/-! ## `as_code()` declines only for the reserved names (the prefix loop terminates) -/

theorem le_foldl_max : ∀ (l : List Nat) (a x : Nat), x ∈ l ∨ x ≤ a → x ≤ l.foldl max a := by
  intro l
  induction l with
  | nil => intro a x h; rcases h with h | h; (· simp at h); exact h
  | cons b l ih =>
    intro a x h
    simp only [List.foldl_cons]
    apply ih
    rcases h with h | h
    · rcases List.mem_cons.mp h with h | h
      · right; subst h; exact Nat.le_max_right _ _
      · left; exact h
    · right; exact Nat.le_trans h (Nat.le_max_left _ _)

theorem choosePrefix_none : ∀ (inputs : List String) (fuel k0 : Nat), choosePrefix inputs fuel k0 = none →
    ∀ j, j < fuel → inputs.any (fun n => (tmpPrefix (k0 + j)).isPrefixOf n.toList) = true := by
  intro inputs fuel
  induction fuel with
  | zero => intro k0 _ j hj; omega
  | succ f ih =>
    intro k0 h j hj
    simp only [choosePrefix] at h
    split at h
    · rename_i hany
      cases j with
      | zero => simpa using hany
      | succ j =>
        have := ih (k0 + 1) h j (by omega)
        rwa [show k0 + 1 + j = k0 + (j + 1) by omega] at this
    · cases h

theorem asCode_total (p : Prog) (h : ∀ n ∈ p.inputs, n ≠ "ops" ∧ n ≠ "set_backend") :
    ∃ c, asCode p = .ok c := by
  simp only [asCode]
  have hres : p.inputs.any (fun n => n = "ops" || n = "set_backend") = false := by
    rw [List.any_eq_false]
    intro n hn
    have := h n hn
    simp [this.1, this.2]
  simp only [hres]
  cases hk : choosePrefix p.inputs (prefixFuel p.inputs) 0 with
  | some k => exact ⟨_, rfl⟩
  | none =>
    exfalso
    have := choosePrefix_none p.inputs (prefixFuel p.inputs) 0 hk (prefixFuel p.inputs - 1)
      (by simp [prefixFuel])
    simp only [List.any_eq_true, Nat.zero_add] at this
    obtain ⟨n, hn, hpre⟩ := this
    have hle : n.toList.length ≤ (p.inputs.map (fun n => n.toList.length)).foldl max 0 :=
      le_foldl_max _ 0 _ (Or.inl (List.mem_map.mpr ⟨n, hn, rfl⟩))
    have hp := (List.isPrefixOf_iff_prefix.mp hpre).length_le
    simp only [tmpPrefix, prefixFuel, List.length_append, List.length_replicate, List.length_cons,
      List.length_nil] at hp
    omega

/-! ## printed op parameters denote the same op -/

/-- **Printed ops round-trip**: evaluating the expression `_print_op` prints rebuilds the same parameter
    record, for every op class and every parameter values. -/
theorem printOp_roundtrip (o : OpInst) (h : o.WF) : parsePrinted o.cls (printOp o) = some o := by
  obtain ⟨c, vals⟩ := o
  simp only [OpInst.WF] at h
  simp only [printOp]
  split
  · simp [parsePrinted, h]
  · rename_i hn
    simp only [parsePrinted]
    by_cases hp : c.params = []
    · have : vals = [] := by
        apply List.eq_nil_of_length_eq_zero; rw [h, hp]; rfl
      simp [hp, this]
    · have : vals = c.params.map (·.2) := by
        by_cases hv : vals = c.params.map (·.2)
        · exact hv
        · exact absurd ⟨hp, hv⟩ hn
      rw [this]

def clampClass : OpClass := ⟨"ClampOp", [("min", "None"), ("max", "None")]⟩
def stdClass : OpClass := ⟨"StdOp", [("axis", "None"), ("ddof", "0"), ("keepdims", "False")]⟩

/-- **Witness for the positional-omission scheme** (seeded defect C18_1): printing only the non-default
    values shifts a later parameter into an earlier slot — `ClampOp(None, 0.25)` is read back as
    `ClampOp(0.25, None)` (a lower instead of an upper bound), `StdOp(None, 1, False)` as
    `StdOp(1, 0, False)` (axis 1, ddof 0) — while the scheme in the code reads both back unchanged. -/
theorem printOmit_witness :
    parsePrinted clampClass (printOmit ⟨clampClass, ["None", "0.25"]⟩) = some ⟨clampClass, ["0.25", "None"]⟩ ∧
    parsePrinted stdClass (printOmit ⟨stdClass, ["None", "1", "False"]⟩) = some ⟨stdClass, ["1", "0", "False"]⟩ ∧
    parsePrinted clampClass (printOp ⟨clampClass, ["None", "0.25"]⟩) = some ⟨clampClass, ["None", "0.25"]⟩ ∧
    parsePrinted stdClass (printOp ⟨stdClass, ["None", "1", "False"]⟩) = some ⟨stdClass, ["None", "1", "False"]⟩ := by
  decide

/-- The omission scheme is right exactly when the non-default values form a prefix (only leading
    parameters changed): stated for the direction the seeded defect needs — a default value followed by a
    non-default one is read back wrongly. -/
theorem printOmit_wrong_of_gap (c : OpClass) (n1 n2 d1 d2 v2 : String) (hc : c.params = [(n1, d1), (n2, d2)])
    (hv : v2 ≠ d2) (hd : d1 ≠ v2) : parsePrinted c (printOmit ⟨c, [d1, v2]⟩) ≠ some ⟨c, [d1, v2]⟩ := by
  simp only [printOmit, hc, List.map_cons, List.map_nil, ne_eq, reduceCtorEq, not_false_eq_true, true_and]
  have h1 : ([d1, v2] : List String) ≠ [d1, d2] := by simp [hv]
  simp only [h1, not_false_eq_true, if_true, List.zip_cons_cons, List.zip_nil_right, List.filterMap_cons,
    if_true, hv, if_false, List.filterMap_nil]
  simp [parsePrinted, hc, hd.symm]

/-- **Witness for commit e099338.**  With the fixed prefix `v` (the code before that commit) an input
    called `v0` is overwritten by the first temporary: for `v0 + 1` the printed function computes
    `c + c` (here 2 instead of 6), while the program computes `v0 + c`. -/
theorem asCodeOld_captures_witness :
    let I : Interp Int := ⟨fun _ => 1, fun _ x => x, fun _ x y => x + y, fun _ => 0⟩
    let p : Prog := ⟨[0], ["v0"], [(.op "add", [1, 0])]⟩
    execCode I (asCodeOld p) [("v0", 5)] = .ok 2 ∧ run I p [("v0", 5)] = .ok 6 ∧
    (∃ c, asCode p = .ok c ∧ c.pfx = 1 ∧ execCode I c [("v0", 5)] = .ok 6) := by
  refine ⟨rfl, rfl, ⟨_, rfl, rfl, rfl⟩⟩

end FV.Props.C18
