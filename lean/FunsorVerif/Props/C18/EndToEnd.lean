/-
  Props/C18/EndToEnd.lean — `compile_funsor` end to end: the queue-based `anf` ordering (Props/C18/Anf.lean)
  satisfies the hypotheses of `run_compile_eq_eval` (Props/C18.lean), and `expr.inputs` enumerates exactly
  the variables of the DAG.  Also the non-vacuity examples for those hypotheses.
-/
import FunsorVerif.Props.C18
import FunsorVerif.Props.C18.Anf
namespace FV.Props.C18
open FV.C18

variable {V : Type}

/-! ## `expr.inputs` -/

theorem mem_union (a b : List String) (s : String) : s ∈ union a b ↔ s ∈ a ∨ s ∈ b := by
  simp only [union, List.mem_append, List.mem_filter, List.contains_eq_mem, Bool.not_eq_eq_eq_not,
    Bool.not_true, decide_eq_false_iff_not]
  constructor
  · rintro (h | h)
    · exact Or.inl h
    · exact Or.inr h.1
  · rintro (h | h)
    · exact Or.inl h
    · by_cases ha : s ∈ a
      · exact Or.inl ha
      · exact Or.inr ⟨h, ha⟩

theorem union_nodup (a b : List String) (ha : a.Nodup) (hb : b.Nodup) : (union a b).Nodup := by
  simp only [union]
  apply List.nodup_append.mpr
  refine ⟨ha, hb.filter _, ?_⟩
  intro x hx y hy hxy
  subst hxy
  simp only [List.mem_filter, List.contains_eq_mem, Bool.not_eq_eq_eq_not, Bool.not_true,
    decide_eq_false_iff_not] at hy
  exact hy.2 hx

mutual
theorem inputsOf_nodup : ∀ e : Expr, (inputsOf e).Nodup
  | .const _ => by simp [inputsOf]
  | .var _ => by simp [inputsOf]
  | .unary _ a => by simpa [inputsOf] using inputsOf_nodup a
  | .binary _ a b => by
    simpa [inputsOf] using union_nodup _ _ (inputsOf_nodup a) (inputsOf_nodup b)
  | .tuple as => by simpa [inputsOf] using inputsOfArgs_nodup as
theorem inputsOfArgs_nodup : ∀ as : Args, (inputsOfArgs as).Nodup
  | .nil => by simp [inputsOfArgs]
  | .cons a r => by
    simpa [inputsOfArgs] using union_nodup _ _ (inputsOf_nodup a) (inputsOfArgs_nodup r)
end

mutual
/-- the variable `s` occurs in the term -/
def occurs (s : String) : Expr → Prop
  | .const _ => False
  | .var n => n = s
  | .unary _ a => occurs s a
  | .binary _ a b => occurs s a ∨ occurs s b
  | .tuple as => occursArgs s as
def occursArgs (s : String) : Args → Prop
  | .nil => False
  | .cons a r => occurs s a ∨ occursArgs s r
end

def occursNode (s : String) : Node → Prop
  | .fn e => occurs s e
  | .raw es => occursArgs s es

mutual
theorem mem_inputsOf (s : String) : ∀ e : Expr, s ∈ inputsOf e ↔ occurs s e
  | .const _ => by simp [inputsOf, occurs]
  | .var n => by simp [inputsOf, occurs, eq_comm]
  | .unary _ a => by simpa [inputsOf, occurs] using mem_inputsOf s a
  | .binary _ a b => by
    simp only [inputsOf, occurs, mem_union, mem_inputsOf s a, mem_inputsOf s b]
  | .tuple as => by simpa [inputsOf, occurs] using mem_inputsOfArgs s as
theorem mem_inputsOfArgs (s : String) : ∀ as : Args, s ∈ inputsOfArgs as ↔ occursArgs s as
  | .nil => by simp [inputsOfArgs, occursArgs]
  | .cons a r => by
    simp only [inputsOfArgs, occursArgs, mem_union, mem_inputsOf s a, mem_inputsOfArgs s r]
end

theorem occursArgs_iff (s : String) : ∀ as : Args, occursArgs s as ↔ ∃ a ∈ as.toList, occurs s a
  | .nil => by simp [occursArgs, Args.toList]
  | .cons a r => by simp [occursArgs, Args.toList, occursArgs_iff s r]

theorem occursNode_of_child {s : String} {n c : Node} (hc : c ∈ children n) (h : occursNode s c) :
    occursNode s n := by
  cases n with
  | raw es =>
    simp only [children, List.mem_map] at hc
    obtain ⟨a, ha, rfl⟩ := hc
    exact (occursArgs_iff s es).mpr ⟨a, ha, h⟩
  | fn e =>
    cases e with
    | const k => simp [children] at hc
    | var n => simp [children] at hc
    | unary op a => simp [children] at hc; subst hc; exact h
    | binary op a b =>
      simp [children] at hc
      rcases hc with rfl | rfl
      · exact Or.inl h
      · exact Or.inr h
    | tuple as =>
      cases as with
      | nil => simp [children] at hc
      | cons a r => simp [children] at hc; subst hc; exact h

theorem occursNode_of_reach {s : String} {r n : Node} (h : Reach r n) : occursNode s n → occursNode s r := by
  induction h with
  | refl => exact id
  | step _ hc ih => exact fun hn => ih (occursNode_of_child hc hn)

theorem reach_trans {a b c : Node} (h1 : Reach a b) (h2 : Reach b c) : Reach a c := by
  induction h2 with
  | refl => exact h1
  | step _ hc ih => exact Reach.step ih hc

mutual
theorem reach_of_occurs (s : String) : ∀ e : Expr, occurs s e → Reach (.fn e) (.fn (.var s))
  | .const _ => by simp [occurs]
  | .var n => by intro h; simp only [occurs] at h; subst h; exact Reach.refl
  | .unary op a => by
    intro h
    exact reach_trans (Reach.step Reach.refl (by simp [children])) (reach_of_occurs s a h)
  | .binary op a b => by
    intro h
    rcases h with h | h
    · exact reach_trans (Reach.step Reach.refl (by simp [children])) (reach_of_occurs s a h)
    · exact reach_trans (Reach.step Reach.refl (by simp [children])) (reach_of_occurs s b h)
  | .tuple .nil => by simp [occurs, occursArgs]
  | .tuple (.cons a r) => by
    intro h
    obtain ⟨x, hx, hr⟩ := reach_of_occursArgs s (.cons a r) h
    have h1 : Reach (.fn (.tuple (.cons a r))) (.raw (.cons a r)) :=
      Reach.step Reach.refl (by simp [children])
    have h2 : Reach (.raw (.cons a r)) (.fn x) :=
      Reach.step Reach.refl (by simp only [children, List.mem_map]; exact ⟨x, hx, rfl⟩)
    exact reach_trans h1 (reach_trans h2 hr)
theorem reach_of_occursArgs (s : String) :
    ∀ as : Args, occursArgs s as → ∃ a ∈ as.toList, Reach (.fn a) (.fn (.var s))
  | .nil => by simp [occursArgs]
  | .cons a r => by
    intro h
    rcases h with h | h
    · exact ⟨a, by simp [Args.toList], reach_of_occurs s a h⟩
    · obtain ⟨x, hx, hr⟩ := reach_of_occursArgs s r h
      exact ⟨x, by simp [Args.toList, hx], hr⟩
end

/-- `expr.inputs` lists exactly the variables reachable in the DAG. -/
theorem mem_inputsOf_iff_reach (e : Expr) (s : String) :
    s ∈ inputsOf e ↔ Reach (.fn e) (.fn (.var s)) := by
  rw [mem_inputsOf]
  constructor
  · exact reach_of_occurs s e
  · intro h
    exact occursNode_of_reach (s := s) h (by simp [occursNode, occurs])

/-! ## end to end -/

/-- **C18 end to end.**  For every expression of the fragment and every binding of exactly its inputs,
    `compile_funsor(expr)` (anf ordering, numbering, program) succeeds and
    `compile_funsor(expr)(**kw) = expr(**kw)`. -/
theorem compile_correct (I : Interp V) (e : Expr) (kw : Kw V) (hkw : KwMatches kw (inputsOf e)) :
    ∃ p v, compile e = .ok p ∧ run I p kw = .ok v ∧ eval I kw e = some v := by
  obtain ⟨ord, hord⟩ := anf_total (.fn e)
  have hcomp := anf_complete (fuel := anfFuel (.fn e)) hord
  obtain ⟨p, v, h1, h2, h3⟩ := run_compile_eq_eval I ord e (inputsOf e) kw
    (anf_nodup (fuel := anfFuel (.fn e)) hord) (anf_topological (fuel := anfFuel (.fn e)) hord) hcomp
    (inputsOf_nodup e)
    (fun s => by rw [mem_inputsOf_iff_reach, hcomp.1]) hkw
  exact ⟨p, v, by simp [compile, hord, h1], h2, h3⟩

/-- Missing and unexpected bindings are rejected by every compiled program. -/
theorem compile_rejects_bad_bindings (I : Interp V) (e : Expr) (kw : Kw V) (p : Prog)
    (hp : compile e = .ok p) :
    (∀ s ∈ inputsOf e, s ∉ kwKeys kw → ∃ m, run I p kw = .error (.missing m)) ∧
    (∀ k ∈ kwKeys kw, k ∉ inputsOf e →
      (∃ m, run I p kw = .error (.missing m)) ∨ (∃ ks, k ∈ ks ∧ run I p kw = .error (.unrecognized ks))) := by
  have hin : p.inputs = inputsOf e := by
    simp only [compile] at hp
    cases ha : anf (.fn e) with
    | none => simp [ha] at hp
    | some ord =>
      simp only [ha, compileWith, compileIds] at hp
      cases hc : collectOps false ord (collectInputs (inputsOf e) (collectConsts ord [] []).1) [] with
      | error er => simp [hc] at hp
      | ok r => simp [hc] at hp; rw [← hp]
  constructor
  · intro s hs hmiss
    exact missing_input_rejected I p kw s (hin ▸ hs) hmiss
  · intro k hk hnot
    exact extra_input_rejected I p kw k hk (hin ▸ hnot)

/-! ## non-vacuity: the hypotheses are satisfiable by a nested tuple with shared parts -/

def exE : Expr :=
  .tuple (.cons (.tuple (.cons (.var "x") (.cons (.binary "sub" (.var "y") (.var "x")) .nil)))
    (.cons (.binary "add" (.var "x") (.const 0)) (.cons (.tuple .nil) .nil)))

example : ∃ ord, anf (.fn exE) = some ord ∧ ord.Nodup ∧ Topological ord ∧ Complete ord exE := by
  obtain ⟨ord, h⟩ := anf_total (.fn exE)
  exact ⟨ord, h, anf_nodup (fuel := anfFuel (.fn exE)) h, anf_topological (fuel := anfFuel (.fn exE)) h,
    anf_complete (fuel := anfFuel (.fn exE)) h⟩

example : inputsOf exE = ["x", "y"] := by decide

example : KwMatches ([("y", (3 : Int)), ("x", 2)]) (inputsOf exE) := by
  constructor
  · decide
  · intro n; simp [kwKeys, show inputsOf exE = ["x", "y"] by decide]; exact Or.comm

example : compile exE = .ok ⟨[0], ["x", "y"],
    [(.mkTuple, []), (.op "add", [1, 0]), (.op "sub", [2, 1]), (.mkTuple, [1, 5]), (.mkTuple, [6, 4, 3])]⟩ := by
  rfl

end FV.Props.C18
