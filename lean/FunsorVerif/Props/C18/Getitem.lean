/-
  Props/C18/Getitem.lean — the raw default of `ops.getitem` that compiled programs call for `x[:, …, i]`.
-/
import FunsorVerif.Model.C18
namespace FV.Props.C18
open FV.C18

/-- a non-symmetric 2x2x2 array: x[a][b][c] = 4a + 2b + c -/
def arr222 : Arr :=
  .node [.node [.node [.leaf 0, .leaf 1], .node [.leaf 2, .leaf 3]],
         .node [.node [.leaf 4, .leaf 5], .node [.leaf 6, .leaf 7]]]

/-- selecting along axis k keeps the order of the other axes: `x[:, :, 1]`, `x[:, 1]`, `x[1]` -/
theorem getitemAt_examples :
    (getitemAt 2 1 arr222).map (Arr.beq (.node [.node [.leaf 1, .leaf 3], .node [.leaf 5, .leaf 7]])) = some true ∧
    (getitemAt 1 1 arr222).map (Arr.beq (.node [.node [.leaf 2, .leaf 3], .node [.leaf 6, .leaf 7]])) = some true ∧
    (getitemAt 0 1 arr222).map (Arr.beq (.node [.node [.leaf 4, .leaf 5], .node [.leaf 6, .leaf 7]])) = some true ∧
    (getitemAt 3 0 arr222).isNone = true ∧ (getitemAt 2 2 arr222).isNone = true := by
  decide

/-- **Witness for seeded defect C18_10.**  `lhs.swapaxes(0, 2)[i]` is NOT `lhs[:, :, i]`: with equal leading
    sizes it has the same shape but is the transpose — [[1,5],[3,7]] instead of [[1,3],[5,7]]. -/
theorem swapaxes_getitem_witness :
    (swapaxes02ThenIndex 1 arr222).map (Arr.beq (.node [.node [.leaf 1, .leaf 5], .node [.leaf 3, .leaf 7]])) = some true ∧
    (match swapaxes02ThenIndex 1 arr222, getitemAt 2 1 arr222 with
     | some a, some b => Arr.beq a b
     | _, _ => true) = false := by
  decide

/-- Selecting along axis k+1 is selecting along axis k in every item (the leading axis is untouched). -/
theorem getitemAt_succ (k i : Nat) (xs : List Arr) :
    getitemAt (k + 1) i (.node xs) = (getitemAtAll k i xs).map .node := by
  simp [getitemAt]

/-- …so the number of items along the leading axis is preserved for every offset ≥ 1. -/
theorem getitemAtAll_length : ∀ (k i : Nat) (xs ys : List Arr), getitemAtAll k i xs = some ys → ys.length = xs.length := by
  intro k i xs
  induction xs with
  | nil => intro ys h; simp [getitemAtAll] at h; subst h; rfl
  | cons x xs ih =>
    intro ys h
    simp only [getitemAtAll] at h
    cases hx : getitemAt k i x with
    | none => simp [hx] at h
    | some y =>
      cases hr : getitemAtAll k i xs with
      | none => simp [hx, hr] at h
      | some r =>
        simp only [hx, hr, Option.some.injEq] at h
        subst h
        simp [ih r hr]

end FV.Props.C18
