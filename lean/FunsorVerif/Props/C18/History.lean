/-
  Props/C18/History.lean — a program object is a pure function of the binding, whatever was called before.

  `callSeq_eq_map`: any sequence of calls on one `OpProgram` (valid or rejected, in any order) gives the list
  of the single-call outcomes and leaves the object unchanged.  This rests on `__call__` building its
  environment locally; the source-form obligation `call_sites_do_not_touch_self` (over the table regenerated
  from funsor/ops/program.py on every run) is what ties that to the code, and `callShared_stale_witness`
  shows what happens when the environment is kept on the object (seeded defect C18_5).
-/
import FunsorVerif.Props.C18
import FunsorVerif.Gen.C18CallSites
namespace FV.Props.C18
open FV.C18

variable {V : Type}

/-- **Histories.**  A sequence of calls on one program equals the map of single calls, and the object is
    unchanged afterwards — rejected calls included. -/
theorem callSeq_eq_map (I : Interp V) (p : Prog) (kws : List (Kw V)) :
    callSeq I p kws = (p, kws.map (run I p)) := by
  induction kws with
  | nil => rfl
  | cons kw rest ih => simp [callSeq, callStep, ih]

/-- The answer to a binding does not depend on the calls made before it. -/
theorem call_history_independent (I : Interp V) (p : Prog) (before : List (Kw V)) (kw : Kw V) :
    (callSeq I p (before ++ [kw])).2.getLast? = some (run I p kw) := by
  simp [callSeq_eq_map]

/-- **Source-form obligation** over the table extracted from `OpProgram.__call__`: no statement of
    `__call__` assigns, deletes or mutates an attribute of `self`, directly or through a local alias. -/
theorem call_sites_do_not_touch_self :
    ∀ s ∈ FV.Gen.C18.callSites, s.touchesSelf = false := by
  decide

/-- The table is not empty: the scan saw the stores of `__call__` (`env.append`, `kwargs.pop`). -/
theorem call_sites_nonempty : FV.Gen.C18.callSites ≠ [] := by
  decide

/-- **Witness for seeded defect C18_5.**  Program `x - y` (slots: x, y, x-y) with the environment kept on
    the object: a call rejected for an unexpected keyword leaves its inputs (10, 1) in the list, and the next
    valid call with (5, 2) returns 10 - 1 = 9 instead of 3; the state-free `run` returns 3. -/
theorem callShared_stale_witness :
    let I : Interp Int := ⟨fun _ => 0, fun _ x => x, fun _ x y => x - y, fun _ => 0⟩
    let p : Prog := ⟨[], ["x", "y"], [(.op "sub", [0, 1])]⟩
    let s0 : SharedProg Int := ⟨p, []⟩
    let (s1, r1) := callShared I s0 [("x", 10), ("y", 1), ("zz", 7)]
    let (_, r2) := callShared I s1 [("x", 5), ("y", 2)]
    r1 = .error (.unrecognized ["zz"]) ∧ s1.env = [10, 1] ∧ r2 = .ok 9 ∧
    run I p [("x", 5), ("y", 2)] = .ok 3 ∧
    (callShared I s0 [("x", 5), ("y", 2)]).2 = .ok 3 := by
  refine ⟨rfl, rfl, rfl, rfl, rfl⟩

/-- **Source-form obligation on `as_code`'s rename guard** (regenerated from funsor/ops/program.py): the loop
    that lengthens the temporary prefix tests the prefix against EVERY input name (`name.startswith(v)` over all
    of `self.inputs`) — the hypothesis `choosePrefix_spec` / `tmpName_ne_input` rest on. -/
theorem prefix_guard_tests_every_input :
    FV.Gen.C18.prefixGuard.found = true ∧ FV.Gen.C18.prefixGuard.rangesOverAllInputs = true ∧
    FV.Gen.C18.prefixGuard.testsNameStartswithPrefix = true := by
  decide

end FV.Props.C18
