/-
  Props/C18/Lower.lean — the lowering step of `compile_funsor` preserves meaning.

  `lower_denote`: for ANY interpretation of the ops (they are uninterpreted functions here) the lowered
  term evaluates to what the source term evaluates to — the only rewrites are structural (Contraction to
  a left-nested Binary chain, rebuilding of Tuple/Unary/Binary).  Nothing algebraic is derivable at this
  level: `cancelInv_not_sound` exhibits an op whose registered inverse is only a partial inverse, for
  which dropping `op ∘ inv` changes the value (seeded defect C18_3).
-/
import FunsorVerif.Props.C18
import FunsorVerif.Props.C18.EndToEnd
namespace FV.Props.C18
open FV.C18

variable {V : Type}

theorem evalList_ofList (I : Interp V) (kw : Kw V) (es : List Expr) :
    evalArgs I kw (Args.ofList es) = evalList I kw es := by
  induction es with
  | nil => simp [Args.ofList, evalArgs, evalList]
  | cons a r ih =>
    simp only [Args.ofList, evalArgs, evalList, ih]
    cases eval I kw a <;> cases evalList I kw r <;> rfl

/-- evaluating a left-nested chain of `Binary` = folding the op over the values -/
theorem eval_foldl_binary (I : Interp V) (kw : Kw V) (op : String) :
    ∀ (es : List Expr) (vs : List V) (e : Expr) (v : V), eval I kw e = some v → evalList I kw es = some vs →
    eval I kw (es.foldl (Expr.binary op) e) = some (vs.foldl (I.bin op) v) := by
  intro es
  induction es with
  | nil => intro vs e v he h; simp [evalList] at h; subst h; simpa using he
  | cons a r ih =>
    intro vs e v he h
    simp only [evalList] at h
    cases ha : eval I kw a with
    | none => simp [ha] at h
    | some x =>
      cases hr : evalList I kw r with
      | none => simp [ha, hr] at h
      | some xs =>
        simp only [ha, hr, Option.some.injEq] at h
        subst h
        simp only [List.foldl_cons]
        exact ih xs _ _ (by simp [eval, he, ha]) hr

mutual
/-- **Lowering preserves meaning**, for every interpretation of the ops. -/
theorem lower_denote (I : Interp V) (kw : Kw V) :
    ∀ (s : Src) (e : Expr), lower s = some e → eval I kw e = evalSrc I kw s
  | .const k, e, h => by simp [lower] at h; subst h; simp [eval, evalSrc]
  | .var n, e, h => by simp [lower] at h; subst h; simp [eval, evalSrc]
  | .unary op a, e, h => by
    simp only [lower, Option.map_eq_some_iff] at h
    obtain ⟨x, hx, rfl⟩ := h
    simp [eval, evalSrc, lower_denote I kw a x hx]
  | .binary op a b, e, h => by
    simp only [lower] at h
    cases ha : lower a with
    | none => simp [ha] at h
    | some x =>
      cases hb : lower b with
      | none => simp [ha, hb] at h
      | some y =>
        simp only [ha, hb, Option.some.injEq] at h
        subst h
        simp only [eval, evalSrc, lower_denote I kw a x ha, lower_denote I kw b y hb]
  | .tuple as, e, h => by
    simp only [lower, Option.map_eq_some_iff] at h
    obtain ⟨es, hes, rfl⟩ := h
    simp [eval, evalSrc, evalList_ofList, lowerArgs_denote I kw as es hes]
  | .contraction op ts, e, h => by
    simp only [lower] at h
    cases hts : lowerArgs ts with
    | none => simp [hts] at h
    | some es =>
      simp only [hts] at h
      have hl := lowerArgs_denote I kw ts es hts
      simp only [evalSrc, ← hl]
      cases es with
      | nil => simp [reduce1] at h
      | cons x xs =>
        simp only [reduce1, Option.some.injEq] at h
        subst h
        simp only [evalList]
        cases hx : eval I kw x with
        | none =>
          -- the chain contains x at its left end: it is unbound as well
          have : ∀ (l : List Expr) (e0 : Expr), eval I kw e0 = none →
              eval I kw (l.foldl (Expr.binary op) e0) = none := by
            intro l
            induction l with
            | nil => intro e0 h0; simpa using h0
            | cons a r ih => intro e0 h0; exact ih _ (by simp [eval, h0])
          exact this xs x hx
        | some v =>
          cases hxs : evalList I kw xs with
          | none =>
            have : ∀ (l : List Expr) (e0 : Expr), evalList I kw l = none →
                eval I kw (l.foldl (Expr.binary op) e0) = none := by
              intro l
              induction l with
              | nil => intro e0 h0; simp [evalList] at h0
              | cons a r ih =>
                intro e0 h0
                simp only [List.foldl_cons]
                cases ha : eval I kw a with
                | none =>
                  have hn : ∀ (l' : List Expr) (e1 : Expr), eval I kw e1 = none →
                      eval I kw (l'.foldl (Expr.binary op) e1) = none := by
                    intro l'
                    induction l' with
                    | nil => intro e1 h1; simpa using h1
                    | cons a' r' ih' => intro e1 h1; exact ih' _ (by simp [eval, h1])
                  apply hn
                  simp only [eval, ha]
                  cases eval I kw e0 <;> rfl
                | some va =>
                  apply ih
                  simp only [evalList, ha] at h0
                  cases hr : evalList I kw r with
                  | none => rfl
                  | some vr => simp [hr] at h0
            exact this xs x hxs
          | some vs =>
            simp only [reduce1]
            exact eval_foldl_binary I kw op xs vs x v hx hxs
theorem lowerArgs_denote (I : Interp V) (kw : Kw V) :
    ∀ (as : SrcArgs) (es : List Expr), lowerArgs as = some es → evalList I kw es = evalSrcArgs I kw as
  | .nil, es, h => by simp [lowerArgs] at h; subst h; simp [evalList, evalSrcArgs]
  | .cons a r, es, h => by
    simp only [lowerArgs] at h
    cases ha : lower a with
    | none => simp [ha] at h
    | some x =>
      cases hr : lowerArgs r with
      | none => simp [ha, hr] at h
      | some xs =>
        simp only [ha, hr, Option.some.injEq] at h
        subst h
        simp only [evalList, evalSrcArgs, lower_denote I kw a x ha, lowerArgs_denote I kw r xs hr]
        cases evalSrc I kw a <;> cases evalSrcArgs I kw r <;> rfl
end

/-- **`compile_funsor` on source terms**: lowering followed by compilation returns the value of the
    source expression (the binding names exactly the inputs of the lowered term, which are the source's). -/
theorem compile_lower_correct (I : Interp V) (s : Src) (e : Expr) (kw : Kw V) (hl : lower s = some e)
    (hkw : KwMatches kw (inputsOf e)) :
    ∃ p v, compile e = .ok p ∧ run I p kw = .ok v ∧ evalSrc I kw s = some v := by
  obtain ⟨p, v, h1, h2, h3⟩ := compile_correct I e kw hkw
  exact ⟨p, v, h1, h2, by rw [← lower_denote I kw s e hl]; exact h3⟩

/-! ## repeated operands of a Contraction are kept (multiset semantics) -/

/-- Dropping a repeated operand of a two-operand contraction is sound exactly when the op is idempotent
    at that operand. -/
theorem dedup_pair_sound_iff {α : Type} [DecidableEq α] (f : α → α → α) (x : α) :
    reduce1 f ([x, x].eraseDups) = reduce1 f [x, x] ↔ f x x = x := by
  have h : ([x, x] : List α).eraseDups = [x] := by
    simp [List.eraseDups_cons]
  rw [h]
  simp [reduce1, eq_comm]

/-- If emitting repeated operands once is sound for every operand list, the op is idempotent. -/
theorem idempotent_of_dedup_sound {α : Type} [DecidableEq α] (f : α → α → α)
    (h : ∀ l : List α, reduce1 f l.eraseDups = reduce1 f l) : ∀ x, f x x = x :=
  fun x => (dedup_pair_sound_iff f x).mp (h [x, x])

/-- Conversely idempotence is what licenses dropping an adjacent repeat at the head of the chain. -/
theorem reduce1_drop_head_repeat {α : Type} (f : α → α → α) (hid : ∀ x, f x x = x) (x : α) (rest : List α) :
    reduce1 f (x :: x :: rest) = reduce1 f (x :: rest) := by
  simp [reduce1, hid]

/-- **Witness for seeded defect C18_7.**  `xor` (here addition mod 2) is associative and commutative but
    not idempotent: for the contraction `b ^ b` the deduplicated lowering evaluates to `b` (= 1), the source
    term and the real lowering to 0; for `(b ^ c) ^ b` it gives `b ^ c` instead of `c`. -/
theorem lowerContrDedup_not_sound :
    let I : Interp Int := ⟨fun _ => 0, fun _ x => x, fun _ x y => (x + y) % 2, fun _ => 0⟩
    let kw : Kw Int := [("b", 1), ("c", 0)]
    let bb : Src := .contraction "xor" (.cons (.var "b") (.cons (.var "b") .nil))
    let bcb : Src := .contraction "xor" (.cons (.var "b") (.cons (.var "c") (.cons (.var "b") .nil)))
    evalSrc I kw bb = some 0 ∧ (lower bb).bind (eval I kw) = some 0 ∧
    (lowerContrDedup "xor" [.var "b", .var "b"]).bind (eval I kw) = some 1 ∧
    evalSrc I kw bcb = some 0 ∧ (lower bcb).bind (eval I kw) = some 0 ∧
    (lowerContrDedup "xor" [.var "b", .var "c", .var "b"]).bind (eval I kw) = some 1 := by
  refine ⟨by decide, by decide, by decide, by decide, by decide, by decide⟩

/-! ## mirrored comparisons -/

/-- **The mirror table is sound** on a linear order: swapping the operands and mirroring the op is the
    identity, for all six comparison ops and all values — ties included. -/
theorem mirror_sound (op : Cmp) (a b : Int) : op.mirror.eval b a = op.eval a b := by
  cases op <;> simp only [Cmp.mirror, Cmp.eval, decide_eq_decide] <;> omega

theorem mirror_involutive (op : Cmp) : op.mirror.mirror = op := by
  cases op <;> rfl

/-- **Witness for seeded defect C18_11**: with `ge ↦ lt` the canonicalised `c >= e` is wrong exactly at ties. -/
theorem mirrorSlip_wrong_at_ties (a : Int) : Cmp.ge.mirrorSlip.eval a a ≠ Cmp.ge.eval a a := by
  simp [Cmp.mirrorSlip, Cmp.eval]

/-- …and only there: away from ties (and for the other five ops everywhere) the slipped table agrees, which
    is why continuous random data cannot see it. -/
theorem mirrorSlip_right_off_ties (op : Cmp) (a b : Int) (h : op ≠ .ge ∨ a ≠ b) :
    op.mirrorSlip.eval b a = op.eval a b := by
  cases op <;> simp only [Cmp.mirrorSlip, Cmp.mirror, Cmp.eval, decide_eq_decide] <;> try omega
  rcases h with h | h
  · exact absurd rfl h
  · omega

/-- **Witness for seeded defect C18_3.**  With ops uninterpreted, cancelling an op against its registered
    inverse is not sound: here `abs` is registered as the inverse of `abs` (a partial inverse, like
    tanh/atanh or exp/log outside the principal domain) and the cancelled term evaluates to -1, the
    original to 1.  The real `lower` leaves the term alone (`lower_denote`). -/
theorem cancelInv_not_sound :
    let I : Interp Int := ⟨fun _ => 0, fun op x => if op = "abs" then Int.natAbs x else x, fun _ x _ => x, fun _ => 0⟩
    let inv : String → Option String := fun op => if op = "abs" then some "abs" else none
    let e : Expr := .unary "abs" (.unary "abs" (.var "z"))
    eval I [("z", -1)] (cancelInv inv e) = some (-1) ∧ eval I [("z", -1)] e = some 1 ∧
    lower (.unary "abs" (.unary "abs" (.var "z"))) = some e := by
  refine ⟨by decide, by decide, by decide⟩

end FV.Props.C18
