/-
  Props/C18/Trace.lean — programs obtained by tracing a function of ops (`tracer.trace_function`).

  A recorded trace is a list of entries `(result, op, args)` over object identities; a valuation `val`
  gives the value behind each identity.  `trace_program_sound`: if every recorded entry is truthful
  (`val result = op(val args)`), no op returned one of its own arguments, the keyword arguments are
  distinct objects, and `trace_function` returns a program, then running the program on the traced inputs
  returns the value of the root.  This is partial correctness on purpose: the backward dag extraction can
  order a shared intermediate after its consumer, in which case the numbering pass raises `KeyError`
  (`trace_keyerror_witness`) — a decline, never a wrong value.  The final check added by commit 6ee0b90
  (`ids[id(root)] == len(ids) - 1`) is what makes "the result is the last slot" true;
  `trace_returns_input_witness` shows what the code before it did.
-/
import FunsorVerif.Props.C18
import FunsorVerif.Props.C18.Anf
namespace FV.Props.C18
open FV.C18

variable {V : Type}

/-! ## the extracted dag only contains recorded entries, each object once -/

theorem nodup_reverse_of_nodup {α : Type} {l : List α} (h : l.Nodup) : l.reverse.Nodup := by
  unfold List.Nodup at *
  rw [List.pairwise_reverse]
  exact h.imp (fun h => Ne.symm h)

theorem mem_dSet {κ α : Type} [DecidableEq κ] (d : List (κ × α)) (k : κ) (v : α) (p : κ × α)
    (h : p ∈ dSet d k v) : p ∈ d ∨ p = (k, v) := by
  induction d with
  | nil => simp [dSet] at h; exact Or.inr h
  | cons q r ih =>
    obtain ⟨k', w⟩ := q
    by_cases hk : k' = k
    · simp only [dSet, hk, if_true, List.mem_cons] at h
      rcases h with h | h
      · exact Or.inr (by rw [h])
      · exact Or.inl (by simp [h])
    · simp only [dSet, hk, if_false, List.mem_cons] at h
      rcases h with h | h
      · exact Or.inl (by simp [h])
      · rcases ih h with h | h
        · exact Or.inl (by simp [h])
        · exact Or.inr h

theorem setDefaults_spec : ∀ (as : List Nat) (d : Dag),
    (keys d).Nodup → (keys (setDefaults as d)).Nodup ∧ (∀ p ∈ setDefaults as d, p ∈ d ∨ p.2 = none) ∧
      (∀ k, (dGet d k).isSome → dGet (setDefaults as d) k = dGet d k) ∧
      (∀ k, k ∈ keys d → k ∈ keys (setDefaults as d)) := by
  intro as
  induction as with
  | nil => intro d h; exact ⟨h, fun p hp => Or.inl hp, fun _ _ => rfl, fun _ h => h⟩
  | cons a as ih =>
    intro d h
    simp only [setDefaults]
    by_cases ha : (dGet d a).isSome
    · simpa [ha] using ih d h
    · have hnone : dGet d a = none := by simpa using ha
      rw [show (if (dGet d a).isSome = true then d else d ++ [(a, none)]) = d ++ [(a, none)] by simp [hnone]]
      have hnd : (keys (d ++ [(a, none)])).Nodup := by
        have := keys_nodup_dSet d a (none : Option (OpTag × List Nat)) h
        rwa [dSet_fresh d a none hnone] at this
      obtain ⟨h1, h2, h3, h4⟩ := ih (d ++ [(a, none)]) hnd
      refine ⟨h1, ?_, ?_, ?_⟩
      · intro p hp
        rcases h2 p hp with hp | hp
        · rcases List.mem_append.mp hp with hp | hp
          · exact Or.inl hp
          · simp at hp; exact Or.inr (by rw [hp])
        · exact Or.inr hp
      · intro k hk
        have hka : a ≠ k := by intro e; subst e; exact ha hk
        have : dGet (d ++ [(a, none)]) k = dGet d k := by
          rw [← dSet_fresh d a none hnone, dGet_dSet_ne _ _ _ _ hka]
        rw [h3 k (by rw [this]; exact hk), this]
      · intro k hk
        exact h4 k (by simp [keys] at hk ⊢; exact Or.inl hk)

/-- Every non-leaf entry of the extracted dag is a recorded trace entry, and keys are distinct. -/
theorem traceBackward_spec (isVar : Nat → Bool) (trace : List TEntry) : ∀ (rt : List TEntry) (d : Dag),
    (∀ t ∈ rt, t ∈ trace) → (keys d).Nodup →
    (∀ p ∈ d, p.2 = none ∨ ∃ t ∈ trace, p = (t.result, some (t.tag, t.args))) →
    (keys (traceBackward isVar rt d)).Nodup ∧
    (∀ p ∈ traceBackward isVar rt d, p.2 = none ∨ ∃ t ∈ trace, p = (t.result, some (t.tag, t.args))) ∧
    (∀ k, k ∈ keys d → k ∈ keys (traceBackward isVar rt d)) := by
  intro rt
  induction rt with
  | nil => intro d _ h1 h2; exact ⟨h1, h2, fun _ h => h⟩
  | cons t rt ih =>
    intro d hsub hnd hgood
    simp only [traceBackward]
    split
    · exact ih d (fun t' h => hsub t' (by simp [h])) hnd hgood
    · obtain ⟨s1, s2, _, s4⟩ := setDefaults_spec t.args d hnd
      have hnd' := keys_nodup_dSet (setDefaults t.args d) t.result (some (t.tag, t.args)) s1
      obtain ⟨r1, r2, r3⟩ := ih (dSet (setDefaults t.args d) t.result (some (t.tag, t.args)))
        (fun t' h => hsub t' (by simp [h])) hnd'
        (by
          intro p hp
          rcases mem_dSet _ _ _ _ hp with hp | hp
          · rcases s2 p hp with hp | hp
            · exact hgood p hp
            · exact Or.inl hp
          · exact Or.inr ⟨t, hsub t (by simp), hp⟩)
      refine ⟨r1, r2, fun k hk => r3 k ?_⟩
      rw [keys_dSet]
      split
      · simp [s4 k hk]
      · exact s4 k hk

/-! ## the numbering passes keep "slot i holds the value of the object numbered i" -/

structure TInv (val : Nat → V) (ids : TIds) (env : List V) : Prop where
  len : ids.length = env.length
  val : ∀ r i, dGet ids r = some i → env[i]? = some (val r)

theorem TInv.extend {val : Nat → V} {ids : TIds} {env : List V} (inv : TInv val ids env) (r : Nat)
    (hfresh : dGet ids r = none) : TInv val (dSet ids r ids.length) (env ++ [val r]) := by
  constructor
  · rw [length_dSet_fresh _ _ _ hfresh]; simp [inv.len]
  · intro r' i h
    by_cases hr : r = r'
    · subst hr
      rw [dGet_dSet_same] at h; cases h
      rw [inv.len]; simp
    · rw [dGet_dSet_ne _ _ _ _ hr] at h
      have := inv.val r' i h
      have hlt : i < env.length := by
        rcases Nat.lt_or_ge i env.length with h' | h'
        · exact h'
        · rw [List.getElem?_eq_none h'] at this; cases this
      rw [List.getElem?_append_left hlt]; exact this

theorem tConsts_spec (val : Nat → V) (isVar : Nat → Bool) (allow : Bool) (kwIds : List Nat) :
    ∀ (dag : Dag) (ids ids' : TIds) (cs cs' : List Nat),
    (keys dag).Nodup → (∀ r, (dGet ids r).isSome → r ∉ keys dag ∧ r ∉ kwIds) → TInv val ids (cs.map val) →
    tConsts isVar allow kwIds dag ids cs = .ok (ids', cs') →
    TInv val ids' (cs'.map val) ∧ (∀ r, (dGet ids' r).isSome → r ∉ kwIds) := by
  intro dag
  induction dag with
  | nil =>
    intro ids ids' cs cs' _ hf inv h
    simp [tConsts] at h
    obtain ⟨rfl, rfl⟩ := h
    exact ⟨inv, fun r hr => (hf r hr).2⟩
  | cons p dag ih =>
    intro ids ids' cs cs' hnd hf inv h
    obtain ⟨r, node⟩ := p
    have hnd' : r ∉ keys dag ∧ (keys dag).Nodup := by simpa [keys] using hnd
    have hf' : ∀ r', (dGet ids r').isSome → r' ∉ keys dag ∧ r' ∉ kwIds := by
      intro r' hr'
      have := hf r' hr'
      exact ⟨fun hm => this.1 (by simp [keys] at hm ⊢; exact Or.inr hm), this.2⟩
    cases node with
    | some _ => simp only [tConsts] at h; exact ih _ _ _ _ hnd'.2 hf' inv h
    | none =>
      simp only [tConsts] at h
      split at h
      · exact ih _ _ _ _ hnd'.2 hf' inv h
      · rename_i hkw
        split at h
        · cases h
        · have hfresh : dGet ids r = none := by
            cases hg : dGet ids r with
            | none => rfl
            | some i => exact absurd (by simp [keys]) (hf r (by rw [hg]; rfl)).1
          have inv' : TInv val (dSet ids r ids.length) ((cs ++ [r]).map val) := by
            rw [List.map_append]; exact inv.extend r hfresh
          refine ih _ _ _ _ hnd'.2 ?_ inv' h
          intro r' hr'
          by_cases hrr : r = r'
          · subst hrr; exact ⟨hnd'.1, by simpa using hkw⟩
          · rw [dGet_dSet_ne _ _ _ _ hrr] at hr'; exact hf' r' hr'

theorem tInputs_spec (val : Nat → V) : ∀ (kwargs : List (String × Nat)) (ids : TIds) (env : List V),
    (kwargs.map (·.2)).Nodup → (∀ r, (dGet ids r).isSome → r ∉ kwargs.map (·.2)) → TInv val ids env →
    TInv val (tInputs kwargs ids) (env ++ kwargs.map (fun x => val x.2)) := by
  intro kwargs
  induction kwargs with
  | nil => intro ids env _ _ inv; simpa [tInputs] using inv
  | cons p kwargs ih =>
    intro ids env hnd hf inv
    obtain ⟨n, v⟩ := p
    have hnd' : v ∉ kwargs.map (·.2) ∧ (kwargs.map (·.2)).Nodup := by simpa using hnd
    have hfresh : dGet ids v = none := by
      cases hg : dGet ids v with
      | none => rfl
      | some i => exact absurd (by simp) (hf v (by rw [hg]; rfl))
    have := ih (dSet ids v ids.length) (env ++ [val v]) hnd'.2
      (by
        intro r hr
        by_cases hrv : v = r
        · subst hrv; exact hnd'.1
        · rw [dGet_dSet_ne _ _ _ _ hrv] at hr
          intro hm; exact hf r hr (by simp at hm ⊢; exact Or.inr hm))
      (inv.extend v hfresh)
    simpa [tInputs] using this

theorem tLookupAll_getArgs (val : Nat → V) (ids : TIds) (env : List V)
    (hval : ∀ a i, dGet ids a = some i → env[i]? = some (val a)) :
    ∀ (args : List Nat) (is : List Nat), tLookupAll ids args = .ok is → getArgs env is = .ok (args.map val) := by
  intro args
  induction args with
  | nil => intro is h; simp [tLookupAll] at h; subst h; simp [getArgs]
  | cons a args ih =>
    intro is h
    simp only [tLookupAll] at h
    cases ha : dGet ids a with
    | none => simp [ha] at h
    | some i =>
      simp only [ha] at h
      cases hr : tLookupAll ids args with
      | error e => simp [hr] at h
      | ok is' =>
        simp only [hr, Except.ok.injEq] at h
        subst h
        simp [getArgs, hval a i ha, ih is' hr]

theorem tOps_spec (I : Interp V) (val : Nat → V) (env1 : List V) :
    ∀ (dag : Dag) (ids ids' : TIds) (ops ops' : List (OpTag × List Nat)) (env : List V),
    (∀ r tag args, (r, some (tag, args)) ∈ dag →
        applyOp I tag (args.map val) = .ok (val r) ∧ r ∉ args) →
    TInv val ids env → runOps I ops env1 = .ok env →
    tOps dag ids ops = .ok (ids', ops') →
    ∃ env', runOps I ops' env1 = .ok env' ∧ TInv val ids' env' := by
  intro dag
  induction dag with
  | nil =>
    intro ids ids' ops ops' env _ inv hrun h
    simp [tOps] at h
    obtain ⟨rfl, rfl⟩ := h
    exact ⟨env, hrun, inv⟩
  | cons p dag ih =>
    intro ids ids' ops ops' env hgood inv hrun h
    obtain ⟨r, node⟩ := p
    have hgood' : ∀ r tag args, (r, some (tag, args)) ∈ dag →
        applyOp I tag (args.map val) = .ok (val r) ∧ r ∉ args :=
      fun r tag args hm => hgood r tag args (by simp [hm])
    simp only [tOps] at h
    split at h
    · exact ih _ _ _ _ _ hgood' inv hrun h
    · rename_i hin
      have hfresh : dGet ids r = none := by simpa using hin
      cases node with
      | none => simp at h
      | some ta =>
        obtain ⟨tag, args⟩ := ta
        simp only at h
        cases hl : tLookupAll (dSet ids r ids.length) args with
        | error e => simp [hl] at h
        | ok is =>
          simp only [hl] at h
          obtain ⟨happ, hself⟩ := hgood r tag args (by simp)
          -- the arguments were numbered before `r`: their slots exist and hold their values
          have hval' : ∀ a i, a ∈ args → dGet (dSet ids r ids.length) a = some i → env[i]? = some (val a) := by
            intro a i ha hg
            have hne : r ≠ a := fun e => hself (e ▸ ha)
            rw [dGet_dSet_ne _ _ _ _ hne] at hg
            exact inv.val a i hg
          have hga : getArgs env is = .ok (args.map val) := by
            -- restrict the lookup lemma to the arguments
            have : ∀ (as : List Nat) (js : List Nat), (∀ a ∈ as, a ∈ args) →
                tLookupAll (dSet ids r ids.length) as = .ok js → getArgs env js = .ok (as.map val) := by
              intro as
              induction as with
              | nil => intro js _ hj; simp [tLookupAll] at hj; subst hj; simp [getArgs]
              | cons a as iha =>
                intro js hsub hj
                simp only [tLookupAll] at hj
                cases hda : dGet (dSet ids r ids.length) a with
                | none => simp [hda] at hj
                | some i =>
                  simp only [hda] at hj
                  cases hr : tLookupAll (dSet ids r ids.length) as with
                  | error e => simp [hr] at hj
                  | ok js' =>
                    simp only [hr, Except.ok.injEq] at hj
                    subst hj
                    simp [getArgs, hval' a i (hsub a (by simp)) hda,
                      iha js' (fun x hx => hsub x (by simp [hx])) hr]
            exact this args is (fun _ h => h) hl
          have hrun' : runOps I (ops ++ [(tag, is)]) env1 = .ok (env ++ [val r]) := by
            rw [runOps_append I ops [(tag, is)] env1 env hrun]
            simp [runOps, hga, happ]
          exact ih _ _ _ _ _ hgood' (inv.extend r hfresh) hrun' h

/-! ## reading the traced inputs back -/

theorem kwGet_map_nodup (val : Nat → V) : ∀ (kwargs : List (String × Nat)),
    (kwargs.map (·.1)).Nodup →
    (kwargs.map (·.1)).map (kwGet (kwargs.map fun x => (x.1, val x.2))) =
      (kwargs.map fun x => val x.2).map some := by
  intro kwargs
  induction kwargs with
  | nil => intro _; rfl
  | cons p kwargs ih =>
    intro hnd
    obtain ⟨n, v⟩ := p
    have hnd' : n ∉ kwargs.map (·.1) ∧ (kwargs.map (·.1)).Nodup := by simpa using hnd
    simp only [List.map_cons, kwGet, if_true, List.cons.injEq, true_and]
    rw [← ih hnd'.2]
    apply List.map_congr_left
    intro m hm
    have : n ≠ m := by intro e; subst e; exact hnd'.1 hm
    simp [this]

/-! ## the theorem -/

/-- **C18, tracer.**  Whenever `trace_function` returns a program for a truthful trace, running it on the
    traced inputs returns the value the function returned. -/
theorem trace_program_sound (I : Interp V) (val : Nat → V) (hconst : ∀ c, I.const c = val c)
    (isVar : Nat → Bool) (allow : Bool) (trace : List TEntry) (root : Nat) (kwargs : List (String × Nat))
    (p : Prog)
    (htruth : ∀ t ∈ trace, applyOp I t.tag (t.args.map val) = .ok (val t.result))
    (hfresh : ∀ t ∈ trace, t.result ∉ t.args)
    (hnames : (kwargs.map (·.1)).Nodup) (hobjs : (kwargs.map (·.2)).Nodup)
    (h : traceCompile isVar allow trace root kwargs = .ok p) :
    run I p (kwargs.map fun x => (x.1, val x.2)) = .ok (val root) := by
  simp only [traceCompile] at h
  -- the dag
  obtain ⟨dnd, dgood, _⟩ := traceBackward_spec isVar trace trace.reverse [(root, none)]
    (fun t ht => by simpa using ht) (by simp [keys]) (by simp)
  have dnd' : (keys (traceDag isVar trace root)).Nodup := by
    simp only [traceDag, keys, List.map_reverse]
    exact nodup_reverse_of_nodup dnd
  have dgood' : ∀ r tag args, (r, some (tag, args)) ∈ traceDag isVar trace root →
      applyOp I tag (args.map val) = .ok (val r) ∧ r ∉ args := by
    intro r tag args hm
    simp only [traceDag, List.mem_reverse] at hm
    rcases dgood _ hm with hn | ⟨t, ht, he⟩
    · simp at hn
    · simp only [Prod.mk.injEq, Option.some.injEq] at he
      obtain ⟨rfl, rfl, rfl⟩ := he
      exact ⟨htruth t ht, hfresh t ht⟩
  -- constants
  cases hc : tConsts isVar allow (kwargs.map (·.2)) (traceDag isVar trace root) [] [] with
  | error e => simp [hc] at h
  | ok r1 =>
    obtain ⟨ids1, cs⟩ := r1
    simp only [hc] at h
    obtain ⟨inv1, hk1⟩ := tConsts_spec val isVar allow (kwargs.map (·.2)) _ [] ids1 [] cs dnd'
      (by simp [dGet]) ⟨rfl, by simp [dGet]⟩ hc
    -- inputs
    have inv2 := tInputs_spec val kwargs ids1 (cs.map val) hobjs hk1 inv1
    -- operations
    cases ho : tOps (traceDag isVar trace root) (tInputs kwargs ids1) [] with
    | error e => simp [ho] at h
    | ok r3 =>
      obtain ⟨ids3, ops⟩ := r3
      simp only [ho] at h
      obtain ⟨env3, hrun, inv3⟩ := tOps_spec I val (cs.map val ++ kwargs.map fun x => val x.2) _ _ ids3 [] ops _
        dgood' inv2 (by simp [runOps]) ho
      cases hr : dGet ids3 root with
      | none => simp [hr] at h
      | some i =>
        simp only [hr] at h
        split at h
        · cases h
        · rename_i hlast
          simp only [Except.ok.injEq] at h
          subst h
          have hlast' : i + 1 = ids3.length := by simpa using hlast
          -- run
          have hkw : KwMatches (kwargs.map fun x => (x.1, val x.2)) (kwargs.map (·.1)) := by
            constructor
            · simpa [kwKeys, List.map_map, Function.comp_def] using hnames
            · intro n; simp [kwKeys, List.map_map, Function.comp_def]
          obtain ⟨vs, rest, hread, _, hvals, hrest⟩ := readInputs_spec (kwargs.map (·.1))
            (kwargs.map fun x => (x.1, val x.2)) (cs.map I.const) hnames hkw.1 (fun n hn => (hkw.2 n).mpr hn)
          have hrest_nil : rest = [] :=
            kwKeys_eq_nil (fun k hk => ((hrest k).mp hk).2 ((hkw.2 k).mp ((hrest k).mp hk).1))
          subst hrest_nil
          have hvs : vs = kwargs.map fun x => val x.2 := by
            rw [kwGet_map_nodup val kwargs hnames] at hvals
            exact (List.map_inj_right (fun x y h => Option.some.inj h)).mp hvals
          subst hvs
          have hcs : cs.map I.const = cs.map val := List.map_congr_left (fun c _ => hconst c)
          have hslot := inv3.val root i hr
          have hres : env3.getLast? = some (val root) := by
            rw [List.getLast?_eq_getElem?, ← inv3.len, ← hlast']
            simpa using hslot
          rw [hcs] at hread
          simp [run, hread, hcs, hrun, hres]

/-! ## witnesses -/

/-- **The dag extraction can mis-order a shared intermediate** (a decline, not a wrong value):
    `a = f(x); b = g(a); return h(a, b)` — `a` enters the dag as an operand of the root before `b`, and
    `dag[id(a)] = …` keeps that position, so in forward order `b` comes before `a` and `ids[id(a)]` raises
    `KeyError`.  Object ids: x=0, a=1, b=2, root=3. -/
theorem trace_keyerror_witness :
    traceCompile (fun _ => true) false
      [⟨1, .op "exp", [0]⟩, ⟨2, .op "log", [1]⟩, ⟨3, .op "add", [1, 2]⟩] 3 [("x", 0)]
      = .error (.keyId 1) := by
  rfl

/-- With the operands of the root in the other order the same function traces fine. -/
example :
    traceCompile (fun _ => true) false
      [⟨1, .op "exp", [0]⟩, ⟨2, .op "log", [1]⟩, ⟨3, .op "add", [2, 1]⟩] 3 [("x", 0)]
      = .ok ⟨[], ["x"], [(.op "exp", [0]), (.op "log", [1]), (.op "add", [2, 1])]⟩ := by
  rfl

/-- **Witness for commit 6ee0b90.**  A function that returns its first input: the program has no operation
    and its last slot is the LAST input; the final check now declines (before, `run` returned `b`). -/
theorem trace_returns_input_witness (I : Interp V) (a b : V) :
    traceCompile (fun _ => true) false [] 0 [("a", 0), ("b", 1)] = .error (.notImplemented (.fn (.const 0))) ∧
    run I ⟨[], ["a", "b"], []⟩ [("a", a), ("b", b)] = .ok b := by
  refine ⟨rfl, ?_⟩
  simp [run, readInputs, kwGet, kwErase, runOps]

/-- **Witness for seeded defect C18_9: a data-dependent op argument must be a program SLOT.**
    The function is `f(x, y) = x - g(y)` (g = `neg`).  `pSlot` is what the tracer records (g(y) is an operation
    whose result is a slot); `pBaked` freezes the trace-time value of g(y) (here for y = 2) into a constant, as
    happens when a computed parameter is baked into a specialised op instance.  Both agree with the function on
    the trace binding; on the fresh binding (x = 10, y = 5) the baked program returns 12, the function 15.
    `trace_program_sound` speaks about ONE valuation: a program agreeing with the function on EVERY binding
    needs every argument that depends on the inputs to be read from a slot. -/
theorem baked_parameter_witness :
    let I : Interp Int := ⟨fun _ => -2, fun _ x => -x, fun _ x y => x - y, fun _ => 0⟩
    let pSlot : Prog := ⟨[], ["x", "y"], [(.op "neg", [1]), (.op "sub", [0, 2])]⟩
    let pBaked : Prog := ⟨[0], ["x", "y"], [(.op "sub", [1, 0])]⟩
    run I pSlot [("x", 10), ("y", 2)] = .ok 12 ∧ run I pBaked [("x", 10), ("y", 2)] = .ok 12 ∧
    run I pSlot [("x", 10), ("y", 5)] = .ok 15 ∧ run I pBaked [("x", 10), ("y", 5)] = .ok 12 := by
  refine ⟨rfl, rfl, rfl, rfl⟩

/-- **The trace is keyed by object identity** (observed on the tree, counted by the harness): when two ops
    return the SAME object (numpy's `True_` singleton) only the first entry survives `trace.setdefault`, and
    the root resolves to it.  Recorded trace of `and_(any(x), all(y))` with all three results being object 2:
    the program is `any(x)` and never reads `y`. -/
theorem trace_singleton_merge_witness :
    traceCompile (fun _ => true) false [⟨2, .op "any", [0]⟩] 2 [("x", 0), ("y", 1)]
      = .ok ⟨[], ["x", "y"], [(.op "any", [0])]⟩ := by
  rfl

end FV.Props.C18
